"""C19 -- distance kernels and grid descriptors equal their mathematical definition (Python layer only).

Decided deductively: rectangular_grid's lattice arithmetic over the reals; nearest_atom_index and prune pass the caller's
cut-off both as search bound and as threshold (so, under the assumed KD-tree contract, the result is the nearest atom
within the cut-off, else -1 / kept iff within the cut-off).  The compiled kernels (molli_xt, C++/pybind11) are out of reach
of this family: a bounded differential stand-in against float64 numpy runs on the real extension and is labelled bounded.
"""
import z3
from pyvc.spec import *
from pyvc.values import *
from pyvc.ops import to_z3
from pyvc import npmodel as NP

P = Property("C19", "distance kernels and grid descriptors (Python layer)")
P.trust("scipy KDTree.query(x, k=1, eps, distance_upper_bound): nearest neighbour within the bound up to the factor (1+eps), else (inf, n) (assumed)")
P.trust("numpy linspace / meshgrid / column_stack: the full cartesian product of the three axes, linspace(a, b, n) = a + i (b - a)/(n - 1)")
P.assume("floats as reals; the dtype cast to float32 of rectangular_grid is not modelled")
P.not_decided += ["molli_xt distance kernels (C++ templates behind pybind11): no deductive verifier for C++ here and no Python AST -- bounded differential stand-in only",
                  "aso / aeif on shapes other than 2 conformers x 2 atoms x 2 grid points: bounded numeric stand-in only"]
P.bounded_in_quick = True
GB = "molli.descriptor.gridbased"


def R(x):
    return to_z3(x, "real")


@P.unit(f"{GB}:rectangular_grid", name="rectangular_grid: full lattice, requested spacing, centred and contained in the padded box")
def _grid(V):
    I, st = V.I, V.st
    r1 = [V.sym(f"lo{k}", "real") for k in range(3)]
    r2 = [V.sym(f"hi{k}", "real") for k in range(3)]
    pad, sp = V.sym("padding", "real"), V.sym("spacing", "real")
    V.assume(z3.And(sp.z > 0, pad.z >= 0, *[r2[k].z >= r1[k].z for k in range(3)]))
    lins = []
    st.ghost[("np", "linspace")] = lambda I_, a, k: lins.append((a[0], a[1], a[2], k)) or Obj(I.builtins["object"], {"i": len(lins) - 1}, tag="linspace")
    mesh = []
    st.ghost[("np", "meshgrid")] = lambda I_, a, k: mesh.append(a) or tuple(Obj(I.builtins["object"], {"axis": j, "ravel": Builtin("ravel", (lambda j_: lambda i2, a2, k2: ("ravel", j_))(j))}, tag="mesh") for j in range(3))
    stack = []
    st.ghost[("np", "column_stack")] = lambda I_, a, k: stack.append(a[0]) or Opaque("obj:grid")
    V.witness(lambda ev: {"op": "rectangular_grid", "lo": [ev(x, 0.0) for x in r1], "hi": [ev(x, 1.0) for x in r2], "padding": ev(pad, 0.0),
                          "spacing": ev(sp, 1.0), "signature": "rectangular_grid"})
    V.cover()
    out = V.call(f"{GB}:rectangular_grid", [ListV(r1), ListV(r2)], {"padding": pad, "spacing": sp})
    V.ensure("post/returns", z3.BoolVal(out.returned))
    if not out.returned:
        return
    V.ensure("post/three-axes-full-cartesian-product", z3.BoolVal(len(lins) == 3 and len(mesh) == 1 and [x.fields["i"] for x in mesh[0]] == [0, 1, 2]
                                                                   and len(stack) == 1 and list(stack[0]) == [("ravel", 0), ("ravel", 1), ("ravel", 2)]))
    if len(lins) != 3:
        return
    for k, (a0, b0, n, kw) in enumerate(lins):
        l, r = r1[k].z - pad.z, r2[k].z + pad.z
        a_, b_, n_ = R(a0), R(b0), to_z3(n, "int")
        nr = z3.ToReal(n_)
        V.ensure(f"post/axis{k}:point-count-is-floor(extent/spacing)+1", z3.And(n_ >= 1, (nr - 1) * sp.z <= r - l, r - l < nr * sp.z))
        V.ensure(f"post/axis{k}:centred-in-the-padded-box", a_ - l == r - b_)
        V.ensure(f"post/axis{k}:contained-in-the-padded-box", z3.And(a_ >= l, b_ <= r, a_ - l < sp.z / 2 + 0))
        V.ensure(f"post/axis{k}:step-is-the-requested-spacing", z3.Implies(n_ > 1, b_ - a_ == (nr - 1) * sp.z))
        V.ensure(f"post/axis{k}:single-point-is-the-centre", z3.Implies(n_ == 1, a_ == b_))
        V.ensure(f"post/axis{k}:endpoint-included", z3.BoolVal(kw.get("endpoint", True) is True))


def kdtree_stub(I, st, queries):
    obj = I.builtins["object"]
    KD = ClassV("KDTree", builtin=True, bases=[obj])
    KD.compute_mro()
    KD.ns["__pyvc_new__"] = lambda i, c, a, k: Obj(KD, {"pts": a[0]}, tag="kdtree")

    def query(i, a, k):
        queries.append((a[1], a[2:], dict(k), a[0]))
        return (Opaque(f"obj:dd{len(queries)}"), Opaque(f"obj:ii{len(queries)}"))
    KD.ns["query"] = Builtin("KDTree.query", query)
    I.ext_models["scipy.spatial.KDTree"] = KD


@P.unit(f"{GB}:nearest_atom_index", name="nearest_atom_index / prune use the caller's cut-off as bound and as threshold",
        functions=[f"{GB}:nearest_atom_index", f"{GB}:prune"])
def _nearest(V):
    I, st = V.I, V.st
    from contracts import mol as M
    kind = V.choose(["geometry", "ensemble"], "argument")
    fn = V.choose(["nearest_atom_index", "prune"], "function")
    queries = []
    kdtree_stub(I, st, queries)
    wheres = []

    def where(I_, a, k):
        wheres.append(a)
        return Opaque(f"obj:where{len(wheres)}") if len(a) == 3 else (Opaque(f"obj:where{len(wheres)}"),)
    st.ghost_np = None
    I.ext_models["numpy.where"] = Builtin("np.where", where)
    I.ext_models["numpy.asarray"] = Builtin("np.asarray", lambda i, a, k: a[0])
    I.ext_models["numpy.empty"] = Builtin("np.empty", lambda i, a, k: Obj(I.builtins["object"], {"rows": {}, "__setitem__": None}, tag="result"))
    maxd = V.sym("max_dist", "real")
    eps = V.sym("eps", "real")
    grid = Obj(I.builtins["object"], {"shape": (7, 3)}, tag="grid")
    obj = M.mk_mol(V, "Molecule", 2, ()) if kind == "geometry" else M.mk_ens(V, 2, 2, bonds=())
    cmps = []
    # comparisons `dd <= X` on the opaque distances are recorded
    real_compare = I.compare_hook

    def hook(op, a, b):
        if isinstance(a, Opaque) and str(a.head).startswith("obj:dd"):
            cmps.append((type(op).__name__, a, b))
            return True
        return real_compare(op, a, b)
    I.compare_hook = hook
    res_rows = []
    I.builtins["object"].ns  # noqa
    V.witness(lambda ev: {"op": fn, "argument": kind, "max_dist": 3.0, "signature": f"{fn}/{kind}"})
    V.cover()
    try:
        if fn == "nearest_atom_index":
            if kind == "ensemble":
                # result[i] = ... on the stub result object
                I.builtins["object"].ns["__setitem__"] = Builtin("setitem", lambda i, a, k: res_rows.append((a[1], a[2])))
            out = V.call(f"{GB}:nearest_atom_index", [grid, obj], {"max_dist": maxd})
        else:
            out = V.call(f"{GB}:prune", [grid, obj], {"max_dist": maxd, "eps": eps})
    finally:
        I.compare_hook = real_compare
        I.builtins["object"].ns.pop("__setitem__", None)
    V.ensure("post/returns", z3.BoolVal(out.returned))
    if not out.returned:
        return
    nq = 2 if (kind == "ensemble" and fn == "nearest_atom_index") else 1
    V.ensure("post/one-nearest-neighbour-query-per-geometry", z3.BoolVal(len(queries) == nq and all(q[0] is grid for q in queries)))
    V.ensure("post/search-bound-is-the-caller's-cut-off", z3.BoolVal(all(q[2].get("distance_upper_bound") is maxd for q in queries)))
    V.ensure("post/threshold-is-the-caller's-cut-off", z3.BoolVal(len(cmps) == nq and all(c[0] == "LtE" and c[2] is maxd for c in cmps)))
    # the tree is built over exactly the coordinates of the structure / of each conformer / of all conformers
    def same(a_, b_):
        fa, fb = NP.flat(a_.data), NP.flat(b_.data)
        return z3.BoolVal(False) if len(fa) != len(fb) else z3.And(*[to_z3(x, "real") == to_z3(y, "real") for x, y in zip(fa, fb)])
    full = obj.fields["_coords"]
    if kind == "ensemble" and fn == "nearest_atom_index":
        exp = [NP.mk(full.data[c_]) for c_ in range(2)]
    else:
        exp = [full]
    V.ensure("post/tree-is-built-over-the-geometry's-own-coordinates",
             z3.And(*[same(q[3].fields["pts"], e_) if isinstance(q[3].fields["pts"], NdArr) else z3.BoolVal(False) for q, e_ in zip(queries, exp)]))
    if kind == "ensemble" and fn == "nearest_atom_index":
        V.ensure("post/row-i-is-conformer-i", z3.BoolVal([r_[0] for r_ in res_rows] == [0, 1]))
    if fn == "prune":
        V.ensure("post/returns-the-indices-within-the-cut-off", z3.BoolVal(len(wheres) == 1 and len(wheres[0]) == 1 and isinstance(out.value, Opaque) and out.value.head == "obj:where1"))
        V.ensure("post/approximation-factor-is-the-caller's-eps", z3.BoolVal(all(q[2].get("eps") is eps for q in queries)))
    else:
        # the *closest* atom is asked for: an approximate search (eps > 0) may name another atom or none at all
        V.ensure("post/exact-nearest-neighbour-search-(no-approximation-factor)", z3.BoolVal(all(q[2].get("eps", 0) in (0, 0.0) and q[2].get("k", 1) == 1 for q in queries)))
        V.ensure("post/elsewhere-minus-one", z3.BoolVal(len(wheres) == nq and all(len(w_) == 3 and w_[2] == -1 for w_ in wheres)))
        V.ensure("post/inside-the-cut-off-the-tree's-index", z3.BoolVal(len(wheres) == nq and all(len(w_) == 3 and isinstance(w_[1], Opaque) and w_[1].head == f"obj:ii{j + 1}" for j, w_ in enumerate(wheres))))
        if kind == "geometry":
            V.ensure("post/returns-that-selection", z3.BoolVal(isinstance(out.value, Opaque) and out.value.head == "obj:where1"))
        else:
            V.ensure("post/returns-that-selection", z3.BoolVal([getattr(r_[1], "head", None) for r_ in res_rows] == ["obj:where1", "obj:where2"]))


# ------------------------------------------------------------------------------------------------------- aso / aeif
def kernel_models(I):
    """the compiled kernels by their mathematical definition (the kernels themselves: bounded stand-in only)"""
    import ast as _ast

    def d2(p, q):
        t = 0
        for x, y in zip(p, q):
            d = I.binop(_ast.Sub(), x, y)
            t = I.binop(_ast.Add(), t, I.binop(_ast.Mult(), d, d))
        return t

    def cdist32(i, a, k):
        A, B = NP.asarray(i, a[0]), NP.asarray(i, a[1])
        return NP.mk([[[d2(p, q) for q in B.data] for p in conf] for conf in A.data], "float")
    for nm in ("cdist32_eu2", "cdist32f_eu2", "cdist32d_eu2"):
        I.ext_models[f"molli_xt.{nm}"] = Builtin(nm, cdist32, "molli_xt kernels return the squared Euclidean distances (assumed; bounded stand-in only)")


def field_setup(V, nc=2, na=2, ng=2):
    I, st = V.I, V.st
    from contracts import mol as M
    kernel_models(I)
    ens = M.mk_ens(V, nc, na, bonds=())
    radii = [V.sym(f"r{a}", "real") for a in range(na)]
    V.assume(z3.And(*[r.z > 0 for r in radii]))
    atoms = ens.fields["_atoms"].items
    I.stubs["molli.chem.atom:Atom.vdw_radius"] = lambda I_, f, args, kw: radii[[id(x) for x in atoms].index(id(args[0]))]
    grid = NP.mk([[V.sym(f"g{g}{c}", "real") for c in range(3)] for g in range(ng)], "float")
    w = ens.fields["_weights"]
    V.assume(z3.And(*[to_z3(x, "real") > 0 for x in w.data]))
    co = ens.fields["_coords"].data
    inside = [[z3.Or(*[sum((R(co[c][a][k]) - R(grid.data[g][k])) * (R(co[c][a][k]) - R(grid.data[g][k])) for k in range(3)) <= radii[a].z * radii[a].z
                       for a in range(na)]) for g in range(ng)] for c in range(nc)]
    return ens, grid, radii, inside


def averaged(vals, weights, weighted):
    """the (weighted) conformer average of per-conformer values"""
    if weighted:
        return sum(R(w_) * v for w_, v in zip(weights, vals)) / sum(R(w_) for w_ in weights)
    return sum(vals) / len(vals)


@P.unit(f"{GB}:aso", name="aso = (weighted) conformer average of the van der Waals occupancy")
def _aso(V):
    I, st = V.I, V.st
    weighted = V.choose([False, True], "weighted")
    ens, grid, radii, inside = field_setup(V)
    V.witness(lambda ev: {"op": "fields", "signature": "aso"})
    V.cover()
    out = V.call(f"{GB}:aso", [ens, grid], {"weighted": weighted})
    V.ensure("aso/returns-one-value-per-grid-point", z3.BoolVal(out.returned and isinstance(out.value, NdArr) and tuple(out.value.tail) == (2,)))
    if not (out.returned and isinstance(out.value, NdArr) and tuple(out.value.tail) == (2,)):
        return
    ws = ens.fields["_weights"].data
    for g in range(2):
        occ = [z3.If(inside[c][g], z3.RealVal(1), z3.RealVal(0)) for c in range(2)]
        V.ensure(f"aso/point{g}:average-occupancy", R(out.value.data[g]) == averaged(occ, ws, weighted))


@P.unit(f"{GB}:aeif", name="aeif = (weighted) conformer average of the nearest-atom charge inside the van der Waals spheres",
        functions=[f"{GB}:aeif", f"{GB}:atomic_indicator_field"])
def _aeif(V):
    I, st = V.I, V.st
    weighted = V.choose([False, True], "weighted")
    given = V.choose(["computed", "passed"], "nearest_atom_idx")
    ens, grid, radii, inside = field_setup(V)
    near = [[V.sym(f"near{c}{g}", "int") for g in range(2)] for c in range(2)]
    V.assume(z3.And(*[z3.And(n.z >= -1, n.z < 2) for row in near for n in row]))
    asked = []

    def nearest_stub(I_, f, args, kw):
        asked.append((args[0], args[1], kw.get("max_dist", args[2] if len(args) > 2 else None)))
        return NP.mk([list(r) for r in near], "int")
    I.stubs[f"{GB}:nearest_atom_index"] = nearest_stub
    V.witness(lambda ev: {"op": "fields", "signature": "aeif"})
    V.cover()
    kw = {"weighted": weighted}
    if given == "passed":
        kw["nearest_atom_idx"] = NP.mk([list(r) for r in near], "int")
    out = V.call(f"{GB}:aeif", [ens, grid], kw)
    ok = out.returned and isinstance(out.value, NdArr) and tuple(out.value.tail) == (2,)
    V.ensure("aeif/returns-one-value-per-grid-point", z3.BoolVal(bool(ok)))
    if not ok:
        return
    if given == "computed":
        rmax = z3.If(radii[0].z > radii[1].z, radii[0].z, radii[1].z)
        V.ensure("aeif/nearest-atoms-looked-up-within-the-largest-radius", z3.BoolVal(False) if (len(asked) != 1 or asked[0][2] is None)
                 else z3.And(z3.BoolVal(asked[0][0] is grid and asked[0][1] is ens), R(asked[0][2]) == rmax))
    q = ens.fields["_atomic_charges"].data
    ws = ens.fields["_weights"].data
    for g in range(2):
        ind = []
        for c in range(2):
            qn = z3.If(near[c][g].z == 0, R(q[c][0]), R(q[c][1]))
            ind.append(z3.If(z3.And(inside[c][g], near[c][g].z >= 0), qn, z3.RealVal(0)))
        V.ensure(f"aeif/point{g}:average-nearest-atom-charge-indicator", R(out.value.data[g]) == averaged(ind, ws, weighted))


@P.bounded_standin("compiled kernels and aso/aeif vs float64 numpy (real extension, CPython)", "shapes 0..5 x 0..5 (x 1..3 conformers), float32/float64, contiguous and transposed inputs; random ensembles/grids")
def _bounded(seed):
    import subprocess, json, os
    here = os.path.dirname(os.path.dirname(os.path.abspath(__file__)))
    r = subprocess.run(["/venv/bin/python", os.path.join(here, "replay", "C19.py"), "--bounded", str(seed)], capture_output=True, text=True, timeout=3000,
                       env={**os.environ, "PYTHONPATH": os.environ.get("PYVC_REPO", "/repo")})
    try:
        return json.loads(r.stdout.strip().splitlines()[-1])
    except Exception:
        return {"error": (r.stdout + r.stderr)[-500:]}
