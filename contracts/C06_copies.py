"""C06 -- copies are faithful and independent; derived molecules never alter their sources.

Every copy route (copy constructors of the five molecule classes and the ensemble, Atom/Bond.evolve, pickling through the
real __getstate__/__setstate__ under an explicit model of the pickle protocol, concatenate, `|`) is executed symbolically
on an object whose values are symbolic.  Faithful: every observable field of the result equals the source's, parents and
indices are defined and right.  Independent: the footprints (all mutable objects reachable through atoms, bonds, attribute
dictionaries, coordinate / charge / weight arrays) of result and source are disjoint -- so a mutation through one side,
whose frame lies inside that side's footprint, cannot change the other (frame lemma).
"""
import z3
from pyvc.spec import *
from pyvc.values import *
from pyvc.ops import to_z3
from pyvc import npmodel as NP
from contracts import mol as M

P = Property("C06", "copies are faithful and independent")
P.trust("pickle / copy.deepcopy protocol model: obj' = cls.__new__(cls); state = deep copy of obj.__getstate__() (or of __dict__/slots when "
        "absent); obj'.__setstate__(state) (or attribute update); weakrefs are not picklable; ndarray/dict/list copied structurally")
P.assume("sizes fixed (3 atoms, 2 bonds, 2 conformers); values symbolic; mutations after the copy are covered by footprint disjointness "
         "plus the frames of the mutators (C05/C14/C16): nested attribute *values* (objects stored inside attrib dicts) are out of scope")
KINDS = ["Molecule", "Structure", "CartesianGeometry", "Connectivity", "Promolecule"]


def footprint(o):
    """ids of all mutable objects reachable from a molecule-like object (python identity)"""
    ids = {}

    def add(x, what):
        if x is not None:
            ids[id(x)] = what
    add(o.fields.get("attrib"), "attrib dict")
    add(o.fields.get("_atoms"), "atom list")
    for a in (o.fields["_atoms"].items if isinstance(o.fields.get("_atoms"), ListV) else []):
        add(a, "atom")
        add(a.fields.get("attrib"), "atom attrib dict")
    add(o.fields.get("_bonds"), "bond list")
    for b in (o.fields["_bonds"].items if isinstance(o.fields.get("_bonds"), ListV) else []):
        add(b, "bond")
        add(b.fields.get("attrib"), "bond attrib dict")
    for f in ("_coords", "_atomic_charges", "_weights"):
        arr = o.fields.get(f)
        if isinstance(arr, NdArr):
            add(arr, f"{f} array")
            if isinstance(arr.data, list):
                add(arr.data, f"{f} buffer")
                for row in arr.data:
                    if isinstance(row, list):
                        add(row, f"{f} row")
                        for r2 in row:
                            if isinstance(r2, list):
                                add(r2, f"{f} row")
    return ids


def faithful(V, src, res, label, fields_expected=None):
    I = V.I
    ok = isinstance(res, Obj) and res.cls is src.cls and res is not src
    V.ensure(f"{label}/new-object-of-the-same-class", z3.BoolVal(ok))
    if not ok:
        return
    for f, nm in (("_name", "name"), ("charge", "charge"), ("mult", "multiplicity")):
        V.ensure(f"{label}/{nm}", I.eq(src.fields[f], res.fields.get(f)) if res.fields.get(f) is not None else z3.BoolVal(False))
    V.ensure(f"{label}/attributes-equal", z3.BoolVal(isinstance(res.fields.get("attrib"), DictV) and res.fields["attrib"].keys == src.fields["attrib"].keys
                                                      and all(x is y for x, y in zip(res.fields["attrib"].vals, src.fields["attrib"].vals))))
    sa = src.fields["_atoms"].items
    ra = res.fields["_atoms"].items if isinstance(res.fields.get("_atoms"), ListV) else None
    V.ensure(f"{label}/atom-count", z3.BoolVal(ra is not None and len(ra) == len(sa)))
    if ra is None or len(ra) != len(sa):
        return
    for f in ("element", "isotope", "label", "atype", "stereo", "geom", "formal_charge", "formal_spin"):
        V.ensure(f"{label}/atom.{f}", I.and_(*[(y.fields.get(f) is None) if x.fields[f] is None else I.eq(x.fields[f], y.fields.get(f)) for x, y in zip(sa, ra)]))
    V.ensure(f"{label}/atom.attrib-equal", z3.BoolVal(all(isinstance(y.fields.get("attrib"), DictV) and y.fields["attrib"].keys == x.fields["attrib"].keys
                                                         and all(p is q for p, q in zip(y.fields["attrib"].vals, x.fields["attrib"].vals)) for x, y in zip(sa, ra))))
    # parents and indices are defined (no AttributeError) and right
    okp = True
    for j, y in enumerate(ra):
        try:
            okp = okp and I.getattr_(y, "parent") is res and I.getattr_(y, "idx") == j
        except PyExc:
            okp = False
    V.ensure(f"{label}/atom-parent-and-index", z3.BoolVal(bool(okp)))
    if "_bonds" in src.fields:
        sb = src.fields["_bonds"].items
        rb = res.fields["_bonds"].items if isinstance(res.fields.get("_bonds"), ListV) else None
        okb = rb is not None and len(rb) == len(sb) and all(y.fields.get("a1") in ra and y.fields.get("a2") in ra and
                                                            ra.index(y.fields["a1"]) == sa.index(x.fields["a1"]) and ra.index(y.fields["a2"]) == sa.index(x.fields["a2"]) for x, y in zip(sb, rb))
        V.ensure(f"{label}/bonds-with-endpoints", z3.BoolVal(bool(okb)))
        if okb:
            V.ensure(f"{label}/bond-fields", I.and_(*[I.eq(x.fields[f], y.fields.get(f)) for x, y in zip(sb, rb) for f in ("btype", "stereo", "f_order")]))
            okbp = True
            for y in rb:
                try:
                    okbp = okbp and I.getattr_(y, "parent") is res
                except PyExc:
                    okbp = False
            V.ensure(f"{label}/bond-parent", z3.BoolVal(bool(okbp)))
    for f, nm in (("_coords", "coordinates"), ("_atomic_charges", "partial-charges"), ("_weights", "weights")):
        if f in src.fields:
            a, b = src.fields[f], res.fields.get(f)
            ok = isinstance(b, NdArr) and b.data is not None and tuple(b.tail) == tuple(a.tail)
            V.ensure(f"{label}/{nm}", I.and_(*[M._same(I, x, y) for x, y in zip(NP.flat(a.data), NP.flat(b.data))]) if ok else z3.BoolVal(False))


def independent(V, srcs, res, label):
    fr = footprint(res)
    shared = []
    for s in srcs:
        for i_, what in footprint(s).items():
            if i_ in fr:
                shared.append(what)
    V.ensure(f"{label}/no-mutable-state-shared-with-the-source", z3.BoolVal(not shared), shared=sorted(set(shared)))
    return sorted(set(shared))


def source(V, kind, name="s"):
    if kind == "ConformerEnsemble":
        o = M.mk_ens(V, 2, 3, bonds=((0, 1), (2, 1)), name=name)
    else:
        o = M.mk_mol(V, kind, 3, ((0, 1), (2, 1)), name=name, full=True)
    o.fields["attrib"] = DictV([("note", Opaque("obj:attr-value"))])
    for n_, a in enumerate(o.fields["_atoms"].items):
        # the last atom / bond carries an EMPTY attribute dictionary (the common case): it must not be shared either
        a.fields["attrib"] = DictV([("k", V.sym(a.tag + "_k", "int"))]) if n_ < len(o.fields["_atoms"].items) - 1 else DictV()
    bl_ = o.fields.get("_bonds", ListV()).items
    for n_, b in enumerate(bl_):
        b.fields["attrib"] = DictV([("w", V.sym(b.tag + "_w", "int"))]) if n_ < len(bl_) - 1 else DictV()
    V.assume(to_z3(o.fields["mult"], "int") >= 1)
    return o


# ------------------------------------------------------------------------------------------ pickle protocol model
def pickle_rt(I, x, memo=None):
    memo = {} if memo is None else memo
    if id(x) in memo:
        return memo[id(x)]
    memo.setdefault("__alive__", []).append(x)       # like pickle's memo: keeps temporaries alive so that ids are not reused
    if isinstance(x, Obj):
        if x.tag == "weakref":
            raise PyExc(I.make_exc("TypeError", "cannot pickle 'weakref.ReferenceType' object"))
        cls = x.cls
        if cls.builtin:
            raise Unsupported(f"pickle of {cls.name}")
        new = Obj(cls, {}, tag=(x.tag or "") + "'")
        memo[id(x)] = new
        gs, _ = cls.lookup("__getstate__")
        if gs is not None:
            state = I.call(I.bind(gs, x), [], {})
        else:
            state = DictV(list(x.fields.items()))
        state2 = pickle_rt(I, state, memo)
        ss, _ = cls.lookup("__setstate__")
        if ss is not None:
            I.call(I.bind(ss, new), [state2], {})
        else:
            for k, v in zip(state2.keys, state2.vals):
                new.fields[k] = v
        return new
    if isinstance(x, DictV):
        d = DictV()
        memo[id(x)] = d
        for k, v in zip(x.keys, x.vals):
            d.keys.append(pickle_rt(I, k, memo))
            d.vals.append(pickle_rt(I, v, memo))
        return d
    if isinstance(x, ListV):
        l = ListV()
        memo[id(x)] = l
        l.items.extend(pickle_rt(I, y, memo) for y in x.items)
        return l
    if isinstance(x, tuple):
        return tuple(pickle_rt(I, y, memo) for y in x)
    if isinstance(x, NdArr):
        n = NdArr(data=NP._copy(x.data), dtype=x.dtype, tail=x.tail)
        memo[id(x)] = n
        return n
    return x


# ------------------------------------------------------------------------------------------ routes
def ctor_unit(kind):
    def body(V):
        I, st = V.I, V.st
        src = source(V, kind)
        # the source's atoms may also sit in another (non-copying) container, which re-pointed their parent references
        shared = V.choose([False, True], "source-atoms-also-in-another-container")
        if shared:
            V.keep = M.share_atoms(V, src)
        V.witness(lambda ev: {"op": "copy-ctor", "kind": kind, "shared": shared, "signature": f"copy-ctor/{kind}" + ("/shared-atoms" if shared else "")})
        V.cover()
        cls = V.cls(M.CLS[kind])
        I.target = f"{M.CLS[kind]}.__init__"
        try:
            res = I.call(cls, [src], {})
        except PyExc as e:
            V.ensure("copy/constructs", z3.BoolVal(False))
            return
        V.ensure("copy/constructs", z3.BoolVal(True))
        faithful(V, src, res, "copy")
        independent(V, [src], res, "copy")
    return body


for _k in KINDS + ["ConformerEnsemble"]:
    P.unit(f"{M.CLS[_k]}.__init__", name=f"{_k}(x) copy constructor")(ctor_unit(_k))


def pickle_unit(kind):
    def body(V):
        I, st = V.I, V.st
        src = source(V, kind)
        V.witness(lambda ev: {"op": "pickle", "kind": kind, "signature": f"pickle/{kind}"})
        V.cover()
        I.target = f"{M.CLS['Promolecule']}.__getstate__"
        try:
            res = pickle_rt(I, src)
        except PyExc as e:
            V.ensure("pickle/round-trips", z3.BoolVal(False))
            return
        V.ensure("pickle/round-trips", z3.BoolVal(True))
        faithful(V, src, res, "pickle")
        independent(V, [src], res, "pickle")
    return body


for _k in ["Molecule", "Structure", "Promolecule", "ConformerEnsemble"]:
    P.unit(f"{M.CLS['Promolecule']}.__getstate__", name=f"pickle / deepcopy of a {_k}",
           functions=[f"{M.CLS['Promolecule']}.__getstate__", f"{M.CLS['Promolecule']}.__setstate__", f"{M.ATOM}.__getstate__", f"{M.ATOM}.__setstate__",
                      f"{M.BOND}.__getstate__", f"{M.BOND}.__setstate__"])(pickle_unit(_k))


def deepcopy_unit(kind):
    """copy.deepcopy: the class's own __deepcopy__ when it defines one, else the generic state round trip (same protocol model as
    pickle).  A deep copy must not share nested mutable attribute VALUES either (that is what distinguishes it from a copy)."""
    def body(V):
        I, st = V.I, V.st
        src = source(V, kind)
        nested = ListV([V.sym("nested0", "int")])
        src.fields["attrib"] = DictV([("note", Opaque("obj:attr-value")), ("results", nested)])
        anest = ListV([V.sym("anested0", "int")])
        src.fields["_atoms"].items[0].fields["attrib"] = DictV([("k", V.sym("ak", "int")), ("shifts", anest)])
        V.witness(lambda ev: {"op": "deepcopy", "kind": kind, "signature": f"deepcopy/{kind}"})
        V.cover()
        dc, owner = src.cls.lookup("__deepcopy__")
        try:
            if dc is not None and not getattr(owner, "builtin", False):
                I.target = f"{M.CLS[kind]}.__deepcopy__"
                res = I.call(I.bind(dc, src), [DictV()], {})
            else:
                I.target = f"{M.CLS['Promolecule']}.__getstate__"
                res = pickle_rt(I, src)
        except PyExc:
            V.ensure("deepcopy/returns", z3.BoolVal(False))
            return
        V.ensure("deepcopy/returns", z3.BoolVal(True))
        ok = isinstance(res, Obj) and isinstance(res.fields.get("attrib"), DictV) and isinstance(res.fields.get("_atoms"), ListV) and len(res.fields["_atoms"].items) == 3
        V.ensure("deepcopy/shape", z3.BoolVal(bool(ok)))
        if not ok:
            return
        independent(V, [src], res, "deepcopy")
        ra = res.fields["attrib"]
        r_n = ra.vals[ra.keys.index("results")] if "results" in ra.keys else None
        aa = res.fields["_atoms"].items[0].fields.get("attrib")
        a_n = aa.vals[aa.keys.index("shifts")] if isinstance(aa, DictV) and "shifts" in aa.keys else None
        V.ensure("deepcopy/nested-attribute-values-are-copied-not-shared",
                 z3.BoolVal(isinstance(r_n, ListV) and r_n is not nested and isinstance(a_n, ListV) and a_n is not anest))
        if isinstance(r_n, ListV) and isinstance(a_n, ListV):
            V.ensure("deepcopy/nested-attribute-values-equal", I.and_(I.eq(r_n.items[0], nested.items[0]) if len(r_n.items) == 1 else False,
                                                                      I.eq(a_n.items[0], anest.items[0]) if len(a_n.items) == 1 else False))
    return body


for _k in ["Molecule", "Structure", "ConformerEnsemble"]:
    P.unit(f"{M.CLS[_k]}.__init__", name=f"copy.deepcopy of a {_k}: nothing shared, nested attribute values included",
           functions=[f"{M.CLS['Promolecule']}.__getstate__", f"{M.CLS['Promolecule']}.__setstate__"])(deepcopy_unit(_k))


@P.unit(f"{M.CLS['Conformer']}.__init__" if "Conformer" in M.CLS else "molli.chem.ensemble:Conformer.__init__",
        name="pickle / deepcopy of a Conformer (a view of one row of an ensemble): an equal conformer that shares nothing with the source ensemble",
        functions=["molli.chem.ensemble:Conformer.__getstate__", "molli.chem.ensemble:Conformer.__setstate__"])
def _conformer_copy(V):
    I, st = V.I, V.st
    ens = source(V, "ConformerEnsemble")
    i = V.choose([0, 1], "conformer")
    c = I.getitem(ens, i)
    V.witness(lambda ev: {"op": "conformer-copy", "signature": "conformer-copy"})
    V.cover()
    I.target = "molli.chem.ensemble:Conformer.__getstate__"
    try:
        res = pickle_rt(I, c)
    except PyExc as ex:
        V.ensure("conformer/pickle-round-trips", z3.BoolVal(False), raised=repr(getattr(ex.value, "fields", "")))
        return
    V.ensure("conformer/pickle-round-trips", z3.BoolVal(isinstance(res, Obj) and res.cls is c.cls and res is not c))
    if not (isinstance(res, Obj) and res.cls is c.cls):
        return
    try:
        rc, rq = I.getattr_(res, "coords"), I.getattr_(res, "atomic_charges")
        ra, rb = I.getattr_(res, "atoms"), I.getattr_(res, "bonds")
        rn = I.getattr_(res, "name")
    except PyExc:
        V.ensure("conformer/accessors-of-the-copy-work", z3.BoolVal(False))
        return
    V.ensure("conformer/accessors-of-the-copy-work", z3.BoolVal(True))
    sc, sq = I.getattr_(c, "coords"), I.getattr_(c, "atomic_charges")
    V.ensure("conformer/same-coordinates-and-charges", I.and_(tuple(rc.tail) == tuple(sc.tail), *[M._same(I, x, y) for x, y in zip(NP.flat(rc.data), NP.flat(sc.data))],
                                                              *[M._same(I, x, y) for x, y in zip(NP.flat(rq.data), NP.flat(sq.data))]))
    sa = ens.fields["_atoms"].items
    ral = ra.items if isinstance(ra, ListV) else list(I.iterate(ra))
    V.ensure("conformer/same-atoms-by-value-not-by-identity", I.and_(len(ral) == len(sa), *[I.eq(x.fields["element"], y.fields["element"]) for x, y in zip(sa, ral)],
                                                                      z3.BoolVal(all(x is not y for x, y in zip(sa, ral)))))
    V.ensure("conformer/same-name", I.eq(rn, ens.fields["_name"]))
    par = res.fields.get("_parent")
    V.ensure("conformer/copy-belongs-to-its-own-ensemble", z3.BoolVal(isinstance(par, Obj) and par is not ens))
    if isinstance(par, Obj) and par is not ens:
        independent(V, [ens], par, "conformer")


@P.unit(f"{M.ATOM}.evolve", name="Atom.evolve / Bond.evolve", functions=[f"{M.ATOM}.evolve", f"{M.BOND}.evolve"])
def _evolve(V):
    I, st = V.I, V.st
    m = source(V, "Molecule")
    a = m.fields["_atoms"].items[0]
    b = m.fields["_bonds"].items[0]
    V.witness(lambda ev: {"op": "evolve", "signature": "evolve"})
    V.cover()
    a2 = V.method(a, "evolve", [], qual=f"{M.ATOM}.evolve")
    b2 = V.method(b, "evolve", [], qual=f"{M.BOND}.evolve")
    V.ensure("evolve/returns-new-objects", z3.BoolVal(a2.returned and b2.returned and a2.value is not a and b2.value is not b))
    if a2.returned and b2.returned:
        V.ensure("evolve/atom-fields-equal", I.and_(*[I.eq(a.fields[f], a2.value.fields[f]) for f in ("element", "atype", "stereo", "geom", "formal_charge", "formal_spin")]))
        V.ensure("evolve/atom-attrib-dict-not-shared", z3.BoolVal(a2.value.fields["attrib"] is not a.fields["attrib"] and a2.value.fields["attrib"].keys == a.fields["attrib"].keys))
        V.ensure("evolve/bond-attrib-dict-not-shared", z3.BoolVal(b2.value.fields["attrib"] is not b.fields["attrib"] and b2.value.fields["attrib"].keys == b.fields["attrib"].keys))


@P.unit(f"{M.CLS['Structure']}.concatenate", name="concatenate / `|` derive a new structure and leave the sources alone",
        functions=[f"{M.CLS['Structure']}.concatenate", f"{M.CLS['Structure']}.__or__"])
def _concat(V):
    I, st = V.I, V.st
    # the classmethod is inherited: Molecule.concatenate / Molecule(...) | ... go through Molecule.__init__
    kind = V.choose(["Structure", "Molecule"], "class")
    # the operands: two structures; a single part (concatenate(*[x])); or a Conformer (a view of an ensemble row) on the left of `|`
    parts = V.choose(["two", "one", "conformer-left"], "operands")
    b = source(V, kind, "b")
    if parts == "conformer-left":
        ens = M.mk_ens(V, 2, 3, bonds=((0, 1), (1, 2)), name="ea")
        a = I.getitem(ens, 0)
        via = "or"
        fa = None
    else:
        a = source(V, kind, "a")
        via = V.choose(["concatenate", "or"], "route") if parts == "two" else "concatenate"
        fa = footprint(a)
    fb = footprint(b)
    V.witness(lambda ev: {"op": "concatenate", "via": via, "parts": parts, "signature": f"concatenate/{parts}"})
    V.cover()
    cls = V.cls(M.CLS[kind])
    try:
        if via == "concatenate":
            I.target = f"{M.CLS['Structure']}.concatenate"
            res = I.call(I.getattr_(cls, "concatenate"), [a, b] if parts == "two" else [b], {})
        else:
            I.target = f"{M.CLS['Structure']}.__or__"
            res = I.binop(__import__("ast").BitOr(), a, b)
    except PyExc:
        V.ensure("derive/returns", z3.BoolVal(False))
        return
    if parts == "one":
        V.ensure("derive/returns", z3.BoolVal(True))
        V.ensure("derive/all-atoms-and-bonds-of-both", z3.BoolVal(len(res.fields["_atoms"].items) == 3 and len(res.fields["_bonds"].items) == 2))
        independent(V, [b], res, "derive")
        return
    if parts == "conformer-left":
        V.ensure("derive/returns", z3.BoolVal(True))
        V.ensure("derive/all-atoms-and-bonds-of-both", z3.BoolVal(len(res.fields["_atoms"].items) == 6 and len(res.fields["_bonds"].items) == 4))
        independent(V, [b, ens], res, "derive")
        return
    V.ensure("derive/returns", z3.BoolVal(True))
    ra = res.fields["_atoms"].items
    V.ensure("derive/all-atoms-and-bonds-of-both", z3.BoolVal(len(ra) == 6 and len(res.fields["_bonds"].items) == 4))
    independent(V, [a, b], res, "derive")
    okp = True
    for j, y in enumerate(ra):
        try:
            okp = okp and I.getattr_(y, "parent") is res and I.getattr_(y, "idx") == j
        except PyExc:
            okp = False
    for y in res.fields["_bonds"].items:
        try:
            okp = okp and I.getattr_(y, "parent") is res
        except PyExc:
            okp = False
    V.ensure("derive/atoms-and-bonds-of-the-product-belong-to-it", z3.BoolVal(bool(okp)))
    V.ensure("derive/sources-keep-their-atoms-bonds-and-parents",
             z3.BoolVal(set(footprint(a)) == set(fa) and set(footprint(b)) == set(fb)
                        and all(x.fields["_parent"].fields["ref"] is a for x in a.fields["_atoms"].items)
                        and all(x.fields["_parent"].fields["ref"] is b for x in b.fields["_atoms"].items)))
