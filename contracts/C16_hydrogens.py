"""C16 -- adding implicit hydrogens only completes valences.

add_implicit_hydrogens is executed symbolically on a centre atom with 0..3 neighbours (symbolic group 13..16, formal
charge, spin, bond types, coordinates, optional drawing hint).  Count = the statement's formula for every value;
frame = only hydrogens appended, each bonded once to its centre; geometry (reals): bond length, direction away from
the neighbours' centroid, definedness (no division by zero).  mean_plane (SVD) is assumed to return a unit normal;
rotation_matrix_from_vectors is used through its C11 contract.
"""
import z3
from pyvc.spec import *
from pyvc.values import *
from pyvc.ops import to_z3
from pyvc import npmodel as NP
from contracts import mol as M
from contracts import C11_rigid as G

P = Property("C16", "adding implicit hydrogens only completes valences")
P.trust("numpy linear algebra over the reals; molli.data element tables (group, covalent radius) as uninterpreted functions with "
        "positive radii; mean_plane (SVD) returns a unit vector (assumed); C11 contract of rotation_matrix_from_vectors")
P.assume("centre atom with 0..3 neighbours (bounded); bond types restricted to Single/Double/Triple/Aromatic/Dummy in the count unit; "
         "non-degenerate geometry = the neighbours' centroid differs from the centre (and 2 neighbours are not collinear with it)")
P.not_decided.append("bond length of the two hydrogens placed on a centre with 1 or 3 neighbours (nested normalisations: identity not discharged within budget)")
P.not_decided.append("'pointing away from the centroid' is proved for one added hydrogen (1-3 neighbours); for 2 or 3 added hydrogens it is only checked numerically by the replay harness")
ST = M.CLS["Structure"]
Z = G.Z
TOL = 1e-3


def order_spec(bt):
    """Bond.order as a z3 term over the (restricted) bond type value"""
    return z3.If(bt == 20, z3.RealVal("3/2"), z3.If(z3.Or(bt == 10, bt == 11, bt == 98, bt == 101), z3.RealVal(0),
                 z3.If(z3.And(bt >= 0, bt <= 6), z3.ToReal(bt), z3.RealVal(1))))


def setup(V, nb, hint, restrict_bt=True, any_group=False, neighbour_types=False):
    I, st = V.I, V.st
    E = V.cls("molli.chem.atom:Element")
    group = z3.Function("element_group", z3.IntSort(), z3.IntSort())
    radius = z3.Function("cov_radius_1", z3.IntSort(), z3.RealSort())
    E.ns["group"] = PropertyV(Builtin("Element.group", lambda i, a, k: SV(group(to_z3(a[0], "int")), "int")))
    E.ns["cov_radius_1"] = PropertyV(Builtin("Element.cov_radius_1", lambda i, a, k: SV(radius(to_z3(a[0], "int")), "real")))
    e_ = z3.Int("e!r")
    st.assume(z3.ForAll([e_], radius(e_) > 0))
    m = M.mk_mol(V, "Molecule", 1 + nb, tuple((0, j + 1) for j in range(nb)), name="m")
    c = m.fields["_atoms"].items[0]
    c.fields["formal_charge"] = V.sym("fc", "int")
    c.fields["formal_spin"] = V.sym("spin", "int")
    V.assume(z3.And(c.fields["formal_charge"].z >= -2, c.fields["formal_charge"].z <= 2, c.fields["formal_spin"].z >= -2, c.fields["formal_spin"].z <= 2))
    g = group(to_z3(c.fields["element"], "int"))
    V.assume(z3.And(g >= 1, g <= 18) if any_group else z3.And(g >= 13, g <= 16))
    if neighbour_types:
        # what the neighbours are (regular atoms, dummies, a coordination centre, an attachment point ...) is not part of the formula:
        # the bonded valence counts the orders of the centre's bonds, whatever is at their other end
        AT = V.cls("molli.chem.atom:AtomType")
        for j, a_ in enumerate(m.fields["_atoms"].items[1:]):
            a_.fields["atype"] = V.sym_enum(f"nb{j}_atype", AT)
    BT = V.cls("molli.chem.bond:BondType")
    bts = []
    for b in m.fields["_bonds"].items:
        bt = V.sym_enum(b.tag + "_bt", BT)
        if restrict_bt:
            allowed = (1, 2, 3, 20, 10) if nb <= 2 else (1, 2, 20)
            V.assume(z3.Or(*[bt.z == v for v in allowed]))
        b.fields["btype"] = bt
        bts.append(bt)
    if hint is not None:
        c.fields["attrib"] = DictV([("__implicit_hydrogens", hint)])
    return m, c, g, bts, radius


def spec_count(g, fc, spin, bts, hint):
    if hint is not None:
        return to_z3(hint, "int")
    ve = g - 10                                   # VALENCE_ELECTRONS: 13->3 ... 16->6
    electrons = ve - fc - z3.If(spin >= 0, spin, -spin)
    bv = sum([order_spec(bt.z) for bt in bts], z3.RealVal(0))
    fl = z3.ToInt(bv)
    ceil = z3.If(z3.ToReal(fl) == bv, fl, fl + 1)
    d = 4 - electrons
    raw = 4 - z3.If(d >= 0, d, -d) - ceil
    return z3.If(raw > 0, raw, 0)


@P.unit(f"{ST}.add_implicit_hydrogens", name="count and frame: exactly the stated number of hydrogens, nothing else changes")
def _count(V):
    I, st = V.I, V.st
    nb = V.choose([0, 1, 2, 3], "neighbours")
    hinted = V.choose([False, True], "hint")
    hint = V.sym("hint", "int") if hinted else None
    if hinted:
        V.assume(z3.And(hint.z >= 0, hint.z <= 4))
    m, c, g, bts, radius = setup(V, nb, hint, neighbour_types=True)
    I.stubs["molli.math.plane:mean_plane"] = lambda I_, fv, a, k: NP.mk([st.fresh_sv(f"mp{i}", "real") for i in range(3)])
    I.applies["molli.math.rotation:rotation_matrix_from_vectors"] = G.rot_contract
    before = M.snapshot(m)
    fc, spin = c.fields["formal_charge"].z, c.fields["formal_spin"].z
    n_spec = spec_count(g, fc, spin, bts, hint)
    V.witness(lambda ev: {"op": "count", "neighbours": nb, "neighbour_types": [ev(a_.fields["atype"]) for a_ in m.fields["_atoms"].items[1:]], "hint": ev(hint) if hinted else None, "group": ev(g), "fc": ev(fc), "spin": ev(spin),
                          "btypes": [ev(b.z) for b in bts], "expected": ev(n_spec), "signature": "hydrogen-count"})
    V.cover()
    # the reference polyhedron is a module-level table shared by every call in the process
    TET = V.glob("molli.math.polyhedra:TETRAHEDRON")
    tet0 = NP._copy(TET.data)
    out = V.method(m, "add_implicit_hydrogens", [c], qual=f"{ST}.add_implicit_hydrogens")
    V.ensure("frame/module-level-reference-tetrahedron-untouched",
             I.and_(NP.shape_of(TET.data) == NP.shape_of(tet0), *[M._same(I, x, y) for x, y in zip(NP.flat(TET.data), NP.flat(tet0))]))
    V.ensure("post/returns", z3.BoolVal(out.returned))
    if not out.returned:
        return
    al = m.fields["_atoms"].items
    added = al[len(before["atoms"]):]
    V.ensure("post/count-is-the-hint-or-the-valence-formula", n_spec == len(added))
    V.ensure("frame/existing-atoms-and-bonds-untouched", z3.BoolVal(al[:len(before["atoms"])] == before["atoms"]
                                                                    and m.fields["_bonds"].items[:len(before["bonds"])] == before["bonds"]))
    H = I.getattr_(V.cls("molli.chem.atom:Element"), "H")
    V.ensure("post/only-hydrogens-added", z3.BoolVal(all(isinstance(a, Obj) and a.fields.get("element") == H for a in added)))
    newb = m.fields["_bonds"].items[len(before["bonds"]):]
    ok_b = len(newb) == len(added) and all(sum(1 for b in newb if (b.fields["a1"] is c and b.fields["a2"] is h) or (b.fields["a2"] is c and b.fields["a1"] is h)) == 1 for h in added)
    V.ensure("post/each-new-hydrogen-bonded-once-to-its-centre", z3.BoolVal(ok_b))
    ca = m.fields["_coords"]
    V.ensure("frame/existing-coordinates-and-charges-untouched",
             z3.BoolVal(isinstance(ca, NdArr) and ca.data is not None and len(ca.data) == len(al)) if not (isinstance(ca, NdArr) and ca.data is not None and len(ca.data) == len(al))
             else I.and_(*[M._same(I, x, y) for r1, r2 in zip(ca.data, before["coords"]) for x, y in zip(r1, r2)],
                         *[M._same(I, x, y) for x, y in zip(m.fields["_atomic_charges"].data, before["charges"])]))
    V.ensure("post/one-row-and-one-numeric-charge-per-atom",
             z3.BoolVal(ca.tail == (len(al), 3) and m.fields["_atomic_charges"].tail == (len(al),) and all(x is not None for x in m.fields["_atomic_charges"].data)))


@P.unit(f"{ST}.add_implicit_hydrogens", name="default atom selection: called without atoms, only hint-free atoms of groups 13-16 receive hydrogens (by the formula), every other atom none")
def _default_selection(V):
    I, st = V.I, V.st
    nb = V.choose([0, 1], "neighbours")
    m, c, g, bts, radius = setup(V, nb, None, any_group=True)
    I.stubs["molli.math.plane:mean_plane"] = lambda I_, fv, a, k: NP.mk([st.fresh_sv(f"mp{i}", "real") for i in range(3)])
    I.applies["molli.math.rotation:rotation_matrix_from_vectors"] = G.rot_contract
    # the neighbour (if any) is an atom that takes no hydrogens itself: a transition metal
    group = z3.Function("element_group", z3.IntSort(), z3.IntSort())
    for a_ in m.fields["_atoms"].items[1:]:
        V.assume(group(to_z3(a_.fields["element"], "int")) == 8)
    before = M.snapshot(m)
    fc, spin = c.fields["formal_charge"].z, c.fields["formal_spin"].z
    n_spec = z3.If(z3.And(g >= 13, g <= 16), spec_count(g, fc, spin, bts, None), 0)
    V.witness(lambda ev: {"op": "default-selection", "neighbours": nb, "group": ev(g), "fc": ev(fc), "spin": ev(spin), "btypes": [ev(b.z) for b in bts],
                          "expected": ev(n_spec), "signature": "default-selection"})
    V.cover()
    out = V.method(m, "add_implicit_hydrogens", [], qual=f"{ST}.add_implicit_hydrogens")
    V.ensure("selection/returns", z3.BoolVal(out.returned))
    if not out.returned:
        return
    added = m.fields["_atoms"].items[len(before["atoms"]):]
    V.ensure("selection/only-group-13-to-16-atoms-receive-hydrogens-and-those-by-the-formula", n_spec == len(added))


@P.lemma("second call adds nothing on hint-free molecules")
def _idempotent(V):
    """after adding h = max(0, 4 - |4 - e| - ceil(bv)) single bonds the formula gives 0 (pure arithmetic over the spec function)"""
    st = V.st
    e, bvn, bvd = st.fresh("e", z3.IntSort()), st.fresh("bv_num", z3.IntSort()), st.fresh("bv_den", z3.IntSort())
    bv = st.fresh("bv", z3.RealSort())
    V.assume(bv >= 0)

    def count(bv_):
        fl = z3.ToInt(bv_)
        ceil = z3.If(z3.ToReal(fl) == bv_, fl, fl + 1)
        d = 4 - e
        raw = 4 - z3.If(d >= 0, d, -d) - ceil
        return z3.If(raw > 0, raw, 0)
    h = count(bv)
    V.cover()
    V.ensure("lemma/count-after-adding-the-count-is-zero", count(bv + z3.ToReal(h)) == 0)


def find_norm(I, vec):
    """the norm symbol the executed code introduced for a vector equal (as polynomials) to `vec`"""
    import sympy
    from pyvc import sympy_backend as SB
    syms = {}
    want = sympy.expand(sum(SB.to_sympy(x, syms) ** 2 for x in vec))
    for k, v in list(I.st.ghost.items()):
        if isinstance(k, tuple) and k[0] == "sqrt" and isinstance(v, tuple):
            try:
                if sympy.expand(SB.to_sympy(v[1], syms) - want) == 0:
                    return v[0].z
            except SB.NotPolynomial:
                continue
    return None


@P.unit(f"{ST}.add_implicit_hydrogens", name="geometry: bond length, away from the neighbours, defined coordinates")
def _geometry(V):
    I, st = V.I, V.st
    nb = V.choose([1, 2, 3], "neighbours")
    hint = V.choose([1, 2, 3], "hydrogens")
    m, c, g, bts, radius = setup(V, nb, hint, restrict_bt=True)
    mp = [st.fresh_sv(f"mp{i}", "real") for i in range(3)]
    V.assume(sum(x.z * x.z for x in mp) == 1)
    I.stubs["molli.math.plane:mean_plane"] = lambda I_, fv, a, k: NP.mk(list(mp))
    I.applies["molli.math.rotation:rotation_matrix_from_vectors"] = G.rot_contract
    coords = [list(r) for r in m.fields["_coords"].data]
    a = coords[0]
    cent = [sum(Z(coords[j][k]) for j in range(1, nb + 1)) / nb for k in range(3)]
    avg = [cent[k] - Z(a[k]) for k in range(3)]
    nonplanar = None
    if nb == 3 and hint == 1:
        # the centre does not lie in the plane of its three neighbours (the code's own threshold), on either side
        al_spec = sum(mp[k].z * avg[k] for k in range(3))
        side = V.choose(["above", "below"], "side")
        nonplanar = al_spec > z3.RealVal("0.05") if side == "above" else al_spec < z3.RealVal("-0.05")
        V.assume(nonplanar)
    E = V.cls("molli.chem.atom:Element")
    L = radius(to_z3(c.fields["element"], "int")) + radius(z3.IntVal(1))
    V.witness(lambda ev: {"op": "geometry", "neighbours": nb, "hydrogens": hint, "signature": f"geometry/{nb}/{hint}"})
    V.cover()
    out = V.method(m, "add_implicit_hydrogens", [c], qual=f"{ST}.add_implicit_hydrogens")
    V.ensure("post/returns", z3.BoolVal(out.returned))
    if not out.returned:
        return
    div0 = any(e[0] in ("np-division-by-zero", "np-mean-of-empty", "np-sqrt-negative") for e in st.trace)
    # definedness: a division by zero may only happen in a degenerate geometry (centroid of the neighbours on the centre)
    n_avg = NP.sqrt_sumsq(I, [SV(x, "real") for x in avg])
    if div0:
        degenerate = [Z(n_avg) == 0]
        if nb == 2 and hint == 2:
            r1 = [Z(coords[1][k]) - Z(a[k]) for k in range(3)]
            r2 = [Z(coords[2][k]) - Z(a[k]) for k in range(3)]
            cr = [r1[1] * r2[2] - r1[2] * r2[1], r1[2] * r2[0] - r1[0] * r2[2], r1[0] * r2[1] - r1[1] * r2[0]]
            degenerate.append(z3.And(*[c_ == 0 for c_ in cr]))          # the two neighbours are collinear with the centre
        V.ensure("post/undefined-only-for-degenerate-geometry", z3.Or(*degenerate) if nb != 3 else z3.BoolVal(True))
        return
    newc = m.fields["_coords"].data[1 + nb:]
    V.ensure("post/hydrogen-count", z3.BoolVal(len(newc) == hint))
    if len(newc) != hint:
        return
    # the placement constants are decimal approximations of unit vectors: |h-a|^2 = c * L^2 exactly, with c within tolerance of 1
    from fractions import Fraction as Fr
    tet = I.module_global("molli.math.polyhedra", "TETRAHEDRON").data
    consts = {1: [Fr(1)], 2: [Fr("0.5736") ** 2 + Fr("0.8192") ** 2] * 2,
              3: [sum(Fr(repr(x)) ** 2 for x in tet[j]) for j in (1, 2, 3)]}[hint]
    if hint == 1:
        # pointing away from the neighbours: (h - a) . (centroid - a) < 0.  Two steps: (i) sympy: h - a = -L * u/|u| with u the
        # direction the statement prescribes (centroid - a; for three neighbours the plane normal on the neighbours' side, the
        # centre not lying in their plane: |normal . (centroid - a)| > 0.05, the code's own threshold); (ii) z3, from (i) only.
        from pyvc import sympy_backend as SB
        hrow = newc[0]
        if nb == 3:
            al = sum(mp[k].z * avg[k] for k in range(3))
            u = [mp[k].z * al for k in range(3)]
        else:
            u = list(avg)
        n_u = find_norm(I, u)
        if n_u is None and nb == 3:
            # a path on which the code did not scale the normal by its alignment: only possible for a planar centre
            V.ensure("post/direction:normal-is-oriented-by-its-alignment-for-a-non-planar-centre", z3.BoolVal(False))
        elif n_u is None:
            V.ensure("post/direction:the-code-normalises-the-prescribed-direction", z3.BoolVal(False))
        else:
            step1 = [(Z(hrow[k]) - Z(a[k])) * n_u == -L * u[k] for k in range(3)]
            G.eqs("post/direction:h-a=-L*u/|u|", V, [(f.arg(0), f.arg(1)) for f in step1])
            dotp = sum((Z(hrow[k]) - Z(a[k])) * avg[k] for k in range(3))
            # (ii) (h - a).(centroid - a) = -L * |u|  (polynomial identity, sympy) ...
            hy = None
            if nb == 3:
                usq = sum(x * x for x in u)
                hy = [n_u * n_u == usq, sum(x.z * x.z for x in mp) == 1]
            G.eqs("post/direction:(h-a).(centroid-a)=-L*|u|", V, [(dotp, -L * n_u)], hyps=hy)
            # ... (iii) hence negative, because L > 0 (covalent radii) and |u| > 0 (non-degenerate geometry): with D, Lc, Nc standing for the
            # three terms of (ii)
            D, Lc, Nc = z3.Reals("D_abs L_abs N_abs")
            V.ensure("post/hydrogen-points-away-from-the-centroid-of-the-neighbours", D < 0, only_hyps=[D == -Lc * Nc, Lc > 0, Nc > 0])
            V.ensure("post/direction:|u|>0-for-non-degenerate-geometry", z3.Implies(Z(n_avg) > 0, n_u > 0) if nb != 3 else n_u > 0,
                     only_hyps=([n_u >= 0, n_u * n_u == sum(x * x for x in u), sum(x.z * x.z for x in mp) == 1, nonplanar] if nb == 3
                                else [n_u >= 0, Z(n_avg) >= 0, n_u * n_u == sum(x * x for x in avg), Z(n_avg) * Z(n_avg) == sum(x * x for x in avg)]))
    if hint == 2 and nb != 2:
        # two hydrogens on a centre with 1 or 3 neighbours: the identity involves two nested normalisations and did not
        # discharge within budget with sympy -> recorded as not decided (P.not_decided), covered numerically by the replay harness
        return
    for j, hrow in enumerate(newc):
        dvec = [Z(hrow[k]) - Z(a[k]) for k in range(3)]
        d2 = sum(x * x for x in dvec)
        G.eqs(f"post/bond-length-is-the-sum-of-covalent-radii/{j}", V, [(d2, z3.RealVal(str(consts[j])) * L * L)],
              hyps=st.ghost.get("R_orth") if hint == 3 else None)
    V.ensure("post/length-constants-within-tolerance-of-one", z3.BoolVal(all(abs(float(c) - 1) < 2 * TOL for c in consts)))


# the placement proof uses rotation_matrix_from_vectors through its C11 contract: that contract is part of this claim
P.include(G.P, ["rotation_matrix_from_vectors[general branch]"], why="used modularly when placing hydrogens")


# ------------------------------------------------------------------------------------------ mean_plane (assumed elsewhere: verified here)
@P.unit("molli.math.plane:mean_plane", name="mean_plane: the singular vector of the centred point set that belongs to the smallest singular value")
def _mean_plane(V):
    """numpy.linalg.svd is assumed (A = U diag(S) Vh, singular values in descending order).  For the 3 x N matrix of centred points
    the plane normal is the LAST COLUMN of U; for the N x 3 matrix it is the LAST ROW of Vh.  Either call shape is accepted,
    anything else (a row of U, a column of Vh, uncentred points) is not the normal."""
    I, st = V.I, V.st
    n = V.choose([3, 4], "points")
    pts = [[V.sym(f"p{i}{k}", "real") for k in range(3)] for i in range(n)]
    calls = []

    def svd(I_, a, k):
        A = NP.asarray(I_, a[0])
        r, c = A.tail
        U = NP.mk([[st.fresh_sv(f"U{i}{j}", "real") for j in range(r)] for i in range(r)], "float")
        S = NP.mk([st.fresh_sv(f"S{i}", "real") for i in range(min(r, c))], "float")
        Vh = NP.mk([[st.fresh_sv(f"Vh{i}{j}", "real") for j in range(c)] for i in range(c)], "float")
        calls.append((A, U, S, Vh, dict(k)))
        return (U, S, Vh)
    st.ghost[("np", "linalg.svd")] = svd
    V.witness(lambda ev: {"op": "mean_plane", "signature": "mean_plane"})
    V.cover()
    given = V.choose(["float-array", "nested-list"], "argument")
    arg = NP.mk([list(p) for p in pts], "float") if given == "float-array" else ListV([ListV(list(p)) for p in pts])
    out = V.call("molli.math.plane:mean_plane", [arg])
    ok = out.returned and len(calls) == 1 and isinstance(out.value, NdArr) and tuple(out.value.tail) == (3,)
    V.ensure("plane/one-decomposition-one-3-vector", z3.BoolVal(bool(ok)))
    if not ok:
        return
    A, U, S, Vh, kw = calls[0]
    cen = [sum(to_z3(pts[i][k], "real") for i in range(n)) / n for k in range(3)]
    if tuple(A.tail) == (3, n):
        centred = z3.And(*[to_z3(A.data[k][i], "real") == to_z3(pts[i][k], "real") - cen[k] for i in range(n) for k in range(3)])
        normal = [U.data[k][2] for k in range(3)]              # last column of U
    elif tuple(A.tail) == (n, 3):
        centred = z3.And(*[to_z3(A.data[i][k], "real") == to_z3(pts[i][k], "real") - cen[k] for i in range(n) for k in range(3)])
        normal = [Vh.data[2][k] for k in range(3)]             # last row of Vh
    else:
        centred, normal = z3.BoolVal(False), None
    V.ensure("plane/decomposes-the-centred-points", centred)
    V.ensure("plane/returns-the-singular-vector-of-the-smallest-singular-value",
             z3.BoolVal(False) if normal is None else z3.And(*[to_z3(out.value.data[k], "real") == to_z3(normal[k], "real") for k in range(3)]))
    # the caller's array is read, never written (callers go on using it, e.g. for the centroid of the same neighbours)
    now = arg.data if given == "float-array" else [list(r.items) for r in arg.items]
    V.ensure("plane/input-points-not-modified", z3.And(*[to_z3(now[i][k], "real") == to_z3(pts[i][k], "real") for i in range(n) for k in range(3)]))


# new hydrogens are attached with connect/append_bond: the C05 contract of append_bond is part of this claim
from contracts import C05_alignment as C05
P.include(C05.P, ["append_bond"], why="hydrogens are bonded through it; it must not adopt atoms the structure already has")

# the hydrogen count uses the bonded valence, i.e. Bond.order of every bond at the centre: that table is part of this claim
from contracts import C15_graph as C15
P.include(C15.P, ["Bond.order: the order of every bond type"], why="valence used up by the bonds of the centre")


# ------------------------------------------------------------------------------------------ bounded stand-in (real code, CPython)
P.bounded_in_quick = True       # ~2 s: also runs in the quick tier (reported as bounded, never as proved)


@P.bounded_standin("hydrogen placement on C / N / O centres with 0-3 neighbours, one call after another in one process (real code under CPython)",
                   "3 centres x (4 neighbour counts x 2 orientations x mirror + 8 exactly axis-aligned single neighbours); checks count, finite coordinates, "
                   "X-H distance = sum of covalent radii (1e-3), every new H away from the neighbours' centroid, frame, idempotence")
def _bounded(seed):
    import subprocess, json, os
    here = os.path.dirname(os.path.dirname(os.path.abspath(__file__)))
    r = subprocess.run(["/venv/bin/python", os.path.join(here, "replay", "C16.py"), "--bounded", str(seed)], capture_output=True, text=True, timeout=3000,
                       env={**os.environ, "PYTHONPATH": os.environ.get("PYVC_REPO", "/repo")})
    try:
        return json.loads(r.stdout.strip().splitlines()[-1])
    except Exception:
        return {"error": (r.stdout + r.stderr)[-500:]}
