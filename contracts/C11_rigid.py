"""C11 -- geometric operations are rigid motions with the documented effect.

Floats are treated as reals.  Polynomial identities (orthogonality, determinant, mapping, distance and
signed-volume preservation, dihedral target) are discharged by sympy as ideal membership modulo the
defining equations of the norm / sine / cosine symbols; branch logic by z3.
"""
import z3
from pyvc.spec import *
from pyvc.values import *
from pyvc.ops import to_z3
from pyvc import npmodel as NP
from contracts import mol as M

P = Property("C11", "geometric operations are rigid motions")
P.trust("numpy: dot/cross/outer/norm/eye/broadcasting over the reals; math.sin/cos as reals with s^2 + c^2 = 1")
P.assume("floats are reals (no rounding); norms are the non-negative roots of the sum of squares")
P.not_decided += ["alignment (align_to_ref_coords) returns the achieved RMSD / pose independence: caller-supplied SVD routine, not decidable here",
                  "behaviour within 1e-12 of exactly opposite vectors (IEEE rounding); the antiparallel branch is covered only as a composition of two general-branch rotations"]
ROT = "molli.math.rotation"


def vec(V, name):
    return ListV([V.sym(f"{name}{i}", "real") for i in range(3)])


def Z(x):
    if isinstance(x, z3.ExprRef):
        return z3.ToReal(x) if x.sort() == z3.IntSort() else x
    return to_z3(x, "real")


def eqs(label, V, pairs):
    V.ensure(label, z3.And(*[Z(a) == Z(b) for a, b in pairs]), backend="sympy")


def det3(m):
    a, b, c = m
    return (Z(a[0]) * (Z(b[1]) * Z(c[2]) - Z(b[2]) * Z(c[1])) - Z(a[1]) * (Z(b[0]) * Z(c[2]) - Z(b[2]) * Z(c[0]))
            + Z(a[2]) * (Z(b[0]) * Z(c[1]) - Z(b[1]) * Z(c[0])))


def matT_mul(m):
    """entries of m @ m.T"""
    return [[sum(Z(m[i][k]) * Z(m[j][k]) for k in range(3)) for j in range(3)] for i in range(3)]


def assume_rotation(V, R):
    """R is a proper rotation: R R^T = I, det R = 1 (polynomial hypotheses -> ideal generators)"""
    mm = matT_mul(R)
    for i in range(3):
        for j in range(i, 3):
            V.assume(mm[i][j] == (1 if i == j else 0))
    V.assume(det3(R) == 1)


@P.unit(f"{ROT}:rotation_matrix_from_vectors", name="rotation_matrix_from_vectors[general branch]")
def _from_vectors(V):
    I, st = V.I, V.st
    v1, v2 = vec(V, "a"), vec(V, "b")

    def rand(I_, a, k):
        st.event("hidden-state", "np.random.rand")
        raise PathEnd("antiparallel branch (reads np.random): not covered by this unit")
    st.ghost[("np", "random.rand")] = rand
    V.cover()
    out = V.call(f"{ROT}:rotation_matrix_from_vectors", [v1, v2])
    general = not any(e[0] == "hidden-state" for e in st.trace)
    if not out.returned:
        V.ensure("post/raises-only-for-a-zero-vector", z3.BoolVal(any(e[0] == "np-division-by-zero" for e in st.trace)) if False else z3.BoolVal(False))
        return
    if any(e[0] == "np-division-by-zero" for e in st.trace):
        return      # zero-length input: outside the precondition (a direction is undefined)
    if not general:
        return      # antiparallel branch: separate unit
    R = out.value.data
    n1 = NP.sqrt_sumsq(I, v1.items)
    n2 = NP.sqrt_sumsq(I, v2.items)
    # v1/|v1| @ R == v2/|v2|   (row convention of the docstring and of every caller)
    lhs = [sum(Z(v1.items[k]) / Z(n1) * Z(R[k][j]) for k in range(3)) for j in range(3)]
    eqs("post/maps-direction-of-v1-to-direction-of-v2", V, [(lhs[j], Z(v2.items[j]) / Z(n2)) for j in range(3)])
    mm = matT_mul(R)
    eqs("post/orthogonal", V, [(mm[i][j], z3.RealVal(1 if i == j else 0)) for i in range(3) for j in range(i, 3)])
    eqs("post/proper:det=+1", V, [(det3(R), z3.RealVal(1))])


@P.unit(f"{ROT}:rotation_matrix_from_axis", name="rotation_matrix_from_axis")
def _from_axis(V):
    I, st = V.I, V.st
    ax = vec(V, "u")
    ang = V.sym("theta", "real")
    V.cover()
    out = V.call(f"{ROT}:rotation_matrix_from_axis", [ax, ang])
    V.ensure("post/returns", z3.BoolVal(out.returned))
    if not out.returned or any(e[0] == "np-division-by-zero" for e in st.trace):
        return
    R = out.value.data
    s, c = NP.trig(I, "sin", ang), NP.trig(I, "cos", ang)
    n = NP.sqrt_sumsq(I, ax.items)
    mm = matT_mul(R)
    eqs("post/orthogonal", V, [(mm[i][j], z3.RealVal(1 if i == j else 0)) for i in range(3) for j in range(i, 3)])
    eqs("post/proper:det=+1", V, [(det3(R), z3.RealVal(1))])
    eqs("post/axis-is-fixed", V, [(sum(Z(R[i][k]) * Z(ax.items[k]) for k in range(3)), Z(ax.items[i])) for i in range(3)])
    eqs("post/angle:trace=1+2cos", V, [(Z(R[0][0]) + Z(R[1][1]) + Z(R[2][2]), 1 + 2 * Z(c))])
    # sense of rotation (column convention, right-handed): the antisymmetric part is sin(theta) * [u]_x
    u = [Z(x) / Z(n) for x in ax.items]
    eqs("post/sense:antisymmetric-part-is-sin*[u]x", V, [(Z(R[2][1]) - Z(R[1][2]), 2 * Z(s) * u[0]),
                                                         (Z(R[0][2]) - Z(R[2][0]), 2 * Z(s) * u[1]),
                                                         (Z(R[1][0]) - Z(R[0][1]), 2 * Z(s) * u[2])])


def d2(p, q):
    return sum((Z(p[k]) - Z(q[k])) * (Z(p[k]) - Z(q[k])) for k in range(3))


def svol(p, q, r, s):
    return det3([[Z(p[k]) - Z(s[k]) for k in range(3)], [Z(q[k]) - Z(s[k]) for k in range(3)], [Z(r[k]) - Z(s[k]) for k in range(3)]])


@P.unit(f"{M.CLS['CartesianGeometry']}.transform", name="translate/transform keep distances and handedness",
        functions=[f"{M.CLS['CartesianGeometry']}.translate", f"{M.CLS['CartesianGeometry']}.transform"])
def _rigid(V):
    I, st = V.I, V.st
    m = M.mk_mol(V, "Molecule", 4, ((0, 1), (1, 2), (2, 3)))
    before = [list(r) for r in m.fields["_coords"].data]
    op = V.choose(["translate", "transform"], "op")
    V.cover()
    if op == "translate":
        t = vec(V, "t")
        out = V.method(m, "translate", [t], qual=f"{M.CLS['CartesianGeometry']}.translate")
        V.ensure("post/returns", z3.BoolVal(out.returned))
        after = m.fields["_coords"].data
        V.ensure("post/every-atom-moved-by-the-vector", z3.And(*[Z(after[i][k]) == Z(before[i][k]) + Z(t.items[k]) for i in range(4) for k in range(3)]))
    else:
        R = [[V.sym(f"r{i}{j}", "real") for j in range(3)] for i in range(3)]
        assume_rotation(V, R)
        out = V.method(m, "transform", [NP.mk(R)], qual=f"{M.CLS['CartesianGeometry']}.transform")
        V.ensure("post/returns", z3.BoolVal(out.returned))
        after = m.fields["_coords"].data
    if out.returned:
        eqs("post/pairwise-distances-unchanged", V, [(d2(after[i], after[j]), d2(before[i], before[j])) for i in range(4) for j in range(i + 1, 4)])
        eqs("post/handedness-unchanged:signed-volume", V, [(svol(*after), svol(*before))])
        V.ensure("frame/shape-atoms-charges-untouched", z3.BoolVal(m.fields["_coords"].tail == (4, 3)))


@P.unit(f"{M.CLS['Structure']}.rotate_dihedral", name="rotate_dihedral reaches the target and moves only one side",
        functions=[f"{M.CLS['Structure']}.rotate_dihedral", f"{M.CLS['CartesianGeometry']}.dihedral", "molli.chem.structure:Substructure.coords"])
def _dihedral(V):
    I, st = V.I, V.st
    m = M.mk_mol(V, "Molecule", 4, ((0, 1), (1, 2), (2, 3)))
    before = [list(r) for r in m.fields["_coords"].data]
    target = V.sym("target", "real")
    atoms = tuple(m.fields["_atoms"].items)
    recorded = {}

    def arctan2(I_, a, k):
        recorded.setdefault("args", []).append((a[0], a[1]))
        return st.fresh_sv("dihedral", "real")
    st.ghost[("np", "arctan2")] = arctan2
    V.cover()
    out = V.method(m, "rotate_dihedral", [atoms, target], qual=f"{M.CLS['Structure']}.rotate_dihedral")
    V.ensure("post/returns", z3.BoolVal(out.returned))
    if not out.returned or any(e[0] == "np-division-by-zero" for e in st.trace):
        return
    after = m.fields["_coords"].data
    V.ensure("frame/atoms-on-the-fixed-side-do-not-move", z3.And(*[Z(after[i][k]) == Z(before[i][k]) for i in (0, 1) for k in range(3)]))
    # the moved side is rotated about the axis through atoms[1] by the matrix of rotation_matrix_from_axis(ax, target - old)
    # in the column convention proved for that function: after = origin + R (before - origin)
    ang_terms = [v for k, v in st.ghost.items() if isinstance(k, tuple) and k[0] == "trig"]
    V.ensure("post/uses-one-rotation-angle", z3.BoolVal(len(ang_terms) == 1))
    if len(ang_terms) != 1:
        return
    s_, c_, angz = ang_terms[0]
    (y0, x0) = recorded["args"][0]
    V.ensure("post/rotation-angle-is-target-minus-current-dihedral", angz == Z(target) - Z(SV(z3.Real("dihedral"), "real")))
    ax = [Z(before[2][k]) - Z(before[1][k]) for k in range(3)]
    n = NP.sqrt_sumsq(I, [SV(a, "real") for a in ax])
    u = [a / Z(n) for a in ax]
    W = [[0, -u[2], u[1]], [u[2], 0, -u[0]], [-u[1], u[0], 0]]
    WW = [[sum(W[i][k] * W[k][j] for k in range(3)) for j in range(3)] for i in range(3)]
    R = [[(1 if i == j else 0) + Z(s_) * W[i][j] + (1 - Z(c_)) * WW[i][j] for j in range(3)] for i in range(3)]
    o = [Z(before[1][k]) for k in range(3)]
    pairs = []
    for i in (2, 3):
        for r in range(3):
            pairs.append((Z(after[i][r]), o[r] + sum(R[r][k] * (Z(before[i][k]) - o[k]) for k in range(3))))
    eqs("post/moved-side-is-rotated-right-handed-about-the-central-bond-by-the-angle", V, pairs)


@P.unit(f"{M.CLS['CartesianGeometry']}.dihedral", name="lemma: a right-handed rotation of the far side by phi adds phi to dihedral()")
def _dihedral_lemma(V):
    """the real dihedral() formula, evaluated in a frame where the central bond is the +z axis (dihedral angles are
    invariant under rigid motions -- assumed, textbook), before and after rotating atom 4 about +z by phi"""
    I, st = V.I, V.st
    m = M.mk_mol(V, "Molecule", 4, ((0, 1), (1, 2), (2, 3)))
    p = [V.sym(f"p{k}", "real") for k in range(3)]
    q = [V.sym(f"q{k}", "real") for k in range(3)]
    L = V.sym("L", "real")
    V.assume(L.z > 0)
    s_, c_ = V.sym("s", "real"), V.sym("c", "real")
    V.assume(s_.z * s_.z + c_.z * c_.z == 1)
    rec = []
    st.ghost[("np", "arctan2")] = lambda I_, a, k: rec.append((a[0], a[1])) or st.fresh_sv("d", "real")
    atoms = list(m.fields["_atoms"].items)
    V.cover()
    m.fields["_coords"] = NP.mk([p, [0.0, 0.0, 0.0], [0.0, 0.0, L], q])
    V.method(m, "dihedral", atoms, qual=f"{M.CLS['CartesianGeometry']}.dihedral")
    q2 = [SV(q[0].z * c_.z - q[1].z * s_.z, "real"), SV(q[0].z * s_.z + q[1].z * c_.z, "real"), q[2]]
    m.fields["_coords"] = NP.mk([p, [0.0, 0.0, 0.0], [0.0, 0.0, L], q2])
    V.method(m, "dihedral", atoms)
    V.ensure("lemma/dihedral-evaluated-twice", z3.BoolVal(len(rec) == 2))
    if len(rec) == 2:
        (y0, x0), (y1, x1) = rec
        eqs("lemma/(x,y)-of-the-dihedral-is-rotated-by-phi", V, [(Z(x1), Z(x0) * c_.z - Z(y0) * s_.z), (Z(y1), Z(y0) * c_.z + Z(x0) * s_.z)])


@P.unit(f"{M.CLS['ConformerEnsemble']}.center_at_atom", name="ensemble translate/rotate/center_at_atom are rigid per conformer",
        functions=[f"{M.CLS['ConformerEnsemble']}.center_at_atom", f"{M.CLS['ConformerEnsemble']}.translate", f"{M.CLS['ConformerEnsemble']}.rotate"])
def _ens_rigid(V):
    I, st = V.I, V.st
    e = M.mk_ens(V, 2, 3, bonds=((0, 1), (1, 2)))
    before = NP._copy(e.fields["_coords"].data)
    op = V.choose(["center_at_atom", "rotate", "translate"], "op")
    V.cover()
    if op == "center_at_atom":
        j = V.choose([0, 2], "atom")
        out = V.method(e, "center_at_atom", [e.fields["_atoms"].items[j]], qual=f"{M.CLS['ConformerEnsemble']}.center_at_atom")
        after = e.fields["_coords"].data
        V.ensure("post/returns", z3.BoolVal(out.returned))
        V.ensure("post/chosen-atom-at-the-origin-in-every-conformer", z3.And(*[Z(after[c][j][k]) == 0 for c in range(2) for k in range(3)]))
    elif op == "rotate":
        R = [[V.sym(f"r{i}{j}", "real") for j in range(3)] for i in range(3)]
        assume_rotation(V, R)
        out = V.method(e, "rotate", [NP.mk(R)], qual=f"{M.CLS['ConformerEnsemble']}.rotate")
        after = e.fields["_coords"].data
        V.ensure("post/returns", z3.BoolVal(out.returned))
    else:
        out = V.method(e, "translate", [vec(V, "t")], qual=f"{M.CLS['ConformerEnsemble']}.translate")
        after = e.fields["_coords"].data
        V.ensure("post/returns", z3.BoolVal(out.returned))
    if out.returned:
        eqs("post/distances-unchanged-in-every-conformer", V,
            [(d2(after[c][i], after[c][j]), d2(before[c][i], before[c][j])) for c in range(2) for i in range(3) for j in range(i + 1, 3)])
