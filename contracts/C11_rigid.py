"""C11 -- geometric operations are rigid motions with the documented effect.

Floats are treated as reals.  Polynomial identities (orthogonality, determinant, mapping, distance and
signed-volume preservation, dihedral target) are discharged by sympy as ideal membership modulo the
defining equations of the norm / sine / cosine symbols; branch logic by z3.
"""
import z3
from pyvc.spec import *
from pyvc.values import *
from pyvc.ops import to_z3
from pyvc import npmodel as NP
from contracts import mol as M

P = Property("C11", "geometric operations are rigid motions")
P.trust("numpy: dot/cross/outer/norm/eye/broadcasting over the reals; math.sin/cos as reals with s^2 + c^2 = 1")
P.assume("floats are reals (no rounding); norms are the non-negative roots of the sum of squares")
P.not_decided += ["alignment (align_to_ref_coords) returns the achieved RMSD / pose independence: caller-supplied SVD routine, not decidable here",
                  "behaviour within 1e-12 of exactly opposite vectors (IEEE rounding); the antiparallel branch is covered only as a composition of two general-branch rotations"]
ROT = "molli.math.rotation"


def vec(V, name):
    return ListV([V.sym(f"{name}{i}", "real") for i in range(3)])


def Z(x):
    if isinstance(x, z3.ExprRef):
        return z3.ToReal(x) if x.sort() == z3.IntSort() else x
    return to_z3(x, "real")


def eqs(label, V, pairs, hyps=None):
    """polynomial identities for the sympy back end; hyps (optional) = the only equalities used as ideal generators"""
    kw = {"hyps": hyps} if hyps is not None else {}
    V.ensure(label, z3.And(*[Z(a) == Z(b) for a, b in pairs]), backend="sympy", **kw)


def det3(m):
    a, b, c = m
    return (Z(a[0]) * (Z(b[1]) * Z(c[2]) - Z(b[2]) * Z(c[1])) - Z(a[1]) * (Z(b[0]) * Z(c[2]) - Z(b[2]) * Z(c[0]))
            + Z(a[2]) * (Z(b[0]) * Z(c[1]) - Z(b[1]) * Z(c[0])))


def matT_mul(m):
    """entries of m @ m.T"""
    return [[sum(Z(m[i][k]) * Z(m[j][k]) for k in range(3)) for j in range(3)] for i in range(3)]


def assume_rotation(V, R):
    """R is a proper rotation: R R^T = I, det R = 1 (polynomial hypotheses -> ideal generators)"""
    mm = matT_mul(R)
    for i in range(3):
        for j in range(i, 3):
            V.assume(mm[i][j] == (1 if i == j else 0))
    V.assume(det3(R) == 1)


def rot_contract(I, fv, args, kwargs):
    """contract of rotation_matrix_from_vectors(v1, v2) for call sites: a proper rotation R with v1/|v1| @ R = v2/|v2|"""
    st = I.st
    v1 = NP.asarray(I, args[0]).data
    v2 = NP.asarray(I, args[1]).data
    if any(NP.is_nan(x) for x in list(v1) + list(v2)):
        st.event("np-division-by-zero", "undefined direction passed to rotation_matrix_from_vectors")
        return NP.mk([[NP.NAN] * 3 for _ in range(3)])
    n_ = st.ghost["rot_contract_uses"] = st.ghost.get("rot_contract_uses", 0) + 1
    R = [[st.fresh_sv(f"R{n_}_{i}{j}", "real") for j in range(3)] for i in range(3)]
    mm = matT_mul(R)
    orth = [mm[i][j] == (1 if i == j else 0) for i in range(3) for j in range(i, 3)]
    for f in orth:
        st.assume(f)
    st.assume(det3(R) == 1)
    n1, n2 = NP.sqrt_sumsq(I, v1), NP.sqrt_sumsq(I, v2)
    st.assume(z3.And(Z(n1) > 0, Z(n2) > 0))          # precondition: directions are defined
    maps = [sum(Z(v1[k]) * Z(R[k][j]) for k in range(3)) * Z(n2) == Z(v2[j]) * Z(n1) for j in range(3)]
    for f in maps:
        st.assume(f)
    st.event("contract", "rotation_matrix_from_vectors")
    st.ghost["R_orth"] = orth
    st.ghost.setdefault("rot_facts", []).append({"R": R, "orth": orth, "det": det3(R) == 1, "maps": maps, "n1": n1, "n2": n2, "v1": v1, "v2": v2})
    return NP.mk(R)


def guard_recursion(I, qual, contract):
    """inside the body of `qual`, recursive calls are replaced by its contract (modular verification of recursion)"""
    depth = {"d": 0}
    real = I.call_function

    def guarded(fv, args, kwargs):
        if fv.qual == qual:
            depth["d"] += 1
            try:
                if depth["d"] > 1:
                    return contract(I, fv, args, kwargs)
                return real(fv, args, kwargs)
            finally:
                depth["d"] -= 1
        return real(fv, args, kwargs)
    I.call_function = guarded
    return lambda: setattr(I, "call_function", real)


@P.unit(f"{ROT}:rotation_matrix_from_vectors", name="rotation_matrix_from_vectors[general branch]")
def _from_vectors(V):
    I, st = V.I, V.st
    v1, v2 = vec(V, "a"), vec(V, "b")

    def rand(I_, a, k):
        st.event("hidden-state", "np.random.rand")
        V.ensure("pure/no-hidden-state-source-is-read", z3.BoolVal(False))
        return NP.mk([st.fresh_sv(f"rnd{i}", "real") for i in range(3)])
    st.ghost[("np", "random.rand")] = rand
    # antiparallel branch: the search loop for a helper direction is abstracted by `true` (any helper vector);
    # the two recursive calls are used through the contract of this very function
    I.loop_specs[(f"{ROT}:rotation_matrix_from_vectors", 0)] = LoopSpec(
        invariant=lambda L: [("true", z3.BoolVal(True))],
        locals={"_rcp": "real", "RV": lambda I_, n: NP.mk([I_.st.fresh_sv(f"RV{i}", "real") for i in range(3)]),
                "ort": lambda I_, n: NP.mk([I_.st.fresh_sv(f"ort{i}", "real") for i in range(3)])})
    V.cover()
    undo = guard_recursion(I, f"{ROT}:rotation_matrix_from_vectors", rot_contract)
    try:
        out = V.call(f"{ROT}:rotation_matrix_from_vectors", [v1, v2])
    finally:
        undo()
    facts = st.ghost.get("rot_facts", [])
    general = not facts
    if out.returned and facts and len(facts) != 2 and not any(e[0] == "np-division-by-zero" for e in st.trace):
        # the special branch no longer has the verified shape (two rotations through a helper direction, each used through this function's
        # own contract): nothing can be concluded from the contracts, the clauses of the accepted tree are reported as not discharged
        for lab in ("post[antiparallel]/orthogonal", "post[antiparallel]/is-the-product-of-the-two-contract-rotations", "post[antiparallel]/helper-chain:v1->helper->v2"):
            V.ensure(lab, z3.BoolVal(False), structure=f"{len(facts)} recursive use(s) of the contract instead of 2")
    if out.returned and len(facts) == 2 and not any(e[0] == "np-division-by-zero" for e in st.trace):
        # composition of two rotations v1 -> helper -> v2 (helper non-zero: precondition of the contract, see DESIGN)
        R = out.value.data
        hy = facts[0]["orth"] + facts[1]["orth"] + [facts[0]["det"], facts[1]["det"]] + facts[0]["maps"] + facts[1]["maps"]
        n1 = NP.sqrt_sumsq(I, v1.items)
        n2 = NP.sqrt_sumsq(I, v2.items)
        mmx = matT_mul(R)
        eqs("post[antiparallel]/orthogonal", V, [(mmx[i][j], z3.RealVal(1 if i == j else 0)) for i in range(3) for j in range(i, 3)],
            hyps=facts[0]["orth"] + facts[1]["orth"])
        V.ensure("post[antiparallel]/is-the-product-of-the-two-contract-rotations",
                 z3.And(*[Z(R[i][j]) == sum(Z(facts[0]["R"][i][k]) * Z(facts[1]["R"][k][j]) for k in range(3)) for i in range(3) for j in range(3)]))
        V.ensure("post[antiparallel]/helper-chain:v1->helper->v2",
                 z3.BoolVal(facts[0]["v1"] is not None and all(a is b for a, b in zip(facts[0]["v2"], facts[1]["v1"]))))
    V.ensure("post/raises-only-for-a-zero-vector", z3.BoolVal(bool(out.returned)))
    if not out.returned:
        return
    if any(e[0] == "np-division-by-zero" for e in st.trace):
        return      # zero-length input: outside the precondition (a direction is undefined)
    if not general:
        return      # antiparallel branch: separate unit
    R = out.value.data
    n1 = NP.sqrt_sumsq(I, v1.items)
    n2 = NP.sqrt_sumsq(I, v2.items)
    # v1/|v1| @ R == v2/|v2|   (row convention of the docstring and of every caller)
    lhs = [sum(Z(v1.items[k]) / Z(n1) * Z(R[k][j]) for k in range(3)) for j in range(3)]
    eqs("post/maps-direction-of-v1-to-direction-of-v2", V, [(lhs[j], Z(v2.items[j]) / Z(n2)) for j in range(3)])
    mm = matT_mul(R)
    eqs("post/orthogonal", V, [(mm[i][j], z3.RealVal(1 if i == j else 0)) for i in range(3) for j in range(i, 3)])
    eqs("post/proper:det=+1", V, [(det3(R), z3.RealVal(1))])


@P.unit(f"{ROT}:rotation_matrix_from_axis", name="rotation_matrix_from_axis")
def _from_axis(V):
    I, st = V.I, V.st
    ax = vec(V, "u")
    ang = V.sym("theta", "real")
    V.cover()
    out = V.call(f"{ROT}:rotation_matrix_from_axis", [ax, ang])
    V.ensure("post/returns", z3.BoolVal(out.returned))
    if not out.returned or any(e[0] == "np-division-by-zero" for e in st.trace):
        return
    R = out.value.data
    s, c = NP.trig(I, "sin", ang), NP.trig(I, "cos", ang)
    n = NP.sqrt_sumsq(I, ax.items)
    mm = matT_mul(R)
    eqs("post/orthogonal", V, [(mm[i][j], z3.RealVal(1 if i == j else 0)) for i in range(3) for j in range(i, 3)])
    eqs("post/proper:det=+1", V, [(det3(R), z3.RealVal(1))])
    eqs("post/axis-is-fixed", V, [(sum(Z(R[i][k]) * Z(ax.items[k]) for k in range(3)), Z(ax.items[i])) for i in range(3)])
    eqs("post/angle:trace=1+2cos", V, [(Z(R[0][0]) + Z(R[1][1]) + Z(R[2][2]), 1 + 2 * Z(c))])
    # sense of rotation (column convention, right-handed): the antisymmetric part is sin(theta) * [u]_x
    u = [Z(x) / Z(n) for x in ax.items]
    eqs("post/sense:antisymmetric-part-is-sin*[u]x", V, [(Z(R[2][1]) - Z(R[1][2]), 2 * Z(s) * u[0]),
                                                         (Z(R[0][2]) - Z(R[2][0]), 2 * Z(s) * u[1]),
                                                         (Z(R[1][0]) - Z(R[0][1]), 2 * Z(s) * u[2])])


def d2(p, q):
    return sum((Z(p[k]) - Z(q[k])) * (Z(p[k]) - Z(q[k])) for k in range(3))


def svol(p, q, r, s):
    return det3([[Z(p[k]) - Z(s[k]) for k in range(3)], [Z(q[k]) - Z(s[k]) for k in range(3)], [Z(r[k]) - Z(s[k]) for k in range(3)]])


@P.unit(f"{M.CLS['CartesianGeometry']}.transform", name="translate/transform keep distances and handedness",
        functions=[f"{M.CLS['CartesianGeometry']}.translate", f"{M.CLS['CartesianGeometry']}.transform"])
def _rigid(V):
    I, st = V.I, V.st
    m = M.mk_mol(V, "Molecule", 4, ((0, 1), (1, 2), (2, 3)))
    before = [list(r) for r in m.fields["_coords"].data]
    op = V.choose(["translate", "transform"], "op")
    V.cover()
    if op == "translate":
        t = vec(V, "t")
        out = V.method(m, "translate", [t], qual=f"{M.CLS['CartesianGeometry']}.translate")
        V.ensure("post/returns", z3.BoolVal(out.returned))
        after = m.fields["_coords"].data
        V.ensure("post/every-atom-moved-by-the-vector", z3.And(*[Z(after[i][k]) == Z(before[i][k]) + Z(t.items[k]) for i in range(4) for k in range(3)]))
    else:
        R = [[V.sym(f"r{i}{j}", "real") for j in range(3)] for i in range(3)]
        assume_rotation(V, R)
        out = V.method(m, "transform", [NP.mk(R)], qual=f"{M.CLS['CartesianGeometry']}.transform")
        V.ensure("post/returns", z3.BoolVal(out.returned))
        after = m.fields["_coords"].data
    if out.returned:
        eqs("post/pairwise-distances-unchanged", V, [(d2(after[i], after[j]), d2(before[i], before[j])) for i in range(4) for j in range(i + 1, 4)])
        eqs("post/handedness-unchanged:signed-volume", V, [(svol(*after), svol(*before))])
        V.ensure("frame/shape-atoms-charges-untouched", z3.BoolVal(m.fields["_coords"].tail == (4, 3)))


@P.unit(f"{M.CLS['Structure']}.rotate_dihedral", name="rotate_dihedral reaches the target and moves only one side",
        functions=[f"{M.CLS['Structure']}.rotate_dihedral", f"{M.CLS['CartesianGeometry']}.dihedral", "molli.chem.structure:Substructure.coords"])
def _dihedral(V):
    I, st = V.I, V.st
    # "heavy-far-side": the side that must move (beyond atoms[2]) is the LARGER one; "heavy-near-side": the smaller one
    shape = V.choose(["chain", "heavy-far-side", "heavy-near-side", "central-bond-stored-reversed"], "shape")
    extra = {"chain": (), "heavy-far-side": ((3, 4), (3, 5)), "heavy-near-side": ((0, 4), (0, 5)), "central-bond-stored-reversed": ()}[shape]
    # the dihedral is given as atoms (0,1,2,3) whatever the orientation in which the bonds happen to be stored
    core = ((0, 1), (2, 1), (3, 2)) if shape == "central-bond-stored-reversed" else ((0, 1), (1, 2), (2, 3))
    m = M.mk_mol(V, "Molecule", 4 + len(extra), core + extra)
    before = [list(r) for r in m.fields["_coords"].data]
    target = V.sym("target", "real")
    atoms = tuple(m.fields["_atoms"].items[:4])
    fixed = (0, 1) + ((4, 5) if shape == "heavy-near-side" else ())
    moved = (2, 3) + ((4, 5) if shape == "heavy-far-side" else ())
    V.witness(lambda ev: {"op": "rotate_dihedral", "shape": shape, "signature": "rotate_dihedral"})
    recorded = {}

    def arctan2(I_, a, k):
        recorded.setdefault("args", []).append((a[0], a[1]))
        return st.fresh_sv("dihedral", "real")
    st.ghost[("np", "arctan2")] = arctan2
    V.cover()
    out = V.method(m, "rotate_dihedral", [atoms, target], qual=f"{M.CLS['Structure']}.rotate_dihedral")
    V.ensure("post/returns", z3.BoolVal(out.returned))
    if not out.returned or any(e[0] == "np-division-by-zero" for e in st.trace):
        return
    after = m.fields["_coords"].data
    V.ensure("frame/atoms-on-the-fixed-side-do-not-move", z3.And(*[Z(after[i][k]) == Z(before[i][k]) for i in fixed for k in range(3)]))
    # the moved side is rotated about the axis through atoms[1] by the matrix of rotation_matrix_from_axis(ax, target - old)
    # in the column convention proved for that function: after = origin + R (before - origin)
    ang_terms = [v for k, v in st.ghost.items() if isinstance(k, tuple) and k[0] == "trig"]
    V.ensure("post/uses-one-rotation-angle", z3.BoolVal(len(ang_terms) == 1))
    if len(ang_terms) != 1:
        return
    s_, c_, angz = ang_terms[0]
    (y0, x0) = recorded["args"][0]
    V.ensure("post/rotation-angle-is-target-minus-current-dihedral", angz == Z(target) - Z(SV(z3.Real("dihedral"), "real")))
    ax = [Z(before[2][k]) - Z(before[1][k]) for k in range(3)]
    n = NP.sqrt_sumsq(I, [SV(a, "real") for a in ax])
    u = [a / Z(n) for a in ax]
    W = [[0, -u[2], u[1]], [u[2], 0, -u[0]], [-u[1], u[0], 0]]
    WW = [[sum(W[i][k] * W[k][j] for k in range(3)) for j in range(3)] for i in range(3)]
    R = [[(1 if i == j else 0) + Z(s_) * W[i][j] + (1 - Z(c_)) * WW[i][j] for j in range(3)] for i in range(3)]
    o = [Z(before[1][k]) for k in range(3)]
    pairs = []
    for i in moved:
        for r in range(3):
            pairs.append((Z(after[i][r]), o[r] + sum(R[r][k] * (Z(before[i][k]) - o[k]) for k in range(3))))
    eqs("post/moved-side-is-rotated-right-handed-about-the-central-bond-by-the-angle", V, pairs)


@P.unit(f"{M.CLS['CartesianGeometry']}.dihedral", name="lemma: a right-handed rotation of the far side by phi adds phi to dihedral()")
def _dihedral_lemma(V):
    """the real dihedral() formula, evaluated in a frame where the central bond is the +z axis (dihedral angles are
    invariant under rigid motions -- assumed, textbook), before and after rotating atom 4 about +z by phi"""
    I, st = V.I, V.st
    m = M.mk_mol(V, "Molecule", 4, ((0, 1), (1, 2), (2, 3)))
    p = [V.sym(f"p{k}", "real") for k in range(3)]
    q = [V.sym(f"q{k}", "real") for k in range(3)]
    L = V.sym("L", "real")
    V.assume(L.z > 0)
    s_, c_ = V.sym("s", "real"), V.sym("c", "real")
    V.assume(s_.z * s_.z + c_.z * c_.z == 1)
    rec = []
    st.ghost[("np", "arctan2")] = lambda I_, a, k: rec.append((a[0], a[1])) or st.fresh_sv("d", "real")
    atoms = list(m.fields["_atoms"].items)
    V.cover()
    m.fields["_coords"] = NP.mk([p, [0.0, 0.0, 0.0], [0.0, 0.0, L], q])
    V.method(m, "dihedral", atoms, qual=f"{M.CLS['CartesianGeometry']}.dihedral")
    q2 = [SV(q[0].z * c_.z - q[1].z * s_.z, "real"), SV(q[0].z * s_.z + q[1].z * c_.z, "real"), q[2]]
    m.fields["_coords"] = NP.mk([p, [0.0, 0.0, 0.0], [0.0, 0.0, L], q2])
    V.method(m, "dihedral", atoms)
    V.ensure("lemma/dihedral-evaluated-twice", z3.BoolVal(len(rec) == 2))
    if len(rec) == 2:
        (y0, x0), (y1, x1) = rec
        eqs("lemma/(x,y)-of-the-dihedral-is-rotated-by-phi", V, [(Z(x1), Z(x0) * c_.z - Z(y0) * s_.z), (Z(y1), Z(y0) * c_.z + Z(x0) * s_.z)])


@P.unit(f"{M.CLS['ConformerEnsemble']}.center_at_atom", name="ensemble translate/rotate/center_at_atom are rigid per conformer",
        functions=[f"{M.CLS['ConformerEnsemble']}.center_at_atom", f"{M.CLS['ConformerEnsemble']}.translate", f"{M.CLS['ConformerEnsemble']}.rotate"])
def _ens_rigid(V):
    I, st = V.I, V.st
    e = M.mk_ens(V, 2, 3, bonds=((0, 1), (1, 2)))
    before = NP._copy(e.fields["_coords"].data)
    op = V.choose(["center_at_atom", "rotate", "translate"], "op")
    V.cover()
    if op == "center_at_atom":
        j = V.choose([0, 2], "atom")
        out = V.method(e, "center_at_atom", [e.fields["_atoms"].items[j]], qual=f"{M.CLS['ConformerEnsemble']}.center_at_atom")
        after = e.fields["_coords"].data
        V.ensure("post/returns", z3.BoolVal(out.returned))
        V.ensure("post/chosen-atom-at-the-origin-in-every-conformer", z3.And(*[Z(after[c][j][k]) == 0 for c in range(2) for k in range(3)]))
    elif op == "rotate":
        R = [[V.sym(f"r{i}{j}", "real") for j in range(3)] for i in range(3)]
        assume_rotation(V, R)
        out = V.method(e, "rotate", [NP.mk(R)], qual=f"{M.CLS['ConformerEnsemble']}.rotate")
        after = e.fields["_coords"].data
        V.ensure("post/returns", z3.BoolVal(out.returned))
    else:
        out = V.method(e, "translate", [vec(V, "t")], qual=f"{M.CLS['ConformerEnsemble']}.translate")
        after = e.fields["_coords"].data
        V.ensure("post/returns", z3.BoolVal(out.returned))
    if out.returned:
        eqs("post/distances-unchanged-in-every-conformer", V,
            [(d2(after[c][i], after[c][j]), d2(before[c][i], before[c][j])) for c in range(2) for i in range(3) for j in range(i + 1, 3)])


ENSQ = M.CLS["ConformerEnsemble"]


@P.unit(f"{ENSQ}.optimal_rotation_to_ref_coords", name="alignment reports, per conformer, the smallest RMSD and the rotation that achieves it",
        functions=[f"{ENSQ}.optimal_rotation_to_ref_coords", f"{M.CLS['Molecule']}.align_to_ref_coords"])
def _align_bookkeeping(V):
    """the fitting routine `func` is the caller's (uninterpreted: any rotation, any rmsd < 100 per call); decided here: the
    selection logic -- each conformer gets the minimum over its candidate mappings and the matching rotation"""
    I, st = V.I, V.st
    which = V.choose(["ensemble", "molecule"], "receiver")
    calls = []

    def func(I_, a, k):
        n = len(calls)
        R = NP.mk([[st.fresh_sv(f"F{n}_{i}{j}", "real") for j in range(3)] for i in range(3)])
        r = st.fresh_sv(f"rmsd{n}", "real")
        st.assume(z3.And(r.z >= 0, r.z < 100))
        calls.append((a[0], a[1], R, r))
        return (R, r)
    ref = Obj(I.builtins["object"], {"coords": NP.mk([[V.sym(f"ref{i}{k}", "real") for k in range(3)] for i in range(2)])}, tag="refgeom")
    # the second mapping lists its atoms in descending order: the fit must see the atoms in the order the caller gave
    idxs = ListV([ListV([0, 1]), ListV([2, 1])])
    V.witness(lambda ev: {"op": "alignment-selection", "receiver": which, "rmsds": [ev(c[3]) for c in calls], "signature": "alignment-selection"})
    V.cover()
    if which == "ensemble":
        e = M.mk_ens(V, 2, 3, bonds=((0, 1), (1, 2)))
        out = V.method(e, "optimal_rotation_to_ref_coords", [Builtin("func", func), idxs, ref], qual=f"{ENSQ}.optimal_rotation_to_ref_coords")
        V.ensure("post/returns", z3.BoolVal(out.returned))
        if not out.returned:
            return
        rmsds, rots = out.value
        ok = isinstance(rmsds, ListV) and len(rmsds.items) == 2 and len(calls) == 4 and isinstance(rots, NdArr) and rots.tail == (2, 3, 3)
        V.ensure("post/one-fit-per-conformer-and-mapping", z3.BoolVal(ok))
        if ok:
            ec = e.fields["_coords"].data
            pairs_ok = []
            for c in range(2):
                for mi, order in enumerate(([0, 1], [2, 1])):
                    sub = NP.asarray(I, calls[2 * c + mi][0]).data
                    pairs_ok.append(I.and_(len(sub) == 2, *[M._same(I, sub[r][k], ec[c][order[r]][k]) for r in range(2) for k in range(3)]))
            V.ensure("post/each-fit-sees-the-mapped-atoms-in-the-caller's-order-against-the-reference", I.and_(*pairs_ok))
            for c in range(2):
                r0, r1 = calls[2 * c][3].z, calls[2 * c + 1][3].z
                V.ensure(f"post/reported-rmsd-is-the-smallest-of-this-conformer's-fits/{c}", Z(rmsds.items[c]) == z3.If(r1 < r0, r1, r0))
                for i in range(3):
                    for j in range(3):
                        pass
                V.ensure(f"post/rotation-is-the-one-that-achieved-it/{c}",
                         z3.And(*[Z(rots.data[c][i][j]) == z3.If(r1 < r0, Z(calls[2 * c + 1][2].data[i][j]), Z(calls[2 * c][2].data[i][j]))
                                  for i in range(3) for j in range(3)]))
    else:
        m = M.mk_mol(V, "Molecule", 3, ((0, 1), (1, 2)))
        before = [list(r) for r in m.fields["_coords"].data]
        out = V.method(m, "align_to_ref_coords", [Builtin("func", func), idxs, ref], qual=f"{M.CLS['Molecule']}.align_to_ref_coords")
        V.ensure("post/returns", z3.BoolVal(out.returned))
        if not out.returned or len(calls) != 2:
            V.ensure("post/one-fit-per-mapping", z3.BoolVal(len(calls) == 2))
            return
        r0, r1 = calls[0][3].z, calls[1][3].z
        V.ensure("post/returned-rmsd-is-the-smallest-fit", Z(out.value) == z3.If(r1 < r0, r1, r0))
        # coordinates: centred on the first mapping's centroid, then multiplied by the rotation of the best fit
        cen = [sum(Z(before[i][k]) for i in (0, 1)) / 2 for k in range(3)]
        after = m.fields["_coords"].data
        best = [[z3.If(r1 < r0, Z(calls[1][2].data[i][j]), Z(calls[0][2].data[i][j])) for j in range(3)] for i in range(3)]
        V.ensure("post/transformed-by-the-rotation-of-the-best-fit",
                 z3.And(*[Z(after[a][j]) == sum((Z(before[a][k]) - cen[k]) * best[k][j] for k in range(3)) for a in range(3) for j in range(3)]))


# ------------------------------------------------------------------------------------------ substructure views follow their atoms
@P.unit("molli.chem.structure:Substructure.coords", name="a Substructure moves its own atoms, also after the parent's atom list has changed",
        functions=["molli.chem.structure:Substructure.coords", "molli.chem.structure:Substructure.parent_atom_indices",
                   "molli.chem.structure:Substructure.yield_parent_atom_indices", f"{M.CLS['CartesianGeometry']}.translate"])
def _substructure_rows(V):
    I, st = V.I, V.st
    m = M.mk_mol(V, "Molecule", 4, ((0, 1), (1, 2), (2, 3)))
    atoms = list(m.fields["_atoms"].items)
    before = {id(a): list(r) for a, r in zip(atoms, m.fields["_coords"].data)}
    v1 = [V.sym(f"v1{k}", "real") for k in range(3)]
    v2 = [V.sym(f"v2{k}", "real") for k in range(3)]
    # the molecule's atoms may also sit in another (non-copying) container: the selection is still rows 2 and 3 of THIS molecule
    shared = V.choose([False, True], "atoms-also-in-another-container")
    if shared:
        V.keep = M.share_atoms(V, m)
    V.witness(lambda ev: {"op": "substructure-after-del", "shared": shared, "signature": "substructure-after-del" + ("/shared-atoms" if shared else "")})
    V.cover()
    sub = V.method(m, "substructure", [ListV([atoms[2], atoms[3]])])
    V.ensure("sub/created", z3.BoolVal(sub.returned))
    if not sub.returned:
        return
    s = sub.value
    o1 = V.method(s, "translate", [NP.mk(list(v1), "float")], qual=f"{M.CLS['CartesianGeometry']}.translate")
    d = V.method(m, "del_atom", [atoms[0]])                      # the parent's rows shift by one
    o2 = V.method(s, "translate", [NP.mk(list(v2), "float")], qual=f"{M.CLS['CartesianGeometry']}.translate")
    V.ensure("sub/operations-return", z3.BoolVal(o1.returned and d.returned and o2.returned))
    if not (o1.returned and d.returned and o2.returned):
        return
    al = m.fields["_atoms"].items
    co = m.fields["_coords"].data
    ok = len(al) == 3 and al[0] is atoms[1] and al[1] is atoms[2] and al[2] is atoms[3] and len(co) == 3
    V.ensure("sub/parent-keeps-the-other-atoms-in-order", z3.BoolVal(ok))
    if not ok:
        return
    V.ensure("sub/selected-atoms-moved-by-both-translations", z3.And(*[Z(co[r][k]) == Z(before[id(atoms[r + 1])][k]) + Z(v1[k]) + Z(v2[k]) for r in (1, 2) for k in range(3)]))
    V.ensure("sub/unselected-atom-not-moved", z3.And(*[Z(co[0][k]) == Z(before[id(atoms[1])][k]) for k in range(3)]))


# ------------------------------------------------------------------------------------------ bounded stand-in (real code, CPython)
P.bounded_in_quick = True       # ~3 s: also runs in the quick tier (reported as bounded, never as proved)


@P.bounded_standin("dihedral / rotate_dihedral / rotation_matrix_from_vectors on exactly degenerate and random geometries (real code under CPython)",
                   "5 exactly degenerate 4-5 atom chains (coplanar anti / syn, perpendicular) + 40 random chains x 6 target angles; 31 x 37 vector pairs incl. exactly and nearly (anti)parallel ones x 2 tolerances; numeric tolerance 1e-6")
def _bounded(seed):
    import subprocess, json, os
    here = os.path.dirname(os.path.dirname(os.path.abspath(__file__)))
    r = subprocess.run(["/venv/bin/python", os.path.join(here, "replay", "C11.py"), "--bounded", str(seed)], capture_output=True, text=True, timeout=3000,
                       env={**os.environ, "PYTHONPATH": os.environ.get("PYVC_REPO", "/repo")})
    try:
        return json.loads(r.stdout.strip().splitlines()[-1])
    except Exception:
        return {"error": (r.stdout + r.stderr)[-500:]}
