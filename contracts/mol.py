"""Shared vocabulary for the molecule classes (C01, C05, C06, C12, C14, C16): symbolic molecules with a
concrete spine (k atoms, m bonds -- bounded container sizes, stated in each property) whose element
values (elements, labels, enum fields, coordinates, charges) are symbolic, and the class invariant WF.
"""
import z3
from pyvc.values import *
from pyvc.spec import *
from pyvc.ops import to_z3, pyclass_kind
from pyvc import npmodel as NP

ATOM = "molli.chem.atom:Atom"
BOND = "molli.chem.bond:Bond"
CLS = {"Promolecule": "molli.chem.atom:Promolecule", "Connectivity": "molli.chem.bond:Connectivity",
       "CartesianGeometry": "molli.chem.geometry:CartesianGeometry", "Structure": "molli.chem.structure:Structure",
       "Molecule": "molli.chem.molecule:Molecule", "ConformerEnsemble": "molli.chem.ensemble:ConformerEnsemble"}


def enum_cls(V, qual):
    return V.cls(qual)


def opt_str(V, name):
    """str | None"""
    if V.choose(["str", "none"], name) == "none":
        return None
    return V.sym(name, "str")


def mk_atom(V, name, parent=None, label="sym", full=False):
    """an Atom object (no __init__ run) with symbolic field values"""
    I, st = V.I, V.st
    cls = V.cls(ATOM)
    E = V.cls("molli.chem.atom:Element")
    a = Obj(cls, {}, tag=name)
    a.fields["element"] = V.sym_enum(f"{name}_el", E)
    a.fields["isotope"] = None
    a.fields["label"] = V.sym(f"{name}_label", "str") if label == "sym" else label
    if full:
        a.fields["atype"] = V.sym_enum(f"{name}_atype", V.cls("molli.chem.atom:AtomType"))
        a.fields["stereo"] = V.sym_enum(f"{name}_stereo", V.cls("molli.chem.atom:AtomStereo"))
        a.fields["geom"] = V.sym_enum(f"{name}_geom", V.cls("molli.chem.atom:AtomGeom"))
        a.fields["formal_charge"] = V.sym(f"{name}_fc", "int")
        a.fields["formal_spin"] = V.sym(f"{name}_fs", "int")
    else:
        a.fields["atype"] = I.getattr_(V.cls("molli.chem.atom:AtomType"), "Regular")
        a.fields["stereo"] = I.getattr_(V.cls("molli.chem.atom:AtomStereo"), "Unknown")
        a.fields["geom"] = I.getattr_(V.cls("molli.chem.atom:AtomGeom"), "Unknown")
        a.fields["formal_charge"] = 0
        a.fields["formal_spin"] = 0
    a.fields["attrib"] = DictV()
    a.fields["_parent"] = None if parent is None else Obj(I.WeakrefCls, {"ref": parent}, tag="weakref")
    return a


def mk_bond(V, name, a1, a2, parent=None, full=False):
    I = V.I
    cls = V.cls(BOND)
    b = Obj(cls, {}, tag=name)
    BT = V.cls("molli.chem.bond:BondType")
    BS = V.cls("molli.chem.bond:BondStereo")
    b.fields.update({"a1": a1, "a2": a2, "label": None,
                     "btype": V.sym_enum(f"{name}_bt", BT) if full else I.getattr_(BT, "Single"),
                     "stereo": V.sym_enum(f"{name}_bs", BS) if full else I.getattr_(BS, "Unknown"),
                     "f_order": V.sym(f"{name}_fo", "real") if full else 1.0,
                     "attrib": DictV(),
                     "_parent": None if parent is None else Obj(I.WeakrefCls, {"ref": parent}, tag="weakref")})
    return b


def mk_mol(V, kind="Molecule", k=3, bonds=((0, 1), (1, 2)), name="m", full=False, labels="sym"):
    """a molecule-like object of class `kind` with k atoms and the given bonds (pairs of atom indices)"""
    I, st = V.I, V.st
    cls = V.cls(CLS[kind])
    m = Obj(cls, {}, tag=name)
    atoms = [mk_atom(V, f"{name}_a{i}", parent=m, full=full, label=labels) for i in range(k)]
    m.fields.update({"_name": V.sym(f"{name}_name", "str"), "charge": V.sym(f"{name}_charge", "int"),
                     "mult": V.sym(f"{name}_mult", "int"), "attrib": DictV(), "_atoms": ListV(atoms)})
    order = [c.name for c in cls.mro]
    if "Connectivity" in order:
        m.fields["_bonds"] = ListV([mk_bond(V, f"{name}_b{j}", atoms[p], atoms[q], parent=m, full=full) for j, (p, q) in enumerate(bonds)])
    if "CartesianGeometry" in order:
        m.fields["_coords"] = NP.mk([[V.sym(f"{name}_x{i}_{c}", "real") for c in range(3)] for i in range(k)] if k else [], "float")
        if k == 0:
            m.fields["_coords"].tail = (0, 3)
    if "Molecule" in order:
        m.fields["_atomic_charges"] = NP.mk([V.sym(f"{name}_q{i}", "real") for i in range(k)], "float")
        if k == 0:
            m.fields["_atomic_charges"].tail = (0,)
    return m


class Ghost:
    """ghost maps keyed by atom identity: the coordinate row and the charge each atom was given"""

    def __init__(self, m):
        self.coord = {}
        self.charge = {}
        atoms = m.fields["_atoms"].items
        if "_coords" in m.fields:
            for a, row in zip(atoms, m.fields["_coords"].data):
                self.coord[id(a)] = list(row)
        if "_atomic_charges" in m.fields:
            for a, q in zip(atoms, m.fields["_atomic_charges"].data):
                self.charge[id(a)] = q


def wf(V, m, ghost=None, label="wf"):
    """class invariant of C05; returns list of (label, formula)"""
    I = V.I
    out = []
    atoms = m.fields["_atoms"]
    ok_atoms = isinstance(atoms, ListV) and all(isinstance(a, Obj) and a.cls.name == "Atom" for a in atoms.items)
    out.append(("atoms-is-a-list-of-atoms", ok_atoms))
    if not ok_atoms:
        return [(f"{label}/{l}", z3.BoolVal(bool(f)) if isinstance(f, bool) else f) for l, f in out]
    al = atoms.items
    n = len(al)
    out.append(("atoms-pairwise-distinct", len({id(a) for a in al}) == n))
    par = []
    for a in al:
        p = a.fields.get("_parent", "unset")
        par.append(isinstance(p, Obj) and p.tag == "weakref" and p.fields["ref"] is m)
    out.append(("every-atom-reports-this-parent", all(par)))
    if "_coords" in m.fields:
        c = m.fields["_coords"]
        okc = isinstance(c, NdArr) and c.data is not None and c.tail == (n, 3) and c.dtype == "float"
        out.append(("one-coordinate-row-per-atom", okc))
        if okc and ghost is not None:
            fs = []
            for a, row in zip(al, c.data):
                g = ghost.coord.get(id(a))
                if g is None:
                    fs.append(False)
                else:
                    fs.extend(_same(I, x, y) for x, y in zip(row, g))
            out.append(("each-atom-keeps-its-coordinate", I.and_(*fs)))
    if "_atomic_charges" in m.fields:
        q = m.fields["_atomic_charges"]
        okq = (isinstance(q, NdArr) and q.data is not None and q.tail == (n,) and q.dtype == "float"
               and all(x is not None for x in q.data))
        out.append(("one-numeric-charge-per-atom", okq))
        if okq and ghost is not None:
            fs = []
            for a, x in zip(al, q.data):
                g = ghost.charge.get(id(a), "missing")
                fs.append(False if (isinstance(g, str) and g == "missing") else _same(I, x, g))
            out.append(("each-atom-keeps-its-charge", I.and_(*fs)))
    if "_bonds" in m.fields:
        bl = m.fields["_bonds"]
        okb = isinstance(bl, ListV) and all(isinstance(b, Obj) and b.cls.name == "Bond" for b in bl.items)
        out.append(("bonds-is-a-list-of-bonds", okb))
        if okb:
            ids = {id(a) for a in al}
            out.append(("every-bond-joins-two-atoms-of-this-molecule",
                        all(id(b.fields["a1"]) in ids and id(b.fields["a2"]) in ids for b in bl.items)))
            out.append(("every-bond-reports-this-parent",
                        all(isinstance(b.fields.get("_parent"), Obj) and b.fields["_parent"].tag == "weakref"
                            and b.fields["_parent"].fields["ref"] is m for b in bl.items)))
    return [(f"{label}/{l}", z3.BoolVal(bool(f)) if isinstance(f, bool) else f) for l, f in out]


def _same(I, x, y):
    if NP.is_nan(x) and NP.is_nan(y):
        return True
    return I.eq(x, y)


def ensure_wf(V, m, ghost, label, skip=()):
    for l, f in wf(V, m, ghost, label):
        if any(s_ in l for s_ in skip):
            V.ensure(l, z3.BoolVal(True))          # clause not applicable to this pre-state (kept so that the label set is stable)
            continue
        V.ensure(l, f)


def snapshot(m):
    """identity-level snapshot of the containers (for 'nothing changed' clauses)"""
    d = {"atoms": list(m.fields["_atoms"].items)}
    if "_bonds" in m.fields:
        d["bonds"] = list(m.fields["_bonds"].items)
        d["ends"] = [(b.fields["a1"], b.fields["a2"]) for b in d["bonds"]]
    if "_coords" in m.fields and m.fields["_coords"].data is not None:
        d["coords"] = [list(r) for r in m.fields["_coords"].data]
    if "_atomic_charges" in m.fields and m.fields["_atomic_charges"].data is not None:
        d["charges"] = list(m.fields["_atomic_charges"].data)
    return d


def same_snapshot(I, a, b):
    fs = [len(a["atoms"]) == len(b["atoms"]) and all(x is y for x, y in zip(a["atoms"], b["atoms"]))]
    if "bonds" in a:
        fs.append(len(a["bonds"]) == len(b["bonds"]) and all(x is y for x, y in zip(a["bonds"], b["bonds"])))
        fs.append(all(p[0] is q[0] and p[1] is q[1] for p, q in zip(a["ends"], b["ends"])))
    if "coords" in a:
        fs.append("coords" in b and len(a["coords"]) == len(b["coords"]))
        if fs[-1]:
            for r1, r2 in zip(a["coords"], b["coords"]):
                fs.extend(_same(I, x, y) for x, y in zip(r1, r2))
    if "charges" in a:
        fs.append("charges" in b and len(a["charges"]) == len(b["charges"]))
        if fs[-1]:
            fs.extend((x is None and y is None) or (x is not None and y is not None and _same(I, x, y)) for x, y in zip(a["charges"], b["charges"]))
    return I.and_(*fs)


def mk_ens(V, nc=2, na=2, bonds=((0, 1),), name="e"):
    """a ConformerEnsemble with nc conformers of na atoms (symbolic coordinates, charges, weights)"""
    I, st = V.I, V.st
    cls = V.cls(CLS["ConformerEnsemble"])
    e = Obj(cls, {}, tag=name)
    atoms = [mk_atom(V, f"{name}_a{i}", parent=e) for i in range(na)]
    e.fields.update({"_name": V.sym(f"{name}_name", "str"), "charge": V.sym(f"{name}_charge", "int"),
                     "mult": V.sym(f"{name}_mult", "int"), "attrib": DictV(), "_atoms": ListV(atoms),
                     "_bonds": ListV([mk_bond(V, f"{name}_b{j}", atoms[p], atoms[q], parent=e) for j, (p, q) in enumerate(bonds) if p < na and q < na])})
    c = NP.mk([[[V.sym(f"{name}_x{i}_{j}_{k}", "real") for k in range(3)] for j in range(na)] for i in range(nc)], "float")
    c.tail = (nc, na, 3)
    q = NP.mk([[V.sym(f"{name}_q{i}_{j}", "real") for j in range(na)] for i in range(nc)], "float")
    q.tail = (nc, na)
    w = NP.mk([V.sym(f"{name}_w{i}", "real") for i in range(nc)], "float")
    w.tail = (nc,)
    e.fields.update({"_coords": c, "_atomic_charges": q, "_weights": w})
    return e


def rect(V, e, label="rect"):
    """rectangularity invariant of C14"""
    out = []
    na = len(e.fields["_atoms"].items) if isinstance(e.fields.get("_atoms"), ListV) else None
    c, q, w = e.fields.get("_coords"), e.fields.get("_atomic_charges"), e.fields.get("_weights")
    okc = isinstance(c, NdArr) and c.data is not None and len(c.tail) == 3 and c.tail[1:] == (na, 3)
    out.append(("coords-are-(nc,na,3)", okc))
    nc = c.tail[0] if okc else None
    out.append(("charges-are-(nc,na)", isinstance(q, NdArr) and q.data is not None and q.tail == (nc, na) and q.dtype == "float"))
    out.append(("weights-are-(nc,)", isinstance(w, NdArr) and w.data is not None and w.tail == (nc,)))
    return [(f"{label}/{l}", z3.BoolVal(bool(f))) for l, f in out]


def ensure_rect(V, e, label):
    for l, f in rect(V, e, label):
        V.ensure(l, f)


def share_atoms(V, m, which=None, name="elsewhere"):
    """History: some atoms of `m` were ALSO handed to another, non-copying container (e.g. Promolecule(m.atoms[1:]), whose constructor
    re-points the atoms' parent back-reference).  They are still atoms of `m`, at the same positions; in the other container they sit at
    other positions.  Code that takes an atom's position from `atom.idx` (= position in atom.parent) instead of from `m` goes wrong."""
    I = V.I
    ats = m.fields["_atoms"].items
    which = list(which) if which is not None else list(range(len(ats) - 1, 0, -1))   # all but the first, in reverse order
    other = mk_mol(V, "Molecule", 0, (), name=name)
    other.fields["_atoms"].items.extend(ats[i] for i in which)
    for i in which:
        ats[i].fields["_parent"] = Obj(I.WeakrefCls, {"ref": other}, tag="weakref")
    return other
