"""C13 -- CDXML parsing reproduces the drawing: constitution part under contract.

The element tree is a symbolic structure (pyvc.xmlmodel): the tree spine (tags, children, which attributes are present) is
concrete per case, attribute VALUES are symbolic.  Decided: position; _parse_atom_node (element, isotope, charge, radical,
attachment-point node types, hydrogen hint); _parse_bond (order mapping, end points); _parse_fragment (one atom per node in
document order, one bond per drawn bond, total charge / multiplicity, name, stereo-mark dispatch antisymmetric under
wedge <-> hash); __getitem__ (a label resolves through the cache to the same fragment).
Not decided here (see DESIGN section 4): handedness of the 3-D model (mean-plane SVD sign, rotation numerics, join with rotation
optimisation) -- bounded stand-in on the bundled drawings only.
"""
import z3
from pyvc.spec import *
from pyvc.values import *
from pyvc.ops import to_z3
from pyvc import xmlmodel as X
from pyvc import textmodel as T
from pyvc import npmodel as NP
from contracts import common as C

P = Property("C13", "CDXML parsing reproduces the drawing (constitution)")
CD = "molli.ftypes.cdxml"
P.trust("xml.etree: find/findall/get/iteration follow the ElementPath subset modelled in pyvc/xmlmodel.py (., .., tag, tag[@attr], [childtag])")
P.trust("int()/float() of an attribute written from a number read that number back (text-codec assumption of the text model)")
P.assume("tree spine concrete per case (<= 3 nodes, <= 2 bonds per fragment, <= 2 candidate fragments per label); attribute values symbolic")
P.assume("_cdxml_3dify_ only moves coordinates (its effect on the graph is proved separately: it calls no graph-mutating method) -- stubbed in the fragment unit")
P.bounded_in_quick = True
P.not_decided += ["handedness inversion of the 3-D model under wedge <-> hash (mean_plane SVD sign, rotation numerics, join with rotation optimisation): bounded stand-in on the bundled drawings only",
                  "label -> fragment geometry of the KD-tree query itself (scipy, assumed to return candidate indices); the choice among the returned candidates IS under contract",
                  "multi-attachment (hapto) centres: excluded by the statement",
                  "nested (unexpanded nickname) fragments joined via Molecule.join: covered by C12's join contract, not re-proved here"]


def itok(v):
    return T.SStr([T.Tok("int", v)])


def self_obj(V, **fields):
    cls = V.cls(f"{CD}:CDXMLFile")
    return Obj(cls, dict(fields), tag="cdxmlfile")


# ------------------------------------------------------------------------------------------------------- position
@P.unit(f"{CD}:position", name="position: centre of the bounding box, else the point p, else ValueError")
def _position(V):
    I, st = V.I, V.st
    T.use(st)
    how = V.choose(["BoundingBox", "p", "both", "neither"], "attributes")
    l, t, r, b = [V.sym(n, "real") for n in "ltrb"]
    px, py = V.sym("px", "real"), V.sym("py", "real")
    ft = lambda v: T.Tok("float", v, ".2f")
    at = {}
    if how in ("BoundingBox", "both"):
        at["BoundingBox"] = T.SStr([ft(l), " ", ft(t), " ", ft(r), " ", ft(b)])
    if how in ("p", "both"):
        at["p"] = T.SStr([ft(px), " ", ft(py)])
    node = X.elem(I, "n", at)
    V.cover()
    out = V.call(f"{CD}:position", [node])
    R2 = T.rounding(2)
    if how == "neither":
        V.ensure("post/no-position-raises-ValueError", z3.BoolVal(out.raised(I, "ValueError")))
        return
    V.ensure("post/returns", z3.BoolVal(out.returned and isinstance(out.value, tuple) and len(out.value) == 2))
    if not out.returned:
        return
    x, y = [to_z3(c, "real") for c in out.value]
    if how in ("BoundingBox", "both"):
        V.ensure("post/centre-of-the-bounding-box", z3.And(x == (R2(l.z) + R2(r.z)) / 2, y == (R2(t.z) + R2(b.z)) / 2))
    else:
        V.ensure("post/the-point-p", z3.And(x == R2(px.z), y == R2(py.z)))


# ------------------------------------------------------------------------------------------------------- atoms
RADICAL = {None: 0, "None": 0, "Doublet": 1, "Singlet": 2, "Triplet": 2}      # number of radical electrons drawn on the node


@P.unit(f"{CD}:CDXMLFile._parse_atom_node", name="_parse_atom_node (regular node): drawn element, isotope, charge, radical count, label, hydrogen hint")
def _atom_regular(V):
    I, st = V.I, V.st
    elt = V.choose([None, "7", "17", "46"], "Element")
    has_iso = V.choose([False, True], "Isotope")
    has_chg = V.choose([False, True], "Charge")
    rad = V.choose([None, "Doublet", "Singlet", "Triplet", "None"], "Radical")
    has_h = V.choose([False, True], "NumHydrogens")
    ntype = V.choose([None, "Element"], "NodeType")
    iso, chg, nh = V.sym("iso", "int"), V.sym("chg", "int"), V.sym("nh", "int")
    lbl = V.sym("AtomNumber", "str")
    has_lbl = V.choose([False, True], "AtomNumber")
    V.assume(z3.And(iso.z > 0, nh.z >= 0))
    at = {"id": "17", "p": "1.0 2.0"}
    if elt:
        at["Element"] = elt
    if has_iso:
        at["Isotope"] = itok(iso)
    if has_chg:
        at["Charge"] = itok(chg)
    if rad:
        at["Radical"] = rad
    if has_h:
        at["NumHydrogens"] = itok(nh)
    if ntype:
        at["NodeType"] = ntype
    if has_lbl:
        at["AtomNumber"] = lbl
    node = X.elem(I, "n", at)
    V.witness(lambda ev: {"op": "atom", "Element": elt, "Isotope": str(ev(iso) or 13) if has_iso else None, "Charge": str(ev(chg) or 0) if has_chg else None,
                          "Radical": rad, "NumHydrogens": str(ev(nh) or 0) if has_h else None, "AtomNumber": "7" if has_lbl else None, "NodeType": ntype,
                          "signature": f"atom/{rad}"})
    V.cover()
    out = V.method(self_obj(V), "_parse_atom_node", [node], qual=f"{CD}:CDXMLFile._parse_atom_node")
    V.ensure("post/returns-an-atom", z3.BoolVal(out.returned and isinstance(out.value, Obj) and out.value.cls.name == "Atom"))
    if not out.returned:
        return
    a = out.value
    E = V.cls("molli.chem.atom:Element")
    exp_el = I.call(I.getattr_(E, "get"), [int(elt) if elt else 6], {})
    V.ensure("post/drawn-element-(carbon-when-omitted)", z3.BoolVal(a.fields["element"] is exp_el))
    V.ensure("post/drawn-isotope", I.eq(a.fields["isotope"], iso) if has_iso else z3.BoolVal(a.fields["isotope"] is None))
    V.ensure("post/drawn-formal-charge", I.eq(a.fields["formal_charge"], chg) if has_chg else I.eq(a.fields["formal_charge"], 0))
    V.ensure("post/drawn-radical-count", I.eq(a.fields["formal_spin"], RADICAL[rad]))
    V.ensure("post/regular-atom-type", z3.BoolVal(getattr(a.fields["atype"], "name", None) == "Regular"))
    V.ensure("post/label-is-the-drawn-atom-number", I.eq(a.fields["label"], lbl) if has_lbl else z3.BoolVal(a.fields["label"] is None))
    hint = a.fields["attrib"]
    if has_h:
        # NumHydrogens="0" is a non-empty string: the hint is recorded for every written value
        ok = isinstance(hint, DictV) and len(hint.keys) == 1 and hint.keys[0] == "__implicit_hydrogens"
        V.ensure("post/hydrogen-hint-recorded", I.and_(z3.BoolVal(ok), I.eq(hint.vals[0], nh) if ok else False))
    else:
        V.ensure("post/no-hydrogen-hint", z3.BoolVal(isinstance(hint, DictV) and len(hint.keys) == 0))


@P.unit(f"{CD}:CDXMLFile._parse_atom_node", name="_parse_atom_node (attachment-point node types)")
def _atom_special(V):
    I, st = V.I, V.st
    ntype = V.choose(["ExternalConnectionPoint", "ExternalConnectionPoint#", "Fragment", "Nickname", "GenericNickname", "Unspecified"], "NodeType")
    has_lbl = V.choose([False, True], "AtomNumber")
    lbl, gn, txt, num = V.sym("AtomNumber", "str"), V.sym("GenericNickname", "str"), V.sym("text", "str"), V.sym("num", "str")
    V.assume(z3.Length(num.z) > 0)
    V.assume(z3.Length(lbl.z) > 0)
    at = {"id": "23", "p": "1.0 2.0", "NodeType": ntype.rstrip("#"), "Element": "6"}
    kids = []
    if ntype == "ExternalConnectionPoint#":
        at["ExternalConnectionNum"] = num
    if ntype == "GenericNickname":
        at["GenericNickname"] = gn
    if ntype == "Unspecified":
        kids = [X.elem(I, "t", {}, [X.elem(I, "s", {}, text=txt)])]
    if has_lbl:
        at["AtomNumber"] = lbl
    node = X.elem(I, "n", at, kids)
    V.cover()
    out = V.method(self_obj(V), "_parse_atom_node", [node], qual=f"{CD}:CDXMLFile._parse_atom_node")
    V.ensure("post/returns-an-atom", z3.BoolVal(out.returned and isinstance(out.value, Obj) and out.value.cls.name == "Atom"))
    if not out.returned:
        return
    a = out.value
    V.ensure("post/attachment-point-of-unknown-element", z3.BoolVal(getattr(a.fields["atype"], "name", None) == "AttachmentPoint"
                                                                   and getattr(a.fields["element"], "name", None) == "Unknown"))
    got = a.fields["label"]
    if ntype.startswith("ExternalConnectionPoint"):
        if has_lbl:
            exp = I.eq(got, lbl)
        elif ntype.endswith("#"):
            exp = I.eq(got, I.binop_add("AP", num)) if hasattr(I, "binop_add") else I.eq(got, SV(z3.Concat(z3.StringVal("AP"), num.z), "str"))
        else:
            exp = I.eq(got, "AP0")
    elif ntype in ("Fragment", "Nickname"):
        exp = I.eq(got, "23")
    elif ntype == "GenericNickname":
        exp = I.eq(got, gn)
    else:
        exp = I.eq(got, txt)
    V.ensure("post/attachment-point-label", exp)


# ------------------------------------------------------------------------------------------------------- bonds
ORDER = {None: "Single", "1": "Single", "2": "Double", "3": "Triple", "4": "Quadruple", "1.5": "Aromatic"}


@P.unit(f"{CD}:CDXMLFile._parse_bond", name="_parse_bond: drawn order, end points by node id")
def _bond(V):
    I, st = V.I, V.st
    order = V.choose([None, "1", "2", "3", "4", "1.5"], "Order")
    disp = V.choose([None, "Dash", "WedgeBegin", "WedgedHashBegin", "WedgeEnd", "WedgedHashEnd", "Bold", "Hash", "Wavy"], "Display")
    from contracts import mol as M
    a1, a2, a3 = [M.mk_atom(V, f"a{k}") for k in range(3)]
    idB, idE = V.choose([("1", "2"), ("3", "1")], "ends")
    at = {"id": "9", "B": idB, "E": idE}
    if order:
        at["Order"] = order
    if disp:
        at["Display"] = disp
    bd = X.elem(I, "b", at)
    idx = DictV([("1", a1), ("2", a2), ("3", a3)])
    V.witness(lambda ev: {"op": "bond", "Order": order, "Display": disp, "signature": f"bond/{order}/{disp}"})
    V.cover()
    out = V.method(self_obj(V), "_parse_bond", [bd, idx], qual=f"{CD}:CDXMLFile._parse_bond")
    V.ensure("post/returns-a-bond", z3.BoolVal(out.returned and isinstance(out.value, Obj) and out.value.cls.name == "Bond"))
    if not out.returned:
        return
    b = out.value
    byid = {"1": a1, "2": a2, "3": a3}
    V.ensure("post/end-points-are-the-drawn-nodes", z3.BoolVal(b.fields["a1"] is byid[idB] and b.fields["a2"] is byid[idE]))
    name = getattr(b.fields["btype"], "name", None)
    if disp == "Dash":
        V.ensure("post/dashed-bond-is-a-ligand-bond", z3.BoolVal(name == "Ligand"))
    else:
        V.ensure("post/drawn-order", z3.BoolVal(name == ORDER[order]))


# ------------------------------------------------------------------------------------------------------- fragments
MIRROR = {"WedgeBegin": "WedgedHashBegin", "WedgedHashBegin": "WedgeBegin", "WedgeEnd": "WedgedHashEnd", "WedgedHashEnd": "WedgeEnd",
          "Bold": "Hash", "Hash": "Bold"}


def frag_tree(V, I, displays, tag=""):
    """3 nodes (ids 1, 2, 3; p symbolic), 2 bonds 1-2 and 3-2 with the given Display attributes"""
    pos = {}
    nodes = []
    for k in ("1", "2", "3"):
        pos[k] = (V.st.ghost.setdefault(("c13", "px", k), V.sym(f"px{k}", "real")), V.st.ghost.setdefault(("c13", "py", k), V.sym(f"py{k}", "real")))
        nodes.append(X.elem(I, "n", {"id": k, "p": Opaque(f"obj:p{k}")}))
    bonds = []
    for bid, (B, E), d in zip(("10", "11"), (("1", "2"), ("3", "2")), displays):
        at = {"id": bid, "B": B, "E": E}
        if d:
            at["Display"] = d
        bonds.append(X.elem(I, "b", at))
    # a text child and a graphic that must be ignored
    extra = [X.elem(I, "graphic", {"id": "77"})]
    return X.elem(I, "fragment", {"id": "5"}, nodes[:2] + extra + bonds[:1] + nodes[2:] + bonds[1:]), pos


@P.unit(f"{CD}:CDXMLFile._parse_fragment", name="_parse_fragment: one atom per node, one bond per drawn bond, charge / multiplicity / name, stereo dispatch mirrored",
        functions=[f"{CD}:CDXMLFile._parse_fragment"])
def _fragment(V):
    I, st = V.I, V.st
    from contracts import mol as M
    d1 = V.choose([None, "WedgeBegin", "WedgedHashEnd", "Bold", "Dash"], "Display(bond 10)")
    d2 = V.choose([None, "WedgedHashBegin", "WedgeEnd", "Hash"], "Display(bond 11)")
    name = V.sym("name", "str")
    bl = V.sym("bond_length", "real")
    V.assume(bl.z > 0)
    fq = [V.sym(f"q{k}", "int") for k in range(3)]
    fs = [V.sym(f"s{k}", "int") for k in range(3)]
    V.assume(z3.And(*[s.z >= 0 for s in fs]))
    Atom = V.cls("molli.chem.atom:Atom")
    runs = []

    def run(displays):
        tree, pos = frag_tree(V, I, displays)
        made, calls, btypes = [], [], []

        def atom_stub(I_, f, args, kw):
            node = args[1]
            k = int(node.fields["_attrs"]["id"]) - 1
            a = I.call(Atom, [6], {"formal_charge": fq[k], "formal_spin": fs[k], "label": None})
            made.append((node, a))
            return a

        def pos_stub(I_, f, args, kw):
            k = args[0].fields["_attrs"]["id"]
            return pos[k]

        def d3_stub(I_, f, args, kw):
            calls.append((args[1], args[2], kw.get("sign")))
            return None
        I.stubs[f"{CD}:CDXMLFile._parse_atom_node"] = atom_stub
        I.stubs[f"{CD}:position"] = pos_stub
        I.stubs[f"{CD}:_cdxml_3dify_"] = d3_stub
        out = V.method(self_obj(V, bond_length=bl), "_parse_fragment", [tree], {"name": name}, qual=f"{CD}:CDXMLFile._parse_fragment")
        return out, made, calls, tree

    V.witness(lambda ev: {"op": "fragment", "d1": d1, "d2": d2, "signature": f"fragment/{d1}/{d2}"})
    V.cover()
    out, made, calls, tree = run((d1, d2))
    V.ensure("post/returns-a-molecule", z3.BoolVal(out.returned and isinstance(out.value, Obj) and out.value.cls.name == "Molecule"))
    if not out.returned:
        return
    m = out.value
    atoms = m.fields["_atoms"].items
    V.ensure("post/one-atom-per-drawn-node-in-document-order", z3.BoolVal(len(atoms) == 3 and len(made) == 3 and all(x is y[1] for x, y in zip(atoms, made))
                                                                         and [y[0].fields["_attrs"]["id"] for y in made] == ["1", "2", "3"]))
    bonds = m.fields["_bonds"].items
    ok = len(bonds) == 2 and len(atoms) == 3
    V.ensure("post/one-bond-per-drawn-bond-between-the-drawn-nodes", z3.BoolVal(ok and bonds[0].fields["a1"] is atoms[0] and bonds[0].fields["a2"] is atoms[1]
                                                                             and bonds[1].fields["a1"] is atoms[2] and bonds[1].fields["a2"] is atoms[1]))
    if ok:
        V.ensure("post/bond-order-as-drawn", z3.BoolVal(getattr(bonds[0].fields["btype"], "name", None) == ("Ligand" if d1 == "Dash" else "Single")
                                                        and getattr(bonds[1].fields["btype"], "name", None) == "Single"))
    V.ensure("post/total-charge-is-the-sum-of-formal-charges", I.eq(m.fields["charge"], SV(fq[0].z + fq[1].z + fq[2].z, "int")))
    V.ensure("post/multiplicity-is-radical-count-plus-one", I.eq(m.fields["mult"], SV(fs[0].z + fs[1].z + fs[2].z + 1, "int")))
    V.ensure("post/name-is-the-label", I.eq(m.fields["_name"] if "_name" in m.fields else m.fields.get("name"), name))
    co = m.fields["_coords"]
    V.ensure("post/coordinates-rectangular", z3.BoolVal(isinstance(co, NdArr) and NP.ashape(co) == (3, 3)))
    # stereo dispatch: which bond end is the narrow end, and the sign
    exp = []
    for (B, E), d in ((("1", "2"), d1), (("3", "2"), d2)):
        iB, iE = int(B) - 1, int(E) - 1
        tab = {"WedgeBegin": (iB, iE, 1), "WedgedHashBegin": (iB, iE, -1), "WedgeEnd": (iE, iB, 1), "WedgedHashEnd": (iE, iB, -1),
               "Bold": (iB, iE, 2), "Hash": (iB, iE, -2)}
        if d in tab:
            exp.append(tab[d])
    got = [(I.concretize_int(c[0]) if hasattr(I, "concretize_int") else c[0], c[1], c[2]) for c in calls]
    V.ensure("post/stereo-marks-dispatched-from-the-narrow-end-with-the-drawn-sense", z3.BoolVal([tuple(g) for g in got] == exp))
    # mirrored drawing: same constitution, every displacement request negated
    out2, made2, calls2, _ = run((MIRROR.get(d1, d1), MIRROR.get(d2, d2)))
    V.ensure("post/mirrored-drawing-parses", z3.BoolVal(out2.returned))
    if not out2.returned:
        return
    m2 = out2.value
    b2 = m2.fields["_bonds"].items
    at2 = m2.fields["_atoms"].items
    same = len(b2) == len(bonds) and len(at2) == len(atoms) and all(
        at2.index(x.fields["a1"]) == atoms.index(y.fields["a1"]) and at2.index(x.fields["a2"]) == atoms.index(y.fields["a2"])
        and x.fields["btype"] is y.fields["btype"] for x, y in zip(b2, bonds))
    V.ensure("post/mirroring-keeps-the-constitution", z3.BoolVal(same))
    V.ensure("post/mirroring-negates-every-displacement-request", z3.BoolVal(len(calls) == len(calls2) and all(
        c[0] == e[0] and c[1] == e[1] and c[2] == -e[2] for c, e in zip(calls, calls2))))
    V.ensure("post/mirroring-keeps-charge-and-multiplicity", I.and_(I.eq(m.fields["charge"], m2.fields["charge"]), I.eq(m.fields["mult"], m2.fields["mult"])))


# ------------------------------------------------------------------------------------------------------- out-of-plane displacement
@P.unit(f"{CD}:_cdxml_3dify_", name="_cdxml_3dify_: moves coordinates only, odd in the sign (ring / bold-hash branches), frame of the rotated substituent")
def _threedify(V):
    I, st = V.I, V.st
    from contracts import mol as M
    case = V.choose(["ring-bond/1", "chain-bond/2", "ring-bond/2", "chain-bond/1", "chain-bond-at-4-valent-centre/1"], "bond/|sign|")
    mag = int(case[-1])
    ring = case.startswith("ring")
    BONDS = ((0, 1), (1, 2), (2, 0), (0, 3), (1, 4), (3, 5))
    if "4-valent" in case:
        BONDS = BONDS + ((0, 4),)
    angles = []
    rot = [[V.sym(f"rot{i}{j}", "real") for j in range(3)] for i in range(3)]
    I.stubs["molli.math.plane:mean_plane"] = lambda I_, f, a, k: NP.mk([V.sym("nx", "real"), V.sym("ny", "real"), V.sym("nz", "real")], "float")
    I.stubs["molli.math.rotation:rotate_2dvec_outa_plane"] = lambda I_, f, a, k: angles.append(a[1]) or NP.mk([list(r) for r in rot], "float")
    res = {}
    for sgn in (+mag, -mag):
        m = M.mk_mol(V, "Molecule", 6, BONDS, name="m", labels=None)
        if sgn > 0:
            V.witness(lambda ev: {"op": "fragment", "d1": {1: "WedgeBegin", 2: "Bold"}[mag], "d2": None, "signature": f"3dify/{case}"})
            V.cover()
        before = [list(r) for r in m.fields["_coords"].data]
        atoms, bonds = list(m.fields["_atoms"].items), list(m.fields["_bonds"].items)
        i1, i2 = (0, 1) if ring else (0, 3)
        out = V.call(f"{CD}:_cdxml_3dify_", [m, i1, i2], {"sign": sgn})
        V.ensure(f"post/returns", z3.BoolVal(out.returned))
        if not out.returned:
            return
        V.ensure("post/graph-untouched", z3.BoolVal(len(m.fields["_atoms"].items) == 6 and all(x is y for x, y in zip(m.fields["_atoms"].items, atoms))
                                                    and len(m.fields["_bonds"].items) == len(BONDS) and all(x is y for x, y in zip(m.fields["_bonds"].items, bonds))))
        co = m.fields["_coords"]
        ok = isinstance(co, NdArr) and NP.ashape(co) == (6, 3)
        V.ensure("post/coordinates-stay-rectangular", z3.BoolVal(ok))
        if not ok:
            return
        res[sgn] = (before, [list(r) for r in co.data])
    (b1, a1), (b2, a2) = res[+mag], res[-mag]
    R = lambda x: to_z3(x, "real")
    same_start = z3.And(*[R(x) == R(y) for r1, r2 in zip(b1, b2) for x, y in zip(r1, r2)])
    if ring or mag == 2:
        odd = z3.And(*[R(a1[i][c]) - R(b1[i][c]) == -(R(a2[i][c]) - R(b2[i][c])) for i in range(6) for c in range(3)])
        V.ensure("post/displacement-is-odd-in-the-sign", z3.Implies(same_start, odd))
        V.ensure("post/in-plane-x-untouched", z3.And(*[R(a1[i][0]) == R(b1[i][0]) for i in range(6)]))
        # every atom hanging off the marked bond moves with it: the far end of the bond is displaced out of the plane
        far = 1 if ring else 3
        V.ensure("post/marked-bond-leaves-the-plane", R(a1[far][2]) - R(b1[far][2]) != 0)
        if mag == 2:
            V.ensure("post/bold-hash-displace-along-z-only", z3.And(*[R(a1[i][1]) == R(b1[i][1]) for i in range(6)]))
    else:
        import math
        want = math.radians(90) if "4-valent" in case else math.radians(60)
        V.ensure("post/out-of-plane-angle-is-odd-in-the-sign-with-the-documented-magnitude",
                 z3.BoolVal(len(angles) == 2) if len(angles) != 2 else z3.And(R(angles[0]) == z3.RealVal(repr(want)), R(angles[1]) == -z3.RealVal(repr(want))))
        # wedge on a chain bond 0->3: only the substituent reached through atom 3 (atoms 3, 5) is rotated about atom 0
        V.ensure("post/only-the-substituent-beyond-the-wide-end-moves", z3.And(*[R(a1[i][c]) == R(b1[i][c]) for i in (0, 1, 2, 4) for c in range(3)]))
        def rotated(after, before, i):
            v = [R(before[i][c]) - R(before[0][c]) for c in range(3)]
            # CartesianGeometry.transform applies  coords @ matrix  (row vectors)
            return z3.And(*[R(after[i][c]) == R(before[0][c]) + sum(v[k] * R(rot[k][c]) for k in range(3)) for c in range(3)])
        V.ensure("post/substituent-rotated-about-the-narrow-end", z3.And(rotated(a1, b1, 3), rotated(a1, b1, 5)))


# ------------------------------------------------------------------------------------------------------- label -> fragment
@P.unit(f"{CD}:CDXMLFile.__getitem__", name="__getitem__: group sibling, else the first candidate above the label; a label always resolves to the same fragment")
def _getitem(V):
    I, st = V.I, V.st
    layout = V.choose(["grouped", "free"], "label")
    order = V.choose([(0, 1), (1, 0)], "KD-tree candidate order")
    f0 = X.elem(I, "fragment", {"id": "100"}, [X.elem(I, "b", {"id": "1"})])
    f1 = X.elem(I, "fragment", {"id": "101"}, [X.elem(I, "b", {"id": "2"})])
    lab = X.elem(I, "t", {"id": "200"}, [X.elem(I, "s", {"face": "1"}, text="k1")])
    if layout == "grouped":
        grp = X.elem(I, "group", {}, [lab, f1])
        page = X.elem(I, "page", {}, [f0, grp])
    else:
        page = X.elem(I, "page", {}, [f0, f1, lab])
    ly = V.sym("label_y", "real")
    fy = [V.sym("frag0_y", "real"), V.sym("frag1_y", "real")]
    posmap = {id(lab): (V.sym("label_x", "real"), ly), id(f0): (V.sym("f0x", "real"), fy[0]), id(f1): (V.sym("f1x", "real"), fy[1])}
    I.stubs[f"{CD}:position"] = lambda I_, f, args, kw: posmap[id(args[0])]
    parsed = []

    def pf_stub(I_, f, args, kw):
        parsed.append((args[1], kw.get("name", args[2] if len(args) > 2 else None)))
        return Opaque(f"obj:mol{len(parsed)}")
    I.stubs[f"{CD}:CDXMLFile._parse_fragment"] = pf_stub
    nq = []

    def kd_query(i, a, k):
        nq.append(a[1])
        # a later query may answer differently (approximate / unordered ties): the second answer is reversed
        idx = order if len(nq) == 1 else tuple(reversed(order))
        return (Opaque("obj:dists"), ListV(list(idx)))
    KD = ClassV("KDTree", builtin=True, bases=[I.builtins["object"]])
    KD.compute_mro()
    KD.ns["query"] = Builtin("KDTree.query", kd_query)
    me = self_obj(V, xlabels=DictV([("k1", lab)]), xfrags=ListV([f0, f1]), xfrag_cache=DictV(), xfrag_kd=Obj(KD, {}, tag="kd"))
    V.witness(lambda ev: {"op": "getitem", "signature": "getitem"})
    V.cover()
    o1 = V.method(me, "__getitem__", ["k1"], qual=f"{CD}:CDXMLFile.__getitem__")
    o2 = V.method(me, "__getitem__", ["k1"], qual=f"{CD}:CDXMLFile.__getitem__")
    if True:
        # (ElementPath gives '..' no meaning at the context node, so `label.find("../fragment")` is always None and grouped labels
        #  resolve like free ones -- the statement asks for a stable resolution, which is what is proved)
        # candidates in the KD-tree's order; the first one whose centre is above the label (smaller y) wins, none -> KeyError
        c0, c1 = order
        above = [fy[c0].z < ly.z, fy[c1].z < ly.z]
        frs = [f0, f1]
        if o1.returned:
            got = parsed[0][0]
            V.ensure("post/first-candidate-above-the-label", z3.And(z3.Implies(above[0], z3.BoolVal(got is frs[c0])),
                                                                    z3.Implies(z3.And(z3.Not(above[0]), above[1]), z3.BoolVal(got is frs[c1])),
                                                                    z3.Or(above[0], above[1])))
        else:
            V.ensure("post/first-candidate-above-the-label", z3.And(z3.BoolVal(o1.raised(I, "KeyError")), z3.Not(above[0]), z3.Not(above[1])))
    if o1.returned:
        V.ensure("post/name-is-the-label", z3.BoolVal(parsed[0][1] == "k1"))
        V.ensure("post/same-label-same-fragment", z3.BoolVal(o2.returned and len(parsed) == 2 and parsed[1][0] is parsed[0][0] and parsed[1][1] == "k1"))
    # integer keys index the labels in document order
    o3 = V.method(me, "__getitem__", [0], qual=f"{CD}:CDXMLFile.__getitem__")
    if o1.returned:
        V.ensure("post/integer-key-is-the-nth-label", z3.BoolVal(o3.returned and parsed[-1][0] is parsed[0][0] and parsed[-1][1] == "k1"))


@P.unit(f"{CD}:CDXMLFile.__attrs_post_init__", name="CDXMLFile(path): labels and fragments discovered per file; two open files with the same label resolve independently",
        functions=[f"{CD}:CDXMLFile.__attrs_post_init__", f"{CD}:CDXMLFile.__getitem__", f"{CD}:validate_label", f"{CD}:validate_fragment", f"{CD}:CDXMLFile.keys"])
def _two_files(V):
    I, st = V.I, V.st
    obj = I.builtins["object"]

    def page(tagid):
        f0 = X.elem(I, "fragment", {"id": f"{tagid}0"}, [X.elem(I, "n", {"id": "1"}), X.elem(I, "b", {"id": "2"})])
        f1 = X.elem(I, "fragment", {"id": f"{tagid}1"}, [X.elem(I, "b", {"id": "3"})])
        junk = X.elem(I, "fragment", {"id": f"{tagid}9"}, [X.elem(I, "n", {"id": "4"})])          # no bond: not a chemical fragment
        lab = X.elem(I, "t", {"id": f"{tagid}5"}, [X.elem(I, "s", {"face": "1"}, text="k1")])
        lab2 = X.elem(I, "t", {"id": f"{tagid}6"}, [X.elem(I, "s", {"face": "1"}, text="k2")])
        cap = X.elem(I, "t", {"id": f"{tagid}7"}, [X.elem(I, "s", {"face": "0"}, text="caption")])   # not bold: not a label
        two = X.elem(I, "t", {"id": f"{tagid}8"}, [X.elem(I, "s", {"face": "1"}, text="x"), X.elem(I, "s", {"face": "1"}, text="y")])
        dup = X.elem(I, "t", {"id": f"{tagid}4"}, [X.elem(I, "s", {"face": "1"}, text="k1")])     # the label text "k1" used twice
        grp = X.elem(I, "group", {}, [f1, lab2])
        pg = X.elem(I, "page", {}, [f0, junk, lab, cap, two, dup, grp])
        root = X.elem(I, "CDXML", {"BondLength": "14.4"}, [pg])
        return root, f0, f1, lab, lab2

    trees = {}

    def et_parse(i, a, k):
        root = trees[a[0]][0]
        T_ = ClassV("ElementTree", builtin=True, bases=[obj])
        T_.compute_mro()
        T_.ns["getroot"] = Builtin("getroot", lambda i2, a2, k2: root)
        T_.ns["findall"] = Builtin("findall", lambda i2, a2, k2: ListV(X.select(root, a2[1])))
        T_.ns["find"] = Builtin("find", lambda i2, a2, k2: (X.select(root, a2[1]) or [None])[0])
        return Obj(T_, {}, tag="etree")
    I.ext_models["xml.etree.cElementTree.parse"] = Builtin("et.parse", et_parse)
    ys = {}

    def pos_stub(I_, f, args, kw):
        n = args[0]
        return ys.setdefault(id(n), (V.sym(f"x{len(ys)}", "real"), V.sym(f"y{len(ys)}", "real")))
    I.stubs[f"{CD}:position"] = pos_stub
    parsed = []
    I.stubs[f"{CD}:CDXMLFile._parse_fragment"] = lambda I_, f, args, kw: parsed.append((args[0], args[1], kw.get("name"))) or Opaque(f"obj:mol{len(parsed)}")
    KD = ClassV("KDTree", builtin=True, bases=[obj])
    KD.compute_mro()
    KD.ns["__pyvc_new__"] = lambda i, c, a, k: Obj(KD, {"pts": a[0]}, tag="kdtree")
    KD.ns["query"] = Builtin("KDTree.query", lambda i, a, k: (Opaque("obj:dd"), ListV([0, 1])))
    I.ext_models["scipy.spatial.KDTree"] = KD
    I.ext_models["warnings.warn"] = Builtin("warn", lambda i, a, k: None)
    trees["a.cdxml"] = page("a")
    trees["b.cdxml"] = page("b")
    trees["c.cdxml"] = page("c")
    cls = V.cls(f"{CD}:CDXMLFile")
    V.witness(lambda ev: {"op": "getitem", "signature": "two-files"})
    V.cover()
    try:
        fa = I.call(cls, ["a.cdxml"], {})
        fb = I.call(cls, ["b.cdxml"], {})
        fc = I.call(cls, ["c.cdxml"], {})
    except PyExc as ex:
        V.ensure("files/open", z3.BoolVal(False), raised=repr(ex.value) + repr(getattr(ex.value, "fields", None)))
        return
    V.ensure("files/open", z3.BoolVal(True))
    for nm, f_, (root, f0, f1, lab, lab2) in (("a", fa, trees["a.cdxml"]), ("b", fb, trees["b.cdxml"]), ("c", fc, trees["c.cdxml"])):
        xl, xf = f_.fields.get("xlabels"), f_.fields.get("xfrags")
        V.ensure(f"files/{nm}:labels-are-the-bold-single-run-text-boxes-first-occurrence-kept", z3.BoolVal(isinstance(xl, DictV) and xl.keys == ["k1", "k2"] and xl.vals[0] is lab and xl.vals[1] is lab2))
        V.ensure(f"files/{nm}:fragments-are-those-with-a-bond-in-page-then-group-order", z3.BoolVal(isinstance(xf, ListV) and len(xf.items) == 2 and xf.items[0] is f0 and xf.items[1] is f1))
        V.ensure(f"files/{nm}:bond-length-read-from-the-document", I.eq(f_.fields.get("bond_length"), 14.4))
    # the same label in two open files: each resolves inside its own file, whatever was asked of the other one before
    # (label above both candidate fragments is excluded: that is the KeyError path, covered by the __getitem__ unit)
    la, lb = ys.get(id(trees["a.cdxml"][3])), ys.get(id(trees["b.cdxml"][3]))
    for (root, f0, f1, lab, lab2) in trees.values():
        V.assume(z3.And(ys[id(f0)][1].z < ys.setdefault(id(lab), (V.sym("lx", "real"), V.sym(f"ly{len(ys)}", "real")))[1].z))
    r1 = V.method(fa, "__getitem__", ["k1"], qual=f"{CD}:CDXMLFile.__getitem__")
    r2 = V.method(fb, "__getitem__", ["k1"], qual=f"{CD}:CDXMLFile.__getitem__")
    r3 = V.method(fa, "__getitem__", ["k1"], qual=f"{CD}:CDXMLFile.__getitem__")
    ok = r1.returned and r2.returned and r3.returned and len(parsed) == 3
    V.ensure("files/lookups-return", z3.BoolVal(ok))
    # the resolution of a label does not depend on which other labels were looked up before it
    n0 = len(parsed)
    rk2 = V.method(fc, "__getitem__", ["k2"], qual=f"{CD}:CDXMLFile.__getitem__")
    rk1 = V.method(fc, "__getitem__", ["k1"], qual=f"{CD}:CDXMLFile.__getitem__")
    V.ensure("files/label-resolution-is-independent-of-earlier-lookups",
             z3.BoolVal(rk1.returned and len(parsed) >= n0 + 1 and parsed[-1][0] is fc and parsed[-1][1] is trees["c.cdxml"][1] and parsed[-1][2] == "k1"))
    if ok:
        V.ensure("files/each-file-resolves-its-own-fragment", z3.BoolVal(parsed[0][0] is fa and parsed[0][1] is trees["a.cdxml"][1]
                                                                        and parsed[1][0] is fb and parsed[1][1] is trees["b.cdxml"][1]
                                                                        and parsed[2][1] is trees["a.cdxml"][1]))


@P.bounded_standin("bundled drawings: constitution oracle, determinism, wedge<->hash mirroring on the real reader (CPython)",
                   "every labelled fragment of the 7 bundled CDXML files (116 fragments, hapto fragments excluded); mirrored variant of each; no permuted/renumbered variants")
def _bounded(seed):
    import subprocess, json, os
    here = os.path.dirname(os.path.dirname(os.path.abspath(__file__)))
    r = subprocess.run(["/venv/bin/python", os.path.join(here, "replay", "C13.py"), "--bounded", str(seed)], capture_output=True, text=True, timeout=3000,
                       env={**os.environ, "PYTHONPATH": os.environ.get("PYVC_REPO", "/repo")})
    try:
        return json.loads(r.stdout.strip().splitlines()[-1])
    except Exception:
        return {"error": (r.stdout + r.stderr)[-500:]}


# the out-of-plane rotation of a wedged substituent takes its axis from mean_plane: that contract is part of this claim
from contracts import C16_hydrogens as C16
P.include(C16.P, ["mean_plane: the singular vector"], why="normal of the drawing plane at a stereo centre")
