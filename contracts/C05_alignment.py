"""C05 -- atoms, bonds, coordinates and charges stay aligned under every edit history.

Class invariant WF (contracts/mol.py): one coordinate row and one numeric charge per atom, keyed by atom
identity through ghost maps (each atom keeps the coordinate/charge it was given), bonds join atoms of
the molecule, parents and indices are right.  Each edit operation of the cooperative class chain
Molecule -> Structure -> CartesianGeometry -> Connectivity -> Promolecule is executed symbolically on a
molecule whose *values* are symbolic (elements, labels, coordinates, charges, indices, AtomLike
alternatives) and whose container sizes are fixed per unit (3 atoms / 2 bonds, plus 0- and 1-atom
edge cases): WF is proved on every exit, normal and exceptional; induction over the edit history.
"""
import z3
from pyvc.spec import *
from pyvc.values import *
from pyvc.ops import to_z3
from pyvc import npmodel as NP
from contracts import mol as M

P = Property("C05", "atoms, bonds, coordinates and charges stay aligned")
P.trust("numpy: np.append/np.delete/np.array on axis 0 (row semantics), broadcasting assignment")
P.assume("container sizes are fixed per unit (0..3 atoms, 0..2 bonds): values, indices and AtomLike alternatives are symbolic; "
         "the history quantifier is discharged by induction on WF (each operation preserves it on every exit)")
MOL = M.CLS["Molecule"]
KINDS = ["Molecule", "Structure"]


BIG = [(5, ((0, 1), (1, 2), (2, 3), (3, 4), (4, 0))), (4, ((0, 1), (0, 1), (2, 3)))]       # thorough tier only


def sizes(V):
    return V.choose([(3, ((0, 1), (1, 2))), (1, ()), (0, ())] + (BIG if V.tier == "thorough" else []), "size")


def indices_ok(V, m, label):
    """a.idx and get_atom_index agree with the position of each atom"""
    I = V.I
    for j, a in enumerate(m.fields["_atoms"].items):
        r = V.method(a, "idx")
        idx = I.getattr_(a, "idx") if False else None
    ok = True
    for j, a in enumerate(m.fields["_atoms"].items):
        try:
            v = I.getattr_(a, "idx")
        except PyExc:
            ok = False
            continue
        ok = ok and (v == j)
    V.ensure(f"{label}/every-atom-reports-its-index", z3.BoolVal(bool(ok)))


def _first_match(I, atoms, pred, removed):
    """formula: `removed` is the first atom satisfying pred"""
    fs = []
    for a in atoms:
        if a is removed:
            fs.append(pred(a))
            return I.and_(*fs)
        fs.append(I.not_(pred(a)))
    return False


# ------------------------------------------------------------------------------------------ add_atom / new_atom
def add_unit(kind):
    def body(V):
        I, st = V.I, V.st
        k, bonds = sizes(V)
        m = M.mk_mol(V, kind, k, bonds)
        g = M.Ghost(m)
        before = M.snapshot(m)
        a = M.mk_atom(V, "new", parent=None)
        ncoord = V.choose([3, 2, "1x3", "3x1"], "coord-length")
        cs = [V.sym(f"c{i}", "real") for i in range(3)]
        if ncoord == "1x3":
            coord = ListV([ListV(cs)])                      # three numbers, but not a 3-vector
        elif ncoord == "3x1":
            coord = ListV([ListV([c]) for c in cs])
        else:
            coord = ListV(cs[:ncoord])
        args = [a, coord]
        charge = "absent"
        if kind == "Molecule":
            charge = V.choose(["given", "omitted", "explicit-None"], "charge")
            if charge == "given":
                charge = V.sym("q", "real")
                args.append(charge)
            elif charge == "explicit-None":
                args.append(None)             # "no charge known": the row must still be a number
                charge = "omitted"
        V.witness(lambda ev: {"op": "add_atom", "kind": kind, "k": k, "coord_len": ncoord,
                              "charge": "omitted" if charge == "omitted" else "given", "signature": f"add_atom/{kind}"})
        V.cover()
        out = V.method(m, "add_atom", args, qual=f"{M.CLS[kind]}.add_atom")
        if out.returned:
            V.ensure("post/returns-only-for-a-3-vector", z3.BoolVal(ncoord == 3))
            g.coord[id(a)] = list(coord.items)
            if kind == "Molecule":
                g.charge[id(a)] = charge if isinstance(charge, SV) else "any-number"
            al = m.fields["_atoms"].items
            V.ensure("post/atom-appended-last", z3.BoolVal(al[:-1] == before["atoms"] and al[-1] is a and len(al) == k + 1))
            if kind == "Molecule" and not isinstance(charge, SV):
                # default charge: any number is acceptable, but it must be a number
                q = m.fields["_atomic_charges"]
                if q.data is not None and len(q.data) == k + 1 and q.data[-1] is not None:
                    g.charge[id(a)] = q.data[-1]
            M.ensure_wf(V, m, g, "post/wf")
            indices_ok(V, m, "post")
        else:
            V.ensure("post-exc/only-ValueError-for-a-bad-coordinate", z3.BoolVal(ncoord != 3 and out.raised(I, "ValueError")))
            M.ensure_wf(V, m, g, "post-exc/wf")
            V.ensure("post-exc/failed-edit-changes-nothing", M.same_snapshot(I, before, M.snapshot(m)))
    return body


for _k in KINDS:
    P.unit(f"{M.CLS[_k]}.add_atom", name=f"{_k}.add_atom",
           functions=[f"{M.CLS[_k]}.add_atom", f"{M.CLS['CartesianGeometry']}.add_atom", f"{M.CLS['Promolecule']}.append_atom"])(add_unit(_k))


@P.unit(f"{M.CLS['CartesianGeometry']}.new_atom", name="Molecule.new_atom")
def _new_atom(V):
    I, st = V.I, V.st
    k, bonds = sizes(V)
    m = M.mk_mol(V, "Molecule", k, bonds)
    g = M.Ghost(m)
    E = V.cls("molli.chem.atom:Element")
    el = V.sym_enum("el", E)
    default_coord = V.choose([True, False], "default-coord")
    kw = {}
    if not default_coord:
        kw["coord"] = ListV([V.sym(f"c{i}", "real") for i in range(3)])
    V.witness(lambda ev: {"op": "new_atom", "k": k, "signature": "new_atom"})
    V.cover()
    out = V.method(m, "new_atom", [el], kw, qual=f"{M.CLS['CartesianGeometry']}.new_atom")
    V.ensure("post/returns", z3.BoolVal(out.returned))
    if out.returned:
        a = out.value
        al = m.fields["_atoms"].items
        V.ensure("post/new-atom-appended-last", z3.BoolVal(len(al) == k + 1 and al[-1] is a))
        V.ensure("post/element-as-requested", I.eq(a.fields["element"], el))
        g.coord[id(a)] = list(kw["coord"].items) if kw else [0, 0, 0]
        q = m.fields["_atomic_charges"]
        if q.data is not None and len(q.data) == k + 1 and q.data[-1] is not None:
            g.charge[id(a)] = q.data[-1]
        M.ensure_wf(V, m, g, "post/wf")
        indices_ok(V, m, "post")


# ------------------------------------------------------------------------------------------ del_atom
def del_unit(kind):
    def body(V):
        I, st = V.I, V.st
        k, bonds = V.choose([(3, ((0, 1), (1, 2))), (3, ((0, 1), (0, 1))), (1, ())] + (BIG if V.tier == "thorough" else []), "size")
        m = M.mk_mol(V, kind, k, bonds)
        g = M.Ghost(m)
        before = M.snapshot(m)
        atoms = list(before["atoms"])
        how = V.choose(["atom", "foreign-atom", "int", "str", "element"], "AtomLike")
        E = V.cls("molli.chem.atom:Element")
        if how == "atom":
            x = atoms[V.choose(list(range(k)), "which")]
            pred = lambda a: a is x
        elif how == "foreign-atom":
            x = M.mk_atom(V, "foreign")
            pred = lambda a: False
        elif how == "int":
            x = V.sym("i", "int")
            pred = None
        elif how == "str":
            x = V.sym("lbl", "str")
            pred = lambda a: I.eq(a.fields["label"], x)
        else:
            x = V.sym_enum("e", E)
            pred = lambda a: I.eq(a.fields["element"], x)
        V.witness(lambda ev: {"op": "del_atom", "kind": kind, "k": k, "how": how,
                              "i": ev(x) if how == "int" else None,
                              "elements": [ev(a.fields["element"]) for a in atoms], "e": ev(x) if how == "element" else None,
                              "labels_equal": [bool(ev(I.eq(a.fields["label"], x))) for a in atoms] if how == "str" else None,
                              "signature": f"del_atom/{kind}/{how}"})
        V.cover()
        out = V.method(m, "del_atom", [x], qual=f"{M.CLS[kind]}.del_atom")
        al = m.fields["_atoms"].items
        if out.returned:
            removed = [a for a in atoms if not any(a is b for b in al)]
            V.ensure("post/exactly-one-atom-removed-order-kept",
                     z3.BoolVal(len(removed) == 1 and len(al) == k - 1 and [a for a in atoms if a is not removed[0]] == al if removed else False))
            if len(removed) == 1:
                r = removed[0]
                if how == "int":
                    zi = to_z3(x, "int")
                    pos = atoms.index(r)
                    V.ensure("post/removed-the-atom-at-that-index", z3.Or(zi == pos, zi == pos - k))
                else:
                    V.ensure("post/removed-the-atom-the-argument-denotes", _first_match(I, atoms, pred, r))
                if "bonds" in before:
                    keep = [b for b, (p, q) in zip(before["bonds"], before["ends"]) if p is not r and q is not r]
                    V.ensure("post/deletes-exactly-its-bonds", z3.BoolVal(m.fields["_bonds"].items == keep))
            M.ensure_wf(V, m, g, "post/wf")
            indices_ok(V, m, "post")
        else:
            if how == "int":
                zi = to_z3(x, "int")
                # negative indices are not promised by the statement ("by index"): they may be rejected, but a
                # non-negative index inside the molecule must be accepted
                V.ensure("post-exc/raises-only-without-such-atom", z3.Or(zi >= k, zi < 0))
            elif pred is not None:
                V.ensure("post-exc/raises-only-without-such-atom", I.and_(*[I.not_(pred(a)) for a in atoms]))
            M.ensure_wf(V, m, g, "post-exc/wf")
            V.ensure("post-exc/failed-edit-changes-nothing", M.same_snapshot(I, before, M.snapshot(m)))
    return body


for _k in KINDS:
    P.unit(f"{M.CLS[_k]}.del_atom", name=f"{_k}.del_atom",
           functions=[f"{M.CLS[_k]}.del_atom", f"{M.CLS['Structure']}.del_atom", f"{M.CLS['CartesianGeometry']}.del_atom",
                      f"{M.CLS['Connectivity']}.del_atom", f"{M.CLS['Promolecule']}.del_atom", f"{M.CLS['Promolecule']}.get_atom",
                      f"{M.CLS['Promolecule']}.get_atom_index", f"{M.CLS['Connectivity']}.bonds_with_atom",
                      f"{M.CLS['Promolecule']}.yield_atoms_by_element", f"{M.CLS['Promolecule']}.yield_atoms_by_label"])(del_unit(_k))


# ------------------------------------------------------------------------------------------ bonds
@P.unit(f"{M.CLS['Connectivity']}.connect", name="Molecule.connect")
def _connect(V):
    I, st = V.I, V.st
    k, bonds = V.choose([(3, ((0, 1),)), (2, ())], "size")
    m = M.mk_mol(V, "Molecule", k, bonds)
    g = M.Ghost(m)
    before = M.snapshot(m)
    i, j = V.sym("i", "int"), V.sym("j", "int")
    V.assume(z3.And(i.z >= 0, i.z < k, j.z >= 0, j.z < k))
    V.witness(lambda ev: {"op": "connect", "k": k, "i": ev(i), "j": ev(j), "signature": "connect"})
    V.cover()
    out = V.method(m, "connect", [i, j], qual=f"{M.CLS['Connectivity']}.connect")
    V.ensure("post/returns", z3.BoolVal(out.returned))
    if out.returned:
        b = out.value
        bl = m.fields["_bonds"].items
        V.ensure("post/one-bond-appended", z3.BoolVal(bl[:-1] == before["bonds"] and bl[-1] is b))
        a1, a2 = b.fields["a1"], b.fields["a2"]
        V.ensure("post/endpoints-are-the-requested-atoms",
                 z3.And(z3.Or(*[z3.And(i.z == p, z3.BoolVal(a1 is before["atoms"][p])) for p in range(k)]),
                        z3.Or(*[z3.And(j.z == p, z3.BoolVal(a2 is before["atoms"][p])) for p in range(k)])))
        V.ensure("post/atoms-untouched", z3.BoolVal(m.fields["_atoms"].items == before["atoms"]))
        M.ensure_wf(V, m, g, "post/wf")


def append_bond_unit(variant):
    def body(V):
        I, st = V.I, V.st
        kind = V.choose(KINDS, "class")
        m = M.mk_mol(V, kind, 3, ((0, 1),))
        g = M.Ghost(m)
        before = M.snapshot(m)
        atoms = before["atoms"]
        foreign = V.choose([False, True, "formerly-own", "own-but-parent-elsewhere"], "foreign-endpoint")
        # "formerly-own": an atom that was deleted from this molecule earlier in the history (del_atom leaves its parent pointer alone)
        # "own-but-parent-elsewhere": the molecule's own atoms were also used to build another object with copy_atoms=False, which
        #   re-pointed their parent references; they are still atoms of this molecule and must not be adopted a second time
        if foreign == "own-but-parent-elsewhere":
            other = M.mk_mol(V, "Molecule", 0, (), name="other")
            for a_ in atoms:
                a_.fields["_parent"] = Obj(I.WeakrefCls, {"ref": other}, tag="weakref")
            foreign = False
            a2 = atoms[2]
            elsewhere = True
        else:
            elsewhere = False
            a2 = M.mk_atom(V, "foreign", parent=(m if foreign == "formerly-own" else None)) if foreign else atoms[2]
        b1 = M.mk_bond(V, "nb1", atoms[1], a2)
        V.witness(lambda ev: {"op": variant, "kind": kind, "foreign": bool(foreign), "formerly_own": foreign == "formerly-own", "parent_elsewhere": elsewhere,
                              "signature": f"{variant}/{'foreign' if foreign else 'own'}"})
        V.cover()
        if variant == "append_bond":
            out = V.method(m, "append_bond", [b1], qual=f"{M.CLS['Connectivity']}.append_bond")
            new = [b1]
        elif variant == "append_bonds":
            b2 = M.mk_bond(V, "nb2", atoms[0], atoms[2])
            out = V.method(m, "append_bonds", [b1, b2], qual=f"{M.CLS['Connectivity']}.append_bonds")
            new = [b1, b2]
        else:
            b2 = M.mk_bond(V, "nb2", atoms[0], atoms[2])
            # extend_bonds takes any iterable: a list, or a one-shot iterator (generator / map), which can be walked only once
            how = V.choose(["list", "one-shot-iterator"], "iterable")
            arg = ListV([b1, b2]) if how == "list" else IterV(iter([b1, b2]))
            out = V.method(m, "extend_bonds", [arg], qual=f"{M.CLS['Connectivity']}.extend_bonds")
            new = [b1, b2]
        V.ensure("post/returns", z3.BoolVal(out.returned))
        if out.returned:
            V.ensure("post/bonds-appended-in-order", z3.BoolVal(m.fields["_bonds"].items == before["bonds"] + new))
            okp = True
            for b_ in new:
                try:
                    okp = okp and I.getattr_(b_, "parent") is m
                except PyExc:
                    okp = False
            V.ensure("post/new-bonds-belong-to-the-molecule", z3.BoolVal(bool(okp)))
            if not foreign:
                V.ensure("post/atoms-untouched", z3.BoolVal(m.fields["_atoms"].items == atoms))
            else:
                # an adopted atom was given no coordinate / charge: any (numeric) row is acceptable for it
                al = m.fields["_atoms"].items
                V.ensure("post/foreign-endpoint-adopted-once", z3.BoolVal(al[:3] == atoms and al[3:] == [a2]))
                if len(al) == 4:
                    c = m.fields["_coords"]
                    if c.data is not None and len(c.data) == 4:
                        g.coord[id(a2)] = list(c.data[3])
                    q = m.fields.get("_atomic_charges")
                    if q is not None and q.data is not None and len(q.data) == 4 and q.data[3] is not None:
                        g.charge[id(a2)] = q.data[3]
            # (parent pointers that were re-pointed elsewhere before the call are not this operation's to repair)
            M.ensure_wf(V, m, g, "post/wf", skip=("reports-this-parent", "parent") if elsewhere else ())
    return body


for _v in ("append_bond", "append_bonds", "extend_bonds"):
    P.unit(f"{M.CLS['Connectivity']}.{_v}", name=f"{_v}")(append_bond_unit(_v))


@P.unit(f"{M.CLS['Connectivity']}.del_bond", name="Molecule.del_bond")
def _del_bond(V):
    I, st = V.I, V.st
    bonds = V.choose([((0, 1), (1, 2)), ((0, 1), (1, 0), (1, 2))], "bonds")
    m = M.mk_mol(V, "Molecule", 3, bonds)
    g = M.Ghost(m)
    before = M.snapshot(m)
    which = V.choose(list(range(len(bonds))) + ["foreign"], "which")
    b = before["bonds"][which] if which != "foreign" else M.mk_bond(V, "fb", before["atoms"][0], before["atoms"][2])
    V.witness(lambda ev: {"op": "del_bond", "which": which, "signature": "del_bond"})
    V.cover()
    out = V.method(m, "del_bond", [b], qual=f"{M.CLS['Connectivity']}.del_bond")
    bl = m.fields["_bonds"].items
    if out.returned:
        removed = [x for x in before["bonds"] if not any(x is y for y in bl)]
        ok = len(removed) == 1 and len(bl) == len(bonds) - 1
        V.ensure("post/exactly-one-bond-removed", z3.BoolVal(ok))
        if ok:
            r = removed[0]
            same_ends = {id(r.fields["a1"]), id(r.fields["a2"])} == {id(b.fields["a1"]), id(b.fields["a2"])}
            V.ensure("post/removed-bond-joins-the-same-atoms", z3.BoolVal(same_ends))
        V.ensure("post/atoms-untouched", z3.BoolVal(m.fields["_atoms"].items == before["atoms"]))
        M.ensure_wf(V, m, g, "post/wf")
    else:
        V.ensure("post-exc/raises-only-for-an-absent-bond", z3.BoolVal(which == "foreign"))
        V.ensure("post-exc/failed-edit-changes-nothing", M.same_snapshot(I, before, M.snapshot(m)))
