"""C03 -- a crash while appending never damages committed records or shows a torn one.

A crash image is  F = header + n complete records + torn tail, where the torn tail is a proper
prefix of one record encoding (assumption: bytes reach the file in program order, so a killed
append session leaves a prefix of the byte stream it wrote; complete records of the interrupted
session are simply part of the n complete records).  Proved for every such F (all crash offsets,
all record sizes, any n): reopening indexes exactly the complete records, never the torn one;
for *every* byte string at all, no indexed record extends past the end of the file; opening for
append re-establishes Sync (torn tail removed), which is put's precondition (C02), so further
appends read back correctly.
"""
import z3
from pyvc.spec import *
from pyvc.values import *
from pyvc import filemodel as FM
from pyvc.filemodel import bslice, bwrite, btrunc, pack_BI, bz, pack_FH, unp_FH_s, unp_FH_H, unp_FH_I
from pyvc.ops import blen, to_z3
from contracts import ukv as U
from contracts.ukv import UKV, Chain
from contracts import C02_ukv_map as C02

P = Property("C03", "crash while appending: committed records intact, torn record invisible")
P.trust("OS/BufferedRandom: a killed process leaves a prefix of the bytes it wrote, in program order (crash image = prefix)")
P.trust("io + struct models as in C02")
P.assume("after recovery the handle is Sync, which is the precondition of UKVFile.put proved in C02 (composition)")


@P.setup
def _setup(I):
    U.install_map_blocks_spec(I)


@P.unit(f"{UKV}.map_blocks", name="map_blocks[crash-image]")
def _mb_crash(V):
    I, st = V.I, V.st
    cell, h, F, ch, bof, m, kind, mode = C02.pre_chain_file(V, tail="torn")
    hdr = bslice(F, ch.P[ch.n], 5)
    V.witness(lambda ev: {"op": "crash-image", "n": ev(ch.n), "tail": ev(blen(F) - ch.P[ch.n]),
                          "torn_klen": ev(FM.unp_B(hdr)), "torn_vlen": ev(FM.unp_I(hdr)), "handle": kind, "mode": mode,
                          "signature": "torn-tail"})
    V.cover()
    out = V.method(h, "map_blocks", [], qual=f"{UKV}.map_blocks")
    V.ensure("post/no-exception", z3.BoolVal(out.returned))
    if out.returned:
        C02.post_indexed(V, h, F, ch, bof, label="post[crash-image]")
        V.ensure("frame/file-unchanged", bz(cell.fields["content"]) == F)


@P.unit(f"{UKV}.map_blocks", name="map_blocks[any-file]")
def _mb_any(V):
    """no well-formedness precondition at all: safety of the index for every byte string"""
    I, st = V.I, V.st
    FM.use_theory(st)
    U.install_open_hook(st)
    cell = FM.new_file_cell(I, "F")
    mode = V.choose(["a", "r"], "mode")
    h = U.mk_handle(V, cell, mode=mode, name="h")
    F = bz(cell.fields["content"])
    bof = U.bof_of(h)
    h.fields["_toc"] = U.empty_toc(I)
    h.fields["_eof"] = None
    h.fields["_last"] = None
    V.assume(bof <= blen(F))
    st.ghost["mb"] = {"ch": None, "F": F, "bof": bof, "m": z3.IntVal(0), "mode": "any"}
    V.witness(lambda ev: {"op": "any-file", "flen": ev(blen(F)), "bof": ev(bof), "signature": "any-file"})
    V.cover()
    out = V.method(h, "map_blocks", [], qual=f"{UKV}.map_blocks")
    V.ensure("post[any-file]/no-exception", z3.BoolVal(out.returned))
    if out.returned:
        t = U.toc_of(h)
        k = st.fresh("k", BytesS)
        V.ensure("post[any-file]/every-indexed-record-lies-inside-the-file",
                 z3.Implies(t.has[k], z3.And(t.vals["pos"][k] >= bof, t.vals["key_len"][k] >= 0, t.vals["record_len"][k] >= 0,
                                             t.vals["pos"][k] + 5 + t.vals["key_len"][k] + t.vals["record_len"][k] <= blen(F))))
        V.ensure("post[any-file]/eof-inside-the-file", to_z3(h.fields["_eof"], "int") <= blen(F))


file_with_header = U.file_with_header


@P.unit(f"{UKV}.open", name="open[recover]", functions=[f"{UKV}.open", f"{UKV}.read_header", f"{UKV}._unpack_read", f"{UKV}._bof"])
def _open_recover(V):
    """reopen ('r' or 'a') a closed handle -- fresh or stale -- on a crash image or a clean file"""
    I, st = V.I, V.st
    FM.use_theory(st)
    U.install_open_hook(st)
    cell = FM.new_file_cell(I, "F")
    F = bz(cell.fields["content"])
    H1, H2, B0, bof = file_with_header(V, cell)
    mode = V.choose(["a", "r"], "mode")
    kind = V.choose(["stale", "fresh"], "handle")
    tail = V.choose(["torn", "clean"], "tail")
    h = U.mk_handle(V, cell, mode=mode, closed=True, name="h")
    ch = Chain(st, "c")
    V.assume(ch.wf(F, bof))
    if tail == "clean":
        V.assume(ch.P[ch.n] == blen(F))
    else:
        T = blen(F) - ch.P[ch.n]
        hdr = bslice(F, ch.P[ch.n], 5)
        V.assume(z3.And(T > 0, z3.Or(T < 5, ch.P[ch.n] + 5 + FM.unp_B(hdr) + FM.unp_I(hdr) > blen(F))))
    if kind == "fresh":
        m = z3.IntVal(0)
        h.fields["_toc"] = U.empty_toc(I)
        h.fields["_eof"] = None
        h.fields["_last"] = None
    else:
        # a stale handle was indexed on this very file: its header fields are the file's
        m = st.fresh("m", z3.IntSort())
        h.fields["h2"] = SV(H2, "bytes")
        h.fields["b0"] = SV(B0, "bytes")
        V.assume(U.idx_inv(h, F, ch, m, last=False))
        V.assume(U.last_ok(h))
    st.ghost["mb"] = {"ch": ch, "F": F, "bof": bof, "m": m, "mode": "chain"}
    V.witness(lambda ev: {"op": "recover", "n": ev(ch.n), "tail": ev(blen(F) - ch.P[ch.n]), "mode": mode, "handle": kind,
                          "torn_klen": ev(FM.unp_B(bslice(F, ch.P[ch.n], 5))), "torn_vlen": ev(FM.unp_I(bslice(F, ch.P[ch.n], 5))),
                          "signature": "recover"})
    V.cover()
    out = V.method(h, "open", [mode], qual=f"{UKV}.open")
    V.ensure("post/no-exception", z3.BoolVal(out.returned))
    if not out.returned:
        return
    F2 = bz(cell.fields["content"])
    V.ensure("post/open", z3.BoolVal(h.fields["_closed"] is False and not h.fields["_stream"].fields["closed"]))
    V.ensure("post/headers-read-back", z3.And(bz(h.fields["h2"]) == H2, bz(h.fields["b0"]) == B0, bz(h.fields["h1"]) == FM.pad16(H1)))
    C02.post_indexed(V, h, F2, ch, bof, label="post[recover]")
    o, l = st.fresh("o", z3.IntSort()), st.fresh("l", z3.IntSort())
    V.ensure("post/committed-bytes-untouched",
             z3.Implies(z3.And(o >= 0, l >= 0, o + l <= ch.P[ch.n]), bslice(F2, o, l) == bslice(F, o, l)))
    if mode == "a":
        # Sync: the torn tail does not survive, so the next put appends right after the last complete record
        V.ensure("post[append]/sync:eof-is-end-of-file", ch.P[ch.n] == blen(F2))
        j = st.fresh("j", z3.IntSort())
        for lab, f in ch.wf_at(F2, bof, j):
            V.ensure(f"post[append]/chain-still-well-formed/{lab}", z3.Implies(z3.And(j >= 0, j < ch.n), f))
    else:
        V.ensure("post[read]/file-unchanged", F2 == F)


# after recovery the handle is Sync, which is put's precondition: the C02 contracts of put/get are part of this claim
P.include(C02.P, ["molli.storage.ukvfile:UKVFile.put", "molli.storage.ukvfile:UKVFile.get"], why="appends after recovery read back")
