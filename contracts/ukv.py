"""Shared specification vocabulary for the UKV byte store (C02, C03, C04).

Abstract view of a file F (a Bytes value): header (h1,h2,b0) followed by a *record chain*
(n, P[0..n], K[0..n), V[0..n)):  P[0] = bof, P[j+1] = P[j] + 5 + |K[j]| + |V[j]|,
slice(F,P[j],5) = pack(|K[j]|,|V[j]|), key/value bytes in place, keys pairwise distinct
(idx(K[j]) = j).  A handle h is *indexed up to m* (Idx(h,F,m)) when its table of contents is
exactly the first m records and h._eof = P[m]; Sync = Idx at m = n with P[n] = |F|.
"""
import z3
from pyvc.values import *
from pyvc.spec import *
from pyvc import filemodel as FM
from pyvc.ops import blen, to_z3, bytes_const
from pyvc.filemodel import bslice, bwrite, pack_BI, unp_B, unp_I, bz

Int = z3.IntSort()
UKV = "molli.storage.ukvfile:UKVFile"


class Chain:
    """ghost record chain of a file"""

    def __init__(self, st=None, name="c", parts=None):
        if parts is not None:
            self.n, self.P, self.K, self.Vv, self.idx = parts
            return
        self.n = st.fresh(f"{name}_n", Int)
        self.P = st.fresh(f"{name}_P", z3.ArraySort(Int, Int))
        self.K = st.fresh(f"{name}_K", z3.ArraySort(Int, BytesS))
        self.Vv = st.fresh(f"{name}_V", z3.ArraySort(Int, BytesS))
        f = z3.Function(st.fresh_name(f"{name}_idx"), BytesS, Int)
        self.idx = lambda k: f(k)

    def extended(self, key, value):
        """the chain with one more record (key, value) appended"""
        n, P, K, Vv, idx = self.n, self.P, self.K, self.Vv, self.idx
        P2 = z3.Store(P, n + 1, P[n] + 5 + blen(key) + blen(value))
        return Chain(parts=(n + 1, P2, z3.Store(K, n, key), z3.Store(Vv, n, value),
                            lambda k: z3.If(k == key, n, idx(k))))

    def wf_at(self, F, bof, j):
        """conjuncts of well-formedness for record j"""
        P, K, Vv = self.P, self.K, self.Vv
        kl = blen(K[j])
        vl = blen(Vv[j])
        return [("next", P[j + 1] == P[j] + 5 + kl + vl),
                ("ranges", z3.And(kl < 256, vl < 2 ** 32)),
                ("header", bslice(F, P[j], 5) == pack_BI(kl, vl)),
                ("key", bslice(F, P[j] + 5, kl) == K[j]),
                ("value", bslice(F, P[j] + 5 + kl, vl) == Vv[j]),
                ("distinct", self.idx(K[j]) == j),
                ("inside", z3.And(P[j] >= bof, P[j + 1] <= P[self.n]))]

    def wf_head(self, F, bof):
        return z3.And(self.n >= 0, self.P[0] == bof, self.P[self.n] <= blen(F), self.P[self.n] >= bof)

    def wf(self, F, bof):
        """well-formed chain covering F from bof to P[n] (P[n] <= |F|)"""
        j = z3.Int("j!wf")
        body = z3.And(*[f for _, f in self.wf_at(F, bof, j)])
        return z3.And(self.wf_head(F, bof), z3.ForAll([j], z3.Implies(z3.And(j >= 0, j < self.n), body)))


def record_builder(I):
    cls = I.module_global("molli.storage.ukvfile", "UKVRecord")

    def build(I_, parts):
        return Obj(cls, {"pos": SV(parts["pos"], "int"), "key_len": SV(parts["key_len"], "int"),
                         "record_len": SV(parts["record_len"], "int")})

    def split(I_, v):
        if not (isinstance(v, Obj) and v.cls is cls):
            raise Unsupported(f"_toc value is not a UKVRecord: {v!r}")
        return {f: to_z3(v.fields[f], "int") for f in ("pos", "key_len", "record_len")}

    return build, split


def fresh_toc(I, name="toc"):
    st = I.st
    build, split = record_builder(I)
    has = st.fresh(f"{name}_has", z3.ArraySort(BytesS, z3.BoolSort()))
    vals = {f: st.fresh(f"{name}_{f}", z3.ArraySort(BytesS, Int)) for f in ("pos", "key_len", "record_len")}
    return SymMap(has, vals, "bytes", build, split)


def empty_toc(I):
    build, split = record_builder(I)
    has = z3.K(BytesS, z3.BoolVal(False))
    vals = {f: z3.K(BytesS, z3.IntVal(0)) for f in ("pos", "key_len", "record_len")}
    return SymMap(has, vals, "bytes", build, split)


def toc_of(h):
    t = h.fields["_toc"]
    if isinstance(t, DictV):
        raise Unsupported("concrete dict _toc: convert with toc_from_dict")
    return t


def toc_from_dict(I, d):
    t = empty_toc(I)
    from pyvc import seqmodel
    for k, v in zip(d.keys, d.vals):
        seqmodel.map_set(I, t, k, v)
    return t


def opt_bytes(V, name):
    """bytes | None"""
    if V.choose(["none", "bytes"], name) == "none":
        return None
    return V.sym(name, "bytes")


def bof_of(h):
    return 32 + blen(bz(h.fields["b0"])) + blen(bz(h.fields["h2"]))


def idx_inv_at(t, ch, m, k):
    j = ch.idx(k)
    member = z3.And(j >= 0, j < m, ch.K[j] == k)
    return [("has", t.has[k] == member),
            ("rec", z3.Implies(member, z3.And(t.vals["pos"][k] == ch.P[j], t.vals["key_len"][k] == blen(k),
                                              t.vals["record_len"][k] == blen(ch.Vv[j]))))]


def idx_inv(h, F, ch: Chain, m, toc=None, last=None, eof=None):
    """Idx(h,F,m): toc == first m records of the chain, _eof == P[m], _last == K[m-1] (or None)"""
    t = toc if toc is not None else toc_of(h)
    k = z3.Const("k!inv", BytesS)
    j = ch.idx(k)
    member = z3.And(j >= 0, j < m, ch.K[j] == k)
    body = z3.And(
        t.has[k] == member,
        z3.Implies(member, z3.And(t.vals["pos"][k] == ch.P[j], t.vals["key_len"][k] == blen(k),
                                  t.vals["record_len"][k] == blen(ch.Vv[j]))))
    e = eof if eof is not None else h.fields["_eof"]
    l = last if last is not None else h.fields["_last"]
    fs = [z3.ForAll([k], body), m >= 0, m <= ch.n, to_z3(e, "int") == ch.P[m]]
    if l is None:
        fs.append(m == 0)
    elif l is not False:
        fs.append(z3.And(m > 0, bz(l) == ch.K[m - 1]))
    return z3.And(*fs)


def mk_handle(V, cell, mode="a", closed=False, name="h", toc=None):
    """a UKVFile object in an arbitrary state of the right *shape* (no __init__ run)"""
    I, st = V.I, V.st
    cls = V.cls(UKV)
    path = Obj(I.ext_models["pathlib.Path"], {"s": st.fresh_sv(f"{name}_path", "str")}, tag="path")
    st.ghost.setdefault("cells", {})[id(path.fields["s"])] = cell
    h = Obj(cls, {}, tag=name)
    h.fields.update({
        "path": path, "mode": mode,
        "h1": V.sym(f"{name}_h1", "bytes"), "h2": V.sym(f"{name}_h2", "bytes"), "b0": V.sym(f"{name}_b0", "bytes"),
        "_toc": toc if toc is not None else fresh_toc(I, f"{name}_toc"),
        "_eof": V.sym(f"{name}_eof", "int"),
        "_closed": closed,
    })
    last = opt_bytes(V, f"{name}_last")
    h.fields["_last"] = last
    if not closed:
        s = Obj(I.BinStreamCls, {"file": cell, "pos": V.sym(f"{name}_pos", "int"), "closed": False, "r_ok": True,
                                 "w_ok": mode != "r", "mode": {"r": "rb", "a": "r+b", "w": "w+b", "x": "x+b"}[mode]},
                tag="binstream")
        V.assume(s.fields["pos"].z >= 0)
        h.fields["_stream"] = s
    return h


def install_open_hook(st):
    def hook(I, pathobj, mode):
        cell = st.ghost.get("cells", {}).get(id(pathobj.fields["s"]))
        if cell is None:
            raise Unsupported("open() of a path without ghost file cell")
        return I.open_binary(I, cell, mode)
    st.ghost["open_hook"] = hook


def snapshot(h):
    """observable fields of a handle (for 'view unchanged' clauses)"""
    t = h.fields["_toc"]
    d = {"eof": h.fields.get("_eof"), "last": h.fields.get("_last"), "closed": h.fields.get("_closed"),
         "mode": h.fields.get("mode"), "h1": h.fields.get("h1"), "h2": h.fields.get("h2"), "b0": h.fields.get("b0")}
    if isinstance(t, SymMap):
        d["toc"] = ("sym", t.has, dict(t.vals))
    else:
        d["toc"] = ("dict", list(t.keys), list(t.vals))
    return d


def same_view(I, a, b):
    """formula: two snapshots are equal"""
    fs = []
    for f in ("eof", "last", "closed", "mode", "h1", "h2", "b0"):
        x, y = a[f], b[f]
        if x is None or y is None:
            fs.append(x is None and y is None)
        else:
            fs.append(I.eq(x, y))
    ta, tb = a["toc"], b["toc"]
    if ta[0] == "dict" or tb[0] == "dict":
        fs.append(ta[0] == tb[0] and len(ta[1]) == len(tb[1]) and all(x is y for x, y in zip(ta[1], tb[1]))
                  and all(x is y for x, y in zip(ta[2], tb[2])))
    else:
        k = z3.Const("k!sv", BytesS)
        fs.append(z3.ForAll([k], z3.And(ta[1][k] == tb[1][k],
                                        z3.Implies(ta[1][k], z3.And(*[ta[2][f][k] == tb[2][f][k] for f in ta[2]])))))
    return I.and_(*fs)


# ------------------------------------------------------------------------------ map_blocks loop contract
def last_ok(h, toc=None):
    t = toc if toc is not None else toc_of(h)
    l = h.fields["_last"]
    if l is None:
        return z3.BoolVal(True)
    return t.has[bz(l)]


def prefix_toc_at(t, ch, upto, k):
    """toc == records [0, upto) of the chain, for key k"""
    return idx_inv_at(t, ch, upto, k)


def install_map_blocks_spec(I):
    """Loop invariant of UKVFile.map_blocks (while-loop, ordinal 0).

    ghost: the unit stores in st.ghost['mb'] = dict(ch=Chain, F=z3 Bytes, bof=z3 Int, m=z3 Int (records already
    indexed by the stale handle), mode='chain'|'any').
    mode 'chain': pos = P[i], stream at P[i], toc = first max(i,m) records, key = K[i-1] (None when i = 0)
    mode 'any'  : no assumption on the file; every indexed record ends inside the file, pos <= |F| (safety)
    """
    def enter(L):
        st = L.st
        g = st.ghost["mb"]
        g["i"] = None
        h = L.fr.locals["self"]
        if isinstance(h.fields["_toc"], DictV):
            h.fields["_toc"] = toc_from_dict(L.interp, h.fields["_toc"])

    def havoc(L):
        st = L.st
        g = st.ghost["mb"]
        h = L.fr.locals["self"]
        h.fields["_toc"] = fresh_toc(L.interp, "toc_loop")
        h.fields["_stream"].fields["pos"] = st.fresh_sv("spos", "int")
        g["i"] = st.fresh("i", Int)

    def inv(L):
        st = L.st
        g = st.ghost["mb"]
        h = L.fr.locals["self"]
        ch, F, bof, m = g["ch"], g["F"], g["bof"], g["m"]
        pos = to_z3(L.fr.locals["pos"], "int")
        key = L.fr.locals.get("key")
        spos = to_z3(h.fields["_stream"].fields["pos"], "int")
        t = h.fields["_toc"]
        if g["mode"] == "any":
            k = z3.Const("k!any", BytesS)
            fs = [("pos-inside", z3.And(pos >= bof, pos <= blen(F), spos == pos)),
                  ("records-inside", z3.ForAll([k], z3.Implies(t.has[k], z3.And(
                      t.vals["pos"][k] >= bof, t.vals["key_len"][k] >= 0, t.vals["record_len"][k] >= 0,
                      t.vals["pos"][k] + 5 + t.vals["key_len"][k] + t.vals["record_len"][k] <= pos))))]
            return fs
        i = g["i"] if g["i"] is not None else z3.IntVal(0)
        upto = z3.If(i > m, i, m)
        k = z3.Const("k!mb", BytesS)
        body = z3.And(*[f for _, f in idx_inv_at(t, ch, upto, k)])
        fs = [("i-range", z3.And(i >= 0, i <= ch.n)),
              ("pos", z3.And(pos == ch.P[i], spos == pos)),
              ("toc-prefix", z3.ForAll([k], body))]
        if key is None:
            fs.append(("key", i == 0))
        else:
            fs.append(("key", z3.And(i > 0, bz(key) == ch.K[i - 1])))
        return fs

    def inv_step(L):
        # after one iteration the ghost counter advances
        return inv(L)

    spec = LoopSpec(invariant=inv, havoc=havoc, enter=enter,
                    locals={"pos": "int", "key": ["none", "bytes"], "blk_header": "none", "key_len": "int",
                            "record_len": "int", "record": "none"},
                    variant=lambda L: blen(L.st.ghost["mb"]["F"]) - to_z3(L.fr.locals["pos"], "int"))
    I.loop_specs[(f"{UKV}.map_blocks", 0)] = spec
    # the ghost counter i advances at the end of each iteration: hook through on_iteration_end
    spec.step = lambda L: L.st.ghost["mb"].__setitem__("i", L.st.ghost["mb"]["i"] + 1) if L.st.ghost["mb"]["mode"] == "chain" else None


# ------------------------------------------------------------------------------ file + backend builders
def file_state(V, cell, tail=None):
    """F = valid header + well-formed chain (+ torn tail when tail == 'torn'); returns (H1,H2,B0,bof,ch)"""
    st = V.st
    F = bz(cell.fields["content"])
    H1, H2, B0 = st.fresh("H1", BytesS), st.fresh("H2", BytesS), st.fresh("B0", BytesS)
    V.assume(z3.And(blen(H2) < 65536, blen(B0) < 2 ** 32, blen(F) >= 32 + blen(H2) + blen(B0)))
    V.assume(bslice(F, 0, 32) == FM.pack_FH(H1, blen(H2), blen(B0)))
    V.assume(bslice(F, 32, blen(H2)) == H2)
    V.assume(bslice(F, 32 + blen(H2), blen(B0)) == B0)
    bof = 32 + blen(H2) + blen(B0)
    ch = Chain(st, "c")
    V.assume(ch.wf(F, bof))
    if tail == "torn":
        T = blen(F) - ch.P[ch.n]
        hdr = bslice(F, ch.P[ch.n], 5)
        V.assume(z3.And(T > 0, z3.Or(T < 5, ch.P[ch.n] + 5 + unp_B(hdr) + unp_I(hdr) > blen(F))))
    else:
        V.assume(ch.P[ch.n] == blen(F))
    return H1, H2, B0, bof, ch


def make_stale(V, h, F, ch, H2, B0, fresh=False):
    """turn a handle built by mk_handle into a fresh one or one indexed on an earlier prefix of this file"""
    I, st = V.I, V.st
    if fresh:
        h.fields["_toc"] = empty_toc(I)
        h.fields["_eof"] = None
        h.fields["_last"] = None
        return z3.IntVal(0)
    m = st.fresh("m", Int)
    h.fields["h2"] = SV(H2, "bytes")
    h.fields["b0"] = SV(B0, "bytes")
    V.assume(idx_inv(h, F, ch, m, last=False))
    V.assume(last_ok(h))
    return m


BACKEND = "molli.storage.backends:UkvCollectionBackend"
BASE = "molli.storage.backends:CollectionBackendBase"


def mk_backend(V, cell, pending=0, with_handle=True, readonly=False, name="b"):
    """a UkvCollectionBackend in state idle with `pending` queued writes; optionally with a cached closed handle"""
    I, st = V.I, V.st
    cls = V.cls(BACKEND)
    s = st.fresh_sv(f"{name}_path", "str")
    path = Obj(I.ext_models["pathlib.Path"], {"s": s}, tag="path")
    st.ghost.setdefault("cells", {})[id(s)] = cell
    b = Obj(cls, {}, tag=name)
    dq = I.call(I.ext_models["collections.deque"], [], {})
    items = []
    for i in range(pending):
        kv = (V.sym(f"qk{i}", "str"), V.sym(f"qv{i}", "bytes"))
        dq.fields["items"].append(kv)
        items.append(kv)
    keys = SymSet(st.fresh(f"{name}_keys", z3.ArraySort(z3.StringSort(), z3.BoolSort())), "str")
    lock = Obj(I.LockCls, {"path": Opaque("obj:lockpath"), "held": None}, tag="rwlock")
    b.fields.update({"_path": path, "_readonly": readonly, "_write_queue": dq, "_keys": keys, "_lock": lock,
                     "_bufsize": V.sym(f"{name}_bufsize", "int"), "_usedmem": V.sym(f"{name}_usedmem", "int"),
                     "_state": "idle"})
    h = None
    if with_handle:
        h = mk_handle(V, cell, mode=V.choose(["a", "r"], "cached-mode"), closed=True, name="h")
        h.fields["path"] = Obj(I.ext_models["pathlib.Path"], {"s": s}, tag="path")
        b.fields["_ukvfile"] = h
    return b, h, lock, items


def install_update_keys_rule(I):
    """{k.decode() for k in self._ukvfile.keys()}: pointwise rule.  Either some key is not valid utf-8
    (UnicodeDecodeError) or the result is the set S with  s in S  <=>  encode(s) in toc."""
    def rule(I_, n, fr):
        st = I_.st
        h = fr.locals["self"].fields["_ukvfile"]
        t = h.fields["_toc"]
        if not isinstance(t, SymMap):
            t = toc_from_dict(I_, t)
        k = z3.Const("k!uk", BytesS)
        if not st.branch(st.fresh("all_keys_utf8", z3.BoolSort()), "all keys utf-8"):
            k0 = st.fresh("bad_key", BytesS)
            st.assume(z3.And(t.has[k0], z3.Not(FM.b_is_utf8(k0))))
            I_.raise_py("UnicodeDecodeError", "invalid utf-8 key")
        st.assume(z3.ForAll([k], z3.Implies(t.has[k], FM.b_is_utf8(k))))
        S = st.fresh("keyset", z3.ArraySort(z3.StringSort(), z3.BoolSort()))
        s = z3.Const("s!uk", z3.StringSort())
        st.assume(z3.ForAll([s], S[s] == t.has[FM.s_encode(s)]))
        return SymSet(S, "str")
    return rule


def file_with_header(V, cell):
    """F starts with a valid file header (H1, H2, B0); returns (H1p, H2, B0, bof)"""
    st = V.st
    F = bz(cell.fields["content"])
    H1, H2, B0 = st.fresh("H1", BytesS), st.fresh("H2", BytesS), st.fresh("B0", BytesS)
    V.assume(z3.And(blen(H2) < 65536, blen(B0) < 2 ** 32, blen(F) >= 32 + blen(H2) + blen(B0)))
    V.assume(bslice(F, 0, 32) == FM.pack_FH(H1, blen(H2), blen(B0)))
    V.assume(bslice(F, 32, blen(H2)) == H2)
    V.assume(bslice(F, 32 + blen(H2), blen(B0)) == B0)
    return H1, H2, B0, 32 + blen(H2) + blen(B0)
