"""C08 -- xyz round trip and unit handling: coordinates mean what the file says.

Token level (structured strings, as in C07): dump_xyz / dumps_xyz -> read_xyz / yield_from_xyz / loads_xyz for a geometry
and frame by frame for an ensemble.  Units: for every member of DistanceUnit the coordinates read are the file's numbers
times Angstrom-per-unit (physical table), for the xyz and the mol2 reader.
"""
import z3
from pyvc.spec import *
from pyvc.values import *
from pyvc.ops import to_z3
from pyvc import textmodel as T
from pyvc import npmodel as NP
from contracts import mol as M

P = Property("C08", "xyz round trip and unit handling")
P.trust("text codec: float(format(x,'12.6f')) within 5e-7 of x; element symbols are whitespace-free")
P.assume("sizes fixed (3 atoms; 2 frames x 2 atoms); all coordinates symbolic")
GEO = M.CLS["CartesianGeometry"]
# physical definitions: Angstrom per unit
ANGSTROM_PER = {"A": 1.0, "Angstrom": 1.0, "Bohr": 0.529177210903, "au": 0.529177210903, "pm": 0.01, "nm": 10.0, "fm": 1e-5}


def geom(V, kind="Molecule", els=("C", "H", "Unknown")):
    I = V.I
    E = V.cls("molli.chem.atom:Element")
    m = M.mk_mol(V, kind, len(els), (), name="g")
    for a, el in zip(m.fields["_atoms"].items, els):
        a.fields["element"] = I.getattr_(E, el)
    return m


@P.unit(f"{GEO}.dump_xyz", name="xyz text: what dump_xyz writes is what loads_xyz reads",
        functions=[f"{GEO}.dump_xyz", f"{GEO}.dumps_xyz", f"{GEO}.yield_from_xyz", f"{GEO}.loads_xyz", "molli.parsing.xyz:read_xyz"])
def _xyz_text(V):
    I, st = V.I, V.st
    T.use(st)
    kind = V.choose(["Molecule", "CartesianGeometry"], "class")
    m = geom(V, kind)
    # the second atom is a dummy-TYPED atom that still has a real element (e.g. a capping atom): its element is part of the geometry;
    # the third is the Unknown element (written as the placeholder)
    AT = V.cls("molli.chem.atom:AtomType")
    m.fields["_atoms"].items[1].fields["atype"] = I.getattr_(AT, "Dummy")
    m.fields["_atoms"].items[2].fields["atype"] = V.choose([I.getattr_(AT, "Dummy"), I.getattr_(AT, "Regular")], "type-of-the-Unknown-atom")
    V.witness(lambda ev: {"op": "xyz-roundtrip", "kind": kind, "signature": "xyz-roundtrip"})
    V.cover()
    w = V.method(m, "dumps_xyz", [], qual=f"{GEO}.dumps_xyz")
    V.ensure("writer/returns-text", z3.BoolVal(w.returned))
    if not w.returned:
        return
    cls = V.cls(M.CLS[kind])
    try:
        r = I.call(I.getattr_(cls, "loads_xyz"), [w.value], {})
    except PyExc as e:
        V.ensure("reader/accepts-the-written-text", z3.BoolVal(False))
        return
    V.ensure("reader/accepts-the-written-text", z3.BoolVal(True))
    sa, ra = m.fields["_atoms"].items, r.fields["_atoms"].items
    V.ensure("roundtrip/atom-count-order-elements", I.and_(len(sa) == len(ra), *[I.eq(x.fields["element"], y.fields["element"]) for x, y in zip(sa, ra)]))
    R6 = T.rounding(6)
    cs, cr = m.fields["_coords"].data, r.fields["_coords"].data
    V.ensure("roundtrip/coordinates-to-the-written-precision",
             z3.BoolVal(len(cr) == len(cs)) if len(cr) != len(cs) else z3.And(*[to_z3(cr[i][k], "real") == R6(to_z3(cs[i][k], "real")) for i in range(len(cs)) for k in range(3)]))
    w2 = V.method(r, "dumps_xyz", [])
    if w2.returned:
        # the comment line carries the name, which the reader does not restore ("unnamed"): compare the atom records
        l1, l2 = T.lines(w.value)[2:], T.lines(w2.value)[2:]
        V.ensure("fixed-point/atom-records-identical-after-a-second-write", I.and_(len(l1) == len(l2), *[T.same_text(I, a, b) for a, b in zip(l1, l2)]))


ENSQ = M.CLS["ConformerEnsemble"]


@P.unit(f"{ENSQ}.dump_xyz", name="xyz text of an ensemble: frame by frame", functions=[f"{ENSQ}.dump_xyz", f"{ENSQ}.dumps_xyz", f"{ENSQ}.load_xyz", f"{ENSQ}.loads_xyz", f"{GEO}.load_all_xyz"])
def _xyz_ens(V):
    I, st = V.I, V.st
    T.use(st)
    E = V.cls("molli.chem.atom:Element")
    # a single-conformer ensemble writes a one-frame file (the same text a Molecule writes)
    nc = V.choose([2, 1], "frames")
    e = M.mk_ens(V, nc, 2, bonds=())
    for a, el in zip(e.fields["_atoms"].items, ("N", "F")):
        a.fields["element"] = I.getattr_(E, el)
    V.witness(lambda ev: {"op": "xyz-roundtrip", "kind": "ConformerEnsemble", "frames": nc, "signature": f"xyz-roundtrip-ensemble/{nc}"})
    V.cover()
    w = V.method(e, "dumps_xyz", [], qual=f"{ENSQ}.dumps_xyz")
    V.ensure("writer/returns-text", z3.BoolVal(w.returned))
    if not w.returned:
        return
    try:
        r = I.call(I.getattr_(V.cls(ENSQ), "loads_xyz"), [w.value], {})
    except PyExc:
        V.ensure("reader/accepts-the-written-text", z3.BoolVal(False))
        return
    V.ensure("reader/accepts-the-written-text", z3.BoolVal(True))
    cr, cs = r.fields["_coords"], e.fields["_coords"]
    V.ensure("roundtrip/frame-and-atom-count", z3.BoolVal(tuple(cr.tail) == (nc, 2, 3)))
    if tuple(cr.tail) == (nc, 2, 3):
        R6 = T.rounding(6)
        V.ensure("roundtrip/frames-in-order-with-their-coordinates",
                 z3.And(*[to_z3(cr.data[c][i][k], "real") == R6(to_z3(cs.data[c][i][k], "real")) for c in range(nc) for i in range(2) for k in range(3)]))
    V.ensure("roundtrip/elements", I.and_(*[I.eq(x.fields["element"], y.fields["element"]) for x, y in zip(e.fields["_atoms"].items, r.fields["_atoms"].items)]))


@P.unit(f"{GEO}.yield_from_xyz", name="xyz element vocabulary: every element is written with a symbol that reads back as the same element, as a regular atom",
        functions=[f"{GEO}.dump_xyz", f"{GEO}.dumps_xyz", f"{GEO}.yield_from_xyz", f"{GEO}.loads_xyz", "molli.parsing.xyz:read_xyz"])
def _xyz_vocab(V):
    I, st = V.I, V.st
    T.use(st)
    E = V.cls("molli.chem.atom:Element")
    members = []
    for m_ in E.members.values():
        if m_ not in members and m_.name != "Unknown":
            members.append(m_)
    el = V.choose(members, "element")
    m = M.mk_mol(V, "CartesianGeometry", 1, (), name="g")
    m.fields["_atoms"].items[0].fields["element"] = el
    V.witness(lambda ev: {"op": "xyz-vocabulary", "element": el.name, "signature": "xyz-vocabulary"})
    V.cover()
    w = V.method(m, "dumps_xyz", [], qual=f"{GEO}.dumps_xyz")
    V.ensure("vocabulary/writer-returns-text", z3.BoolVal(w.returned))
    if not w.returned:
        return
    try:
        r = I.call(I.getattr_(V.cls(GEO), "loads_xyz"), [w.value], {})
    except PyExc:
        V.ensure("vocabulary/reader-accepts-the-symbol", z3.BoolVal(False))
        return
    V.ensure("vocabulary/reader-accepts-the-symbol", z3.BoolVal(True))
    ra = r.fields["_atoms"].items
    V.ensure("vocabulary/element-preserved", I.and_(len(ra) == 1, *[I.eq(y.fields["element"], el) for y in ra]))
    V.ensure("vocabulary/a-real-element-is-not-read-as-a-dummy", z3.BoolVal(all(getattr(y.fields["atype"], "name", None) == "Regular" for y in ra)))


@P.unit(f"{GEO}.yield_from_xyz", name="multi-molecule xyz text: every frame keeps its own elements, atom order and dummy flags",
        functions=[f"{GEO}.yield_from_xyz", f"{GEO}.loads_all_xyz", "molli.parsing.xyz:read_xyz"])
def _xyz_multi(V):
    I, st = V.I, V.st
    T.use(st)
    # two different molecules with the same number of atoms (a trajectory of different species, e.g. reactant / product)
    m1 = geom(V, "Molecule", ("O", "H"))
    m2 = geom(V, "Molecule", ("S", "C"))
    V.witness(lambda ev: {"op": "xyz-multi", "signature": "xyz-multi"})
    V.cover()
    w1, w2 = V.method(m1, "dumps_xyz", []), V.method(m2, "dumps_xyz", [])
    V.ensure("writer/returns-text", z3.BoolVal(w1.returned and w2.returned))
    if not (w1.returned and w2.returned):
        return
    text = T.SStr([w1.value, w2.value])
    cls = V.cls(M.CLS["Molecule"])
    I.target = f"{GEO}.yield_from_xyz"
    try:
        rs = list(I.iterate(I.call(I.getattr_(cls, "loads_all_xyz"), [text], {})))
    except PyExc:
        V.ensure("multi/reader-accepts-the-text", z3.BoolVal(False))
        return
    V.ensure("multi/reader-accepts-the-text", z3.BoolVal(len(rs) == 2))
    if len(rs) != 2:
        return
    for j, (src, r) in enumerate(zip((m1, m2), rs)):
        V.ensure(f"multi/frame{j}:own-elements-in-order", I.and_(len(r.fields["_atoms"].items) == 2,
                 *[I.eq(x.fields["element"], y.fields["element"]) for x, y in zip(src.fields["_atoms"].items, r.fields["_atoms"].items)]))
        V.ensure(f"multi/frame{j}:regular-atoms-stay-regular", z3.BoolVal(all(getattr(y.fields["atype"], "name", None) == "Regular" for y in r.fields["_atoms"].items)))


def units_unit(fmt):
    def body(V):
        I, st = V.I, V.st
        T.use(st)
        unit = V.choose(sorted(ANGSTROM_PER), "unit")
        # every text/stream entry point of the class takes the unit: loads_*, load_* (stream), loads_all_*, load_all_* (stream)
        entry = V.choose(["loads", "load", "loads_all", "load_all", "load(path)", "load_all(path)"], "entry")
        m = geom(V, "Molecule", ("C", "O"))
        V.witness(lambda ev: {"op": "units", "format": fmt, "unit": unit, "entry": entry, "signature": f"units/{fmt}"})
        V.cover()
        w = V.method(m, f"dumps_{fmt}", [])
        V.ensure("writer/returns-text", z3.BoolVal(w.returned))
        if not w.returned:
            return
        cls = V.cls(M.CLS["Molecule"])
        I.target = f"{GEO}.yield_from_xyz" if fmt == "xyz" else f"{M.CLS['Structure']}.yield_from_mol2"
        try:
            if entry.endswith("(path)"):
                # a file name: open() hands out a stream over the written text
                st.ghost["open_hook"] = lambda I_, path, mode: I_.call(I_.ext_models["io.StringIO"], [w.value], {})
                arg = V.sym("file_name", "str")
                meth = entry[:-len("(path)")]
            else:
                arg = w.value if entry.startswith("loads") else I.call(I.ext_models["io.StringIO"], [w.value], {})
                meth = entry
            r = I.call(I.getattr_(cls, f"{meth}_{fmt}"), [arg], {"source_units": unit})
            if meth.endswith("_all"):
                r = list(I.iterate(r))
                V.ensure("reader/all-variant-returns-the-one-molecule-of-the-file", z3.BoolVal(len(r) == 1))
                r = r[0]
        except PyExc:
            V.ensure("reader/accepts-every-distance-unit", z3.BoolVal(False))
            return
        V.ensure("reader/accepts-every-distance-unit", z3.BoolVal(True))
        R6 = T.rounding(6)
        f = ANGSTROM_PER[unit]
        cs, cr = m.fields["_coords"].data, r.fields["_coords"].data
        tol = 1e-5
        fs = []
        for i in range(2):
            for k in range(3):
                x = R6(to_z3(cs[i][k], "real"))          # the number in the file
                got = to_z3(cr[i][k], "real")
                lo, hi = z3.RealVal(repr(f * (1 - tol))), z3.RealVal(repr(f * (1 + tol)))
                # got = factor * x with factor within 1e-5 (relative) of Angstrom-per-unit
                fs.append(z3.Or(z3.And(x >= 0, got >= lo * x, got <= hi * x), z3.And(x <= 0, got <= lo * x, got >= hi * x)))
        V.ensure("units/coordinates-are-the-file's-numbers-times-Angstrom-per-unit", z3.And(*fs))
    return body


P.unit(f"{GEO}.yield_from_xyz", name="units[xyz]: physical distances unchanged for every DistanceUnit")(units_unit("xyz"))
P.unit(f"{M.CLS['Structure']}.yield_from_mol2", name="units[mol2]: physical distances unchanged for every DistanceUnit")(units_unit("mol2"))


def ens_units_unit(fmt):
    """the ensemble loaders take the same `source_units` (and `name`) and must honour them on the text and on the stream route"""
    def body(V):
        I, st = V.I, V.st
        T.use(st)
        unit = V.choose(["Bohr", "pm"], "unit")
        entry = V.choose(["loads", "load"], "entry")
        E = V.cls("molli.chem.atom:Element")
        e = M.mk_ens(V, 2, 2, bonds=((0, 1),) if fmt == "mol2" else ())
        for a, el in zip(e.fields["_atoms"].items, ("N", "F")):
            a.fields["element"] = I.getattr_(E, el)
            if fmt == "mol2":
                V.assume(z3.Length(a.fields["label"].z) > 0)
        name = V.sym("new_name", "str")
        V.assume(z3.Length(name.z) > 0)
        V.witness(lambda ev: {"op": "ensemble-units", "format": fmt, "unit": unit, "entry": entry, "signature": f"ensemble-units/{fmt}"})
        V.cover()
        w = V.method(e, f"dumps_{fmt}", [])
        V.ensure("writer/returns-text", z3.BoolVal(w.returned))
        if not w.returned:
            return
        cls = V.cls(ENSQ)
        I.target = f"{ENSQ}.{entry}_{fmt}"
        try:
            arg = w.value if entry == "loads" else I.call(I.ext_models["io.StringIO"], [w.value], {})
            r = I.call(I.getattr_(cls, f"{entry}_{fmt}"), [arg], {"source_units": unit, "name": name})
        except PyExc:
            V.ensure("ensemble-reader/accepts-the-unit", z3.BoolVal(False))
            return
        V.ensure("ensemble-reader/accepts-the-unit", z3.BoolVal(True))
        cr, cs = r.fields["_coords"], e.fields["_coords"]
        ok = tuple(cr.tail) == (2, 2, 3)
        V.ensure("ensemble-reader/frame-and-atom-count", z3.BoolVal(ok))
        if not ok:
            return
        R6 = T.rounding(6)
        f = ANGSTROM_PER[unit]
        tol = 1e-5
        fs = []
        for c in range(2):
            for i in range(2):
                for k in range(3):
                    x = R6(to_z3(cs.data[c][i][k], "real"))
                    got = to_z3(cr.data[c][i][k], "real")
                    lo, hi = z3.RealVal(repr(f * (1 - tol))), z3.RealVal(repr(f * (1 + tol)))
                    fs.append(z3.Or(z3.And(x >= 0, got >= lo * x, got <= hi * x), z3.And(x <= 0, got <= lo * x, got >= hi * x)))
        V.ensure("ensemble-units/coordinates-are-the-file's-numbers-times-Angstrom-per-unit", z3.And(*fs))
        V.ensure("ensemble-reader/name-override-honoured", I.eq(r.fields.get("_name"), name))
    return body


P.unit(f"{ENSQ}.loads_xyz", name="units[ensemble xyz]: loads_/load_ honour source_units and name",
       functions=[f"{ENSQ}.loads_xyz", f"{ENSQ}.load_xyz"])(ens_units_unit("xyz"))
P.unit(f"{ENSQ}.loads_mol2", name="units[ensemble mol2]: loads_/load_ honour source_units and name",
       functions=[f"{ENSQ}.loads_mol2", f"{ENSQ}.load_mol2"])(ens_units_unit("mol2"))
@P.unit(f"{GEO}.yield_from_xyz", name="xyz text of a molecule without atoms reads back as a molecule without atoms (0 atoms is a geometry too)",
        functions=[f"{GEO}.dump_xyz", f"{GEO}.yield_from_xyz", f"{GEO}.loads_xyz", "molli.parsing.xyz:read_xyz"])
def _xyz_empty(V):
    I, st = V.I, V.st
    T.use(st)
    m = M.mk_mol(V, "Molecule", 0, (), name="e")
    V.assume(z3.Length(m.fields["_name"].z) > 0)
    V.witness(lambda ev: {"op": "xyz-empty", "signature": "xyz-empty"})
    V.cover()
    w = V.method(m, "dumps_xyz", [])
    V.ensure("empty/writer-returns-text", z3.BoolVal(w.returned))
    if not w.returned:
        return
    cls = V.cls(M.CLS["Molecule"])
    I.target = f"{GEO}.yield_from_xyz"
    try:
        r = I.call(I.getattr_(cls, "loads_xyz"), [w.value], {})
    except PyExc as ex:
        V.ensure("empty/reader-accepts-the-written-text", z3.BoolVal(False), raised=repr(getattr(ex.value, "fields", "")))
        return
    V.ensure("empty/reader-accepts-the-written-text", z3.BoolVal(True))
    V.ensure("empty/no-atoms-no-coordinates", z3.BoolVal(len(r.fields["_atoms"].items) == 0 and isinstance(r.fields["_coords"], NdArr) and tuple(r.fields["_coords"].tail) == (0, 3)))
