"""C10 -- damaged or truncated input is rejected, never returned as a partial molecule.

The real writers produce a two-molecule mol2 text / two-frame xyz text with symbolic content (structured strings);
every member of a damage family over its *lines* (all truncations at line boundaries, every single-line deletion,
every single-line duplication) is fed to the real readers (loads_all_mol2 / loads_all_xyz).  Proved for all
symbolic contents: the result is an exception or a sequence of complete molecules, each with the atom and bond
counts its header declares and the content of the corresponding undamaged molecule.
"""
import z3
from pyvc.spec import *
from pyvc.values import *
from pyvc.ops import to_z3
from pyvc import textmodel as T
from pyvc import npmodel as NP
from contracts import mol as M

P = Property("C10", "damaged or truncated input is rejected")
P.trust("structured-string model and numeric text codecs as in C07/C08")
P.assume("damage family at line granularity over a 2-molecule file (truncation at every line boundary, deletion or duplication of any "
         "single line); content symbolic")
P.not_decided += ["termination of the readers on arbitrary text (only established for the enumerated damage family: every run ends)",
                  "truncation inside the last record line (byte offsets): a cut number is a shorter valid number -- the formats carry no "
                  "terminator or checksum; not detectable by the readers (stated limitation, see DESIGN 4)"]
ENSQ = M.CLS["ConformerEnsemble"]
MOLQ = M.CLS["Molecule"]


def ensemble(V):
    I = V.I
    E = V.cls("molli.chem.atom:Element")
    e = M.mk_ens(V, 2, 2, bonds=((0, 1),))
    for a, el in zip(e.fields["_atoms"].items, ("C", "O")):
        a.fields["element"] = I.getattr_(E, el)
        V.assume(z3.Length(a.fields["label"].z) > 0)
    # a bond type other than the most common one: a reader that fills in a default for a missing type token is noticed
    e.fields["_bonds"].items[0].fields["btype"] = I.getattr_(V.cls("molli.chem.bond:BondType"), "Double")
    # the name is not itself an integer / float literal (otherwise a damaged file could use it as a record count)
    nm = e.fields["_name"].z
    V.assume(z3.And(z3.Not(z3.Function("str_is_int_py", z3.StringSort(), z3.BoolSort())(nm)),
                    z3.Not(z3.Function("str_is_float_py", z3.StringSort(), z3.BoolSort())(nm)), z3.Length(nm) > 0,
                    z3.Not(z3.PrefixOf(z3.StringVal("#"), nm)), z3.Not(z3.PrefixOf(z3.StringVal("@"), nm))))
    for a in e.fields["_atoms"].items:
        lz = a.fields["label"].z
        V.assume(z3.And(z3.Not(z3.PrefixOf(z3.StringVal("#"), lz)), z3.Not(z3.PrefixOf(z3.StringVal("@"), lz))))
    R3 = T.rounding(3)
    for row in e.fields["_atomic_charges"].data:
        for q in row:
            V.assume(z3.Or(q.z == 0, R3(q.z) != 0))
    return e


def damage_family(nlines):
    fam = [("truncate", k) for k in range(0, nlines)] + [("delete", k) for k in range(nlines)] + [("duplicate", k) for k in range(nlines)]
    return fam


def cut_family(I, lines):
    """the text ends inside line k, after its first j whitespace-separated tokens (a truncation point inside a record, at a token
    boundary; cuts inside a token turn a number into another well-formed number and are outside what any reader can see)"""
    return [("cut", k, j) for k, ln in enumerate(lines) for j in range(1, len(tokens_of(I, ln)))]


def apply_damage(lines, d, I=None):
    kind, k = d[0], d[1]
    if kind == "cut":
        return lines[:k] + [rebuild(tokens_of(I, lines[k])[:d[2]], newline=False)]
    if kind == "token":
        toks = tokens_of(I, lines[k])
        toks[d[2]] = d[3]
        return lines[:k] + [rebuild(toks)] + lines[k + 1:]
    if kind == "truncate":
        return lines[:k]
    if kind == "delete":
        return lines[:k] + lines[k + 1:]
    return lines[:k + 1] + [lines[k]] + lines[k + 1:]


CORRUPT = ("Xq", "7", "-1.5e")


def is_number_token(t):
    if isinstance(t, T.SStr):
        return len(t.parts) == 1 and isinstance(t.parts[0], T.Tok) and t.parts[0].kind in ("int", "float")
    if isinstance(t, str):
        try:
            float(t)
            return True
        except ValueError:
            return False
    return False


def tokens_of(I, line):
    return list(T.split(I, line if isinstance(line, T.SStr) else T.SStr([line])).items)


def rebuild(toks, newline=True):
    parts = []
    for j, t in enumerate(toks):
        if j:
            parts.append(" ")
        parts.append(T.SStr([T.Tok("str", t)]) if isinstance(t, SV) else t)
    if newline:
        parts.append("\n")
    return T.SStr(parts)


def atom_id_family(I, lines, upto):
    """mol2 atom records: the id token (first token of an atom line) replaced by another in-range id, zero, or a too large one.
    Atom records are positional in molli's reader, so the result must be an exception or the very same molecule."""
    fam = []
    in_atoms = False
    for k, ln in enumerate(lines[:upto]):
        txt = ln if isinstance(ln, str) else "".join(p_ for p_ in ln.parts if isinstance(p_, str))
        if txt.startswith("@<TRIPOS>"):
            in_atoms = txt.strip() == "@<TRIPOS>ATOM"
            continue
        if in_atoms:
            for new in ("1", "2", "0", "3"):
                toks = tokens_of(I, ln)
                if toks and not (isinstance(toks[0], str) and toks[0] == new):
                    fam.append(("token", k, 0, new))
    return fam


def token_family(I, lines, upto):
    fam = []
    for k, ln in enumerate(lines[:upto]):
        for j, t in enumerate(tokens_of(I, ln)):
            for new in CORRUPT:
                # a number replaced by another well-formed number is a different, valid file: no reader can reject it
                if new == "7" and is_number_token(t):
                    continue
                fam.append(("token", k, j, new))
    return fam


def summarize(I, mols):
    out = []
    for m in mols:
        al = m.fields["_atoms"].items
        bonds = []
        for b in (m.fields["_bonds"].items if "_bonds" in m.fields else []):
            ends = [next((j for j, x in enumerate(al) if x is b.fields[e]), -1) for e in ("a1", "a2")]
            bonds.append((ends[0], ends[1], b.fields["btype"]))
        out.append({"n": len(al), "nb": len(m.fields["_bonds"].items) if "_bonds" in m.fields else 0,
                    "els": [a.fields["element"] for a in al], "coords": NP.flat(m.fields["_coords"].data), "bonds": bonds})
    return out


def read_blocks(V, fmt, text):
    """the parser level (read_mol2 / read_xyz on a stream): the blocks it hands out, or None when it rejects the text"""
    I = V.I
    fn = V.glob(f"molli.parsing.{fmt}:read_{fmt}")
    sio = I.call(I.ext_models["io.StringIO"], [text], {})
    try:
        return list(I.iterate(I.call(fn, [sio], {})))
    except PyExc:
        return None


def unit(fmt, tokens=False):
    def body(V):
        I, st = V.I, V.st
        T.use(st)
        e = ensemble(V)
        w = V.method(e, f"dumps_{fmt}", [])
        V.ensure("setup/writer-returns", z3.BoolVal(w.returned))
        if not w.returned:
            return
        lines = T.lines(w.value)
        cls = V.cls(MOLQ)
        loader = I.getattr_(cls, f"loads_all_{fmt}")
        # token corruption: every whitespace-separated token of every line of the first molecule replaced by a foreign symbol,
        # a bare integer, and a malformed number
        fam = token_family(I, lines, len(lines) if V.tier == "thorough" else len(lines) // 2) if tokens else damage_family(len(lines))
        if tokens and fmt == "mol2":
            fam = fam + atom_id_family(I, lines, len(lines))
        if not tokens:
            fam = fam + cut_family(I, lines)
        d = V.choose(fam, "damage")
        V.witness(lambda ev: {"op": "damage", "format": fmt, "kind": d[0], "line": d[1], "nlines": len(lines), "token": d[2] if (tokens or d[0] == "cut") else None,
                              "new": d[3] if tokens else None, "signature": f"damage/{fmt}"})
        V.cover()
        ref = summarize(I, I.call(loader, [w.value], {}).items)
        declared = [(2, 1 if fmt == "mol2" else 0)] * 2
        text = T.SStr(apply_damage(lines, d, I))
        I.target = f"molli.parsing.{fmt}:read_{fmt}"
        if not tokens:
            # the parser itself (it is public: molli.parsing.read_xyz / read_mol2) hands out only complete blocks: as many atom
            # (and bond) records as the block's own count line declares
            blocks = read_blocks(V, fmt, text)
            for j, b in enumerate(blocks or []):
                hdr = b.fields["header"] if fmt == "mol2" else b
                V.ensure(f"parser/block-{j}:has-the-atom-records-its-count-line-declares", I.eq(hdr.fields["n_atoms"], len(b.fields["atoms"].items)))
                if fmt == "mol2":
                    V.ensure(f"parser/block-{j}:has-the-bond-records-its-count-line-declares", I.eq(hdr.fields["n_bonds"], len(b.fields["bonds"].items)))
        try:
            r = I.call(loader, [text], {})
            out = Outcome("return", r)
        except PyExc as ex:
            out = Outcome("raise", exc=ex.value)
        if not out.returned:
            V.ensure("post/rejected-with-an-exception", z3.BoolVal(True))
            return
        got = summarize(I, out.value.items)
        V.ensure("post/at-most-the-molecules-of-the-file", z3.BoolVal(len(got) <= 2 or d[0] == "duplicate"))
        for j, g in enumerate(got):
            if j >= len(ref):
                # a duplicated header line may legitimately start another complete molecule only if all its records are present
                V.ensure(f"post/molecule-{j}:complete-with-declared-counts", z3.BoolVal(g["n"] == 2 and g["nb"] == declared[0][1]))
                continue
            V.ensure(f"post/molecule-{j}:has-the-declared-atom-and-bond-counts", z3.BoolVal(g["n"] == declared[j][0] and g["nb"] == declared[j][1]))
            if g["n"] == ref[j]["n"]:
                same = I.and_(*[I.eq(x, y) for x, y in zip(g["els"], ref[j]["els"])], *[M._same(I, x, y) for x, y in zip(g["coords"], ref[j]["coords"])],
                              len(g["bonds"]) == len(ref[j]["bonds"]),
                              *[I.and_(x[0] == y[0] and x[1] == y[1], I.eq(x[2], y[2])) for x, y in zip(g["bonds"], ref[j]["bonds"])])
                V.ensure(f"post/molecule-{j}:same-content-as-in-the-undamaged-file", same)
    return body


P.unit("molli.parsing.mol2:read_mol2", name="mol2: every line-level damage is rejected or yields complete molecules",
       functions=["molli.parsing.mol2:read_mol2", f"{M.CLS['Structure']}.yield_from_mol2", f"{M.CLS['Structure']}.loads_all_mol2"])(unit("mol2"))
P.unit("molli.parsing.xyz:read_xyz", name="xyz: every line-level damage is rejected or yields complete molecules",
       functions=["molli.parsing.xyz:read_xyz", f"{M.CLS['CartesianGeometry']}.yield_from_xyz", f"{M.CLS['CartesianGeometry']}.loads_all_xyz"])(unit("xyz"))
P.unit("molli.parsing.xyz:read_xyz", name="xyz: every single-token corruption is rejected or yields complete molecules with the same content",
       functions=["molli.parsing.xyz:read_xyz", f"{M.CLS['CartesianGeometry']}.yield_from_xyz"])(unit("xyz", tokens=True))
P.unit("molli.parsing.mol2:read_mol2", name="mol2: every single-token corruption is rejected or yields complete molecules with the same content",
       functions=["molli.parsing.mol2:read_mol2", f"{M.CLS['Structure']}.yield_from_mol2"])(unit("mol2", tokens=True))


@P.unit(f"{M.CLS['Structure']}.yield_from_mol2", name="undamaged mol2 text: whatever bond type a record carries, the molecule has the bond count its header declares",
        functions=["molli.parsing.mol2:read_mol2", f"{M.CLS['Structure']}.yield_from_mol2", f"{M.CLS['Structure']}.loads_all_mol2"])
def _every_bond_record_is_a_bond(V):
    I, st = V.I, V.st
    T.use(st)
    e = ensemble(V)
    BT = V.cls("molli.chem.bond:BondType")
    bt = V.choose(["Single", "Double", "Triple", "Aromatic", "Amide", "Dummy", "Unknown", "NotConnected"], "bond-type")
    e.fields["_bonds"].items[0].fields["btype"] = I.getattr_(BT, bt)
    V.witness(lambda ev: {"op": "bond-records", "btype": bt, "signature": "bond-records"})
    V.cover()
    w = V.method(e, "dumps_mol2", [])
    V.ensure("records/writer-returns", z3.BoolVal(w.returned))
    if not w.returned:
        return
    try:
        ms = I.call(I.getattr_(V.cls(MOLQ), "loads_all_mol2"), [w.value], {}).items
    except PyExc:
        V.ensure("records/reader-accepts-the-undamaged-text", z3.BoolVal(False))
        return
    V.ensure("records/reader-accepts-the-undamaged-text", z3.BoolVal(len(ms) == 2))
    V.ensure("records/every-molecule-has-the-declared-atom-and-bond-counts",
             z3.BoolVal(all(len(m_.fields["_atoms"].items) == 2 and len(m_.fields["_bonds"].items) == 1 for m_ in ms)))


def _strict_open(fmt):
    def body(V):
        """damage may also be a destroyed BYTE: a file that is not valid text must be rejected by the decoder, i.e. the readers open their
        files with the default strict error handling (errors='ignore' / 'replace' would silently drop or alter characters of a token)"""
        I, st = V.I, V.st
        T.use(st)
        e = ensemble(V)
        w = V.method(e, f"dumps_{fmt}", [])
        V.ensure("open/writer-returns", z3.BoolVal(w.returned))
        if not w.returned:
            return
        clsname = V.choose(["Molecule", "ConformerEnsemble"], "class")
        entry = V.choose(["load", "load_all"], "entry") if clsname == "Molecule" else "load"
        st.ghost["open_hook"] = lambda I_, path, mode: I_.call(I_.ext_models["io.StringIO"], [w.value], {})
        V.witness(lambda ev: {"op": "undecodable-byte", "format": fmt, "signature": "undecodable-byte"})
        V.cover()
        n0 = len(st.trace)
        try:
            r = I.call(I.getattr_(V.cls(M.CLS[clsname]), f"{entry}_{fmt}"), [V.sym("file_name", "str")], {})
            if entry == "load_all":
                list(I.iterate(r))
        except PyExc:
            pass
        opens = [e_ for e_ in st.trace[n0:] if e_[0] == "open-options"]
        V.ensure("open/the-file-is-opened", z3.BoolVal(len(opens) >= 1))
        V.ensure("open/text-is-decoded-strictly-(an-undecodable-byte-is-an-error)",
                 z3.BoolVal(all(e_[3].get("errors") in (None, "strict") for e_ in opens)))
    return body


P.unit(f"{M.CLS['CartesianGeometry']}.load_xyz", name="xyz files are opened with strict text decoding (a destroyed byte is rejected, not dropped)",
       functions=[f"{M.CLS['CartesianGeometry']}.load_xyz", f"{M.CLS['CartesianGeometry']}.load_all_xyz", f"{M.CLS['ConformerEnsemble']}.load_xyz"])(_strict_open("xyz"))
P.unit(f"{M.CLS['Structure']}.load_mol2", name="mol2 files are opened with strict text decoding (a destroyed byte is rejected, not dropped)",
       functions=[f"{M.CLS['Structure']}.load_mol2", f"{M.CLS['Structure']}.load_all_mol2", f"{M.CLS['ConformerEnsemble']}.load_mol2"])(_strict_open("mol2"))


@P.unit("molli.parsing.mol2:read_mol2", name="mol2 with attribute records (UNITY_ATOM_ATTR / UNITY_BOND_ATTR): every truncation is rejected or complete, and the reader terminates",
        functions=["molli.parsing.mol2:read_mol2", "molli.parsing.mol2:LineReader.__next__", "molli.parsing.mol2:LineReader.next_noexcept"])
def _mol2_attr(V):
    """hand-written text in the dialect other programs produce (molli's writer emits no attribute records): truncated at every line
    boundary.  Termination is decided for these inputs only: a spec-less loop that runs 20000 times on a 20-line text is reported."""
    I, st = V.I, V.st
    T.use(st)
    x = [V.sym(f"x{i}", "real") for i in range(6)]
    ft = lambda v: T.Tok("float", v, ".4f")
    lines = ["@<TRIPOS>MOLECULE\n", "attrmol\n", "2 1 0 0 0\n", "SMALL\n", "NO_CHARGES\n", "\n",
             "@<TRIPOS>ATOM\n",
             T.SStr(["1 C1 ", ft(x[0]), " ", ft(x[1]), " ", ft(x[2]), " C.3 1 UNL 0.0\n"]),
             T.SStr(["2 O1 ", ft(x[3]), " ", ft(x[4]), " ", ft(x[5]), " O.3 1 UNL 0.0\n"]),
             "@<TRIPOS>BOND\n", "1 1 2 1\n",
             "@<TRIPOS>UNITY_ATOM_ATTR\n", "1 1\n", "charge 0\n", "2 2\n", "charge -1\n", "note x\n",
             "@<TRIPOS>UNITY_BOND_ATTR\n", "1 1\n", "order 1\n"]
    k = V.choose(list(range(len(lines) + 1)), "truncate-after-line")
    V.witness(lambda ev: {"op": "attr-truncation", "line": k, "signature": "attr-truncation"})
    V.cover()
    text = T.SStr(lines[:k])
    cls = V.cls(MOLQ)
    I.target = "molli.parsing.mol2:read_mol2"
    I.loop_cap = 3000
    try:
        r = I.call(I.getattr_(cls, "loads_all_mol2"), [text], {})
        out = Outcome("return", r)
    except PyExc as ex:
        out = Outcome("raise", exc=ex.value)
    except IterationCap:
        V.ensure("attr/reader-terminates", z3.BoolVal(False))
        return
    V.ensure("attr/reader-terminates", z3.BoolVal(True))
    if not out.returned:
        V.ensure("attr/truncated-text-is-rejected-or-complete", z3.BoolVal(True))
        return
    got = summarize(I, out.value.items)
    V.ensure("attr/truncated-text-is-rejected-or-complete", z3.BoolVal(all(g["n"] == 2 and g["nb"] == 1 for g in got) and len(got) <= 1))
    # attribute records are content: a molecule that is returned carries the attributes the text assigns to its atoms
    # (atom 2's "note"; "charge" is consumed by the molecule constructor and not compared)
    # (a cut BEFORE the optional attribute section leaves a well-formed file without attributes: undetectable, like a cut inside a number;
    #  once the section header is there, its records are part of the molecule)
    hdr = lines.index("@<TRIPOS>UNITY_ATOM_ATTR\n")
    has_note = all("note" in m_.fields["_atoms"].items[1].fields["attrib"].keys for m_ in out.value.items if len(m_.fields["_atoms"].items) == 2)
    V.ensure("attr/returned-molecule-has-the-attributes-of-the-text", z3.BoolVal(bool(has_note) or k <= hdr))


# ------------------------------------------------------------------------------------------ bounded stand-in (real readers, CPython)
P.bounded_in_quick = True       # ~20 s: also runs in the quick tier (reported as bounded, never as proved)


@P.bounded_standin("the real readers on a bundled 7-conformer file damaged at every line, under a wall-clock limit (termination; complete molecules; same content)",
                   "pentane_confs (mol2 and xyz): truncation / deletion / duplication at every line, cuts at token boundaries in the first two molecules, "
                   "single-token corruption of the first molecule's records incl. tokens of 40-5000 characters; 20 s limit per call; ~7700 texts")
def _bounded(seed):
    import subprocess, json, os
    here = os.path.dirname(os.path.dirname(os.path.abspath(__file__)))
    r = subprocess.run(["/venv/bin/python", os.path.join(here, "replay", "C10.py"), "--bounded", str(seed)], capture_output=True, text=True, timeout=3000,
                       env={**os.environ, "PYTHONPATH": os.environ.get("PYVC_REPO", "/repo")})
    try:
        return json.loads(r.stdout.strip().splitlines()[-1])
    except Exception:
        return {"error": (r.stdout + r.stderr)[-500:]}
