"""C15 -- graph queries agree with graph theory.

Adjacency queries and the matcher wiring / predicates are verified with symbolic values.  The traversals (yield_bfsd,
yield_bfs, is_bond_in_ring) are executed by the VC engine on *every labelled graph on 4 atoms* (all 64 edge sets, every
start atom, every direction) against an independent reference (contract-side BFS / bridge test): exhaustive over that
bounded family -- an unbounded inductive proof of the BFS distance invariant was not attempted (DESIGN 3 C15, 4).
A larger bounded stand-in (all graphs on <= 5 atoms, real code under CPython, brute-force embedding search) runs in
the thorough tier and is reported as bounded, never as proved.
"""
import z3, itertools
from pyvc.spec import *
from pyvc.values import *
from pyvc.ops import to_z3
from contracts import mol as M

P = Property("C15", "graph queries agree with graph theory")
P.trust("networkx GraphMatcher(G1, G2, node_match, edge_match).subgraph_isomorphisms_iter() yields exactly the node-induced subgraph "
        "isomorphisms G1 -> G2 accepted by the two predicates, as dicts G1node -> G2node (assumed)")
P.assume("traversals: exhaustive over all labelled graphs on 4 atoms (bounded); adjacency / predicates: symbolic values on a 4-atom spine")
P.not_decided += ["BFS distance / component / ring clauses for graphs of unbounded size: no inductive invariant proof (bounded families only)",
                  "the last step 'in a ring <=> not a bridge' is established per graph of the family, not as a general lemma"]
P.bounded_in_quick = True       # the stand-in takes ~10 s: it also runs in the quick tier (reported as bounded, not as proved)
CON = M.CLS["Connectivity"]
PAIRS = [(0, 1), (0, 2), (0, 3), (1, 2), (1, 3), (2, 3)]


def graph(V, n=None, symbolic_types=False):
    """every labelled simple graph on n atoms (4; 5 in the thorough tier): each possible edge present or not"""
    n = n or (5 if V.tier == "thorough" else 4)
    pairs = PAIRS if n == 4 else list(itertools.combinations(range(n), 2))
    edges = [p for p in pairs if V.choose([False, True], f"edge{p[0]}{p[1]}")]
    m = M.mk_mol(V, "Molecule", n, tuple(edges), name="g", full=symbolic_types)
    return m, edges


def ref_bfs(n, edges, start, direction=None):
    adj = {i: [] for i in range(n)}
    for p, q in edges:
        adj[p].append(q)
        adj[q].append(p)
    if direction is None:
        dist = {start: 0}
        order = [start]
    else:
        dist = {start: 0, direction: 1}
        order = [direction]
    i = 0
    while i < len(order):
        u = order[i]
        i += 1
        for v in adj[u]:
            if v not in dist:
                dist[v] = dist[u] + 1
                order.append(v)
    dist.pop(start)
    return dist

def install_networkx(I):
    """networkx.Graph as a recorder of nodes/edges, and the graph algorithms molli might call on it, computed on the (concrete) graph:
    bridges(G) yields each bridge once as (u, v) with u added to the graph before v (networkx's documented iteration order is the DFS
    order; only 'each bridge once, as a 2-tuple of its end nodes in some order' is assumed by the obligations)."""
    obj = I.builtins["object"]
    G = ClassV("Graph", builtin=True, bases=[obj])
    G.compute_mro()
    G.ns["__pyvc_new__"] = lambda i, c, a, k: Obj(G, {"nodes": [], "edges": []}, tag="nxgraph")
    G.ns["add_node"] = Builtin("add_node", lambda i, a, k: a[0].fields["nodes"].append((a[1], k)))
    G.ns["add_edge"] = Builtin("add_edge", lambda i, a, k: a[0].fields["edges"].append((a[1], a[2], k)))
    I.ext_models["networkx.Graph"] = G

    def comp_bridges(g):
        nodes = [n for n, _ in g.fields["nodes"]]
        idx = lambda x: next(j for j, n in enumerate(nodes) if n is x)
        es = [(idx(u), idx(v)) for u, v, _ in g.fields["edges"]]
        out = []
        for k_, (p, q) in enumerate(es):
            rest = es[:k_] + es[k_ + 1:]
            if (p, q) in rest or (q, p) in rest:
                continue
            if q not in ref_bfs(len(nodes), rest, p):
                out.append((nodes[min(p, q)], nodes[max(p, q)]))
        return out
    I.ext_models["networkx.bridges"] = Builtin("nx.bridges", lambda i, a, k: IterV(iter(comp_bridges(a[0]))), "networkx.bridges (assumed): each bridge once")
    I.ext_models["networkx.has_bridges"] = Builtin("nx.has_bridges", lambda i, a, k: bool(comp_bridges(a[0])))
    return G



@P.unit(f"{CON}.yield_bfsd", name="BFS on every graph with 4 atoms: component, once each, non-decreasing true distances",
        functions=[f"{CON}.yield_bfsd", f"{CON}.yield_bfs", f"{CON}.connected_atoms", f"{CON}.bonds_with_atom"])
def _bfs(V):
    I, st = V.I, V.st
    m, edges = graph(V)
    atoms = m.fields["_atoms"].items
    start = V.choose(list(range(len(atoms))), "start")
    nbrs = sorted({q if p == start else p for p, q in edges if start in (p, q)})
    direction = V.choose([None] + nbrs, "direction")
    V.witness(lambda ev: {"op": "bfs", "edges": edges, "start": start, "direction": direction, "signature": "bfs"})
    V.cover()
    args = [atoms[start]] + ([atoms[direction]] if direction is not None else [])
    I.target = f"{CON}.yield_bfsd"
    try:
        got = [(atoms.index(a), d) for a, d in I.iterate(I.call(I.getattr_(m, "yield_bfsd"), args, {}))]
        got2 = [atoms.index(a) for a in I.iterate(I.call(I.getattr_(m, "yield_bfs"), args, {}))]
    except PyExc:
        V.ensure("bfs/terminates-without-exception", z3.BoolVal(False))
        return
    V.ensure("bfs/terminates-without-exception", z3.BoolVal(True))
    ref = ref_bfs(len(atoms), edges, start, direction)
    V.ensure("bfs/yields-exactly-the-reachable-atoms-once-each", z3.BoolVal(sorted(a for a, _ in got) == sorted(ref) and len({a for a, _ in got}) == len(got)))
    V.ensure("bfs/labels-are-the-true-shortest-distances", z3.BoolVal(all(ref.get(a) == d for a, d in got)))
    V.ensure("bfs/non-decreasing-distance", z3.BoolVal(all(x[1] <= y[1] for x, y in zip(got, got[1:]))))
    V.ensure("bfs/yield_bfs-visits-the-same-atoms-in-the-same-order", z3.BoolVal(got2 == [a for a, _ in got]))


NAMED = {
    "ring5": (5, ((0, 1), (1, 2), (2, 3), (3, 4), (4, 0))),
    "ring6": (6, ((0, 1), (1, 2), (2, 3), (3, 4), (4, 5), (5, 0))),
    "ring6+chord+tail": (7, ((0, 1), (1, 2), (2, 3), (3, 4), (4, 5), (5, 0), (1, 4), (2, 6))),
    "tree-depth3": (8, ((0, 1), (2, 0), (1, 3), (4, 1), (2, 5), (6, 3), (5, 7))),          # some bonds stored with the later atom first
    "fused-5-4": (7, ((0, 1), (1, 2), (2, 3), (3, 4), (4, 0), (3, 5), (5, 6), (6, 4))),
    "spiro+path": (8, ((0, 1), (1, 2), (2, 0), (0, 3), (3, 4), (4, 0), (5, 4), (5, 6), (7, 6))),
}


@P.unit(f"{CON}.yield_bfsd", name="BFS and rings on larger named graphs (5-8 atoms: rings, fused rings, branched tree): every start, direction and bond",
        functions=[f"{CON}.yield_bfsd", f"{CON}.yield_bfs", f"{CON}.is_bond_in_ring"])
def _bfs_named(V):
    I, st = V.I, V.st
    install_networkx(I)
    gname = V.choose(sorted(NAMED), "graph")
    n, edges = NAMED[gname]
    edges = list(edges)
    m = M.mk_mol(V, "Molecule", n, tuple(edges), name="g")
    atoms = m.fields["_atoms"].items
    start = V.choose(list(range(n)), "start")
    nbrs = sorted({q if p == start else p for p, q in edges if start in (p, q)})
    direction = V.choose([None] + nbrs, "direction")
    # atoms may be named by Atom object or by index (AtomLike): index 0 is a legitimate direction
    by = V.choose(["atom", "index"], "atoms-given-as")
    V.witness(lambda ev: {"op": "bfs", "edges": edges, "start": start, "direction": direction, "by": by, "signature": "bfs"})
    V.cover()
    pick = (lambda j: atoms[j]) if by == "atom" else (lambda j: j)
    args = [pick(start)] + ([pick(direction)] if direction is not None else [])
    I.target = f"{CON}.yield_bfsd"
    try:
        got = [(atoms.index(a), d) for a, d in I.iterate(I.call(I.getattr_(m, "yield_bfsd"), args, {}))]
        got2 = [atoms.index(a) for a in I.iterate(I.call(I.getattr_(m, "yield_bfs"), args, {}))]
    except PyExc:
        V.ensure("bfs-named/terminates-without-exception", z3.BoolVal(False))
        return
    V.ensure("bfs-named/terminates-without-exception", z3.BoolVal(True))
    ref = ref_bfs(n, edges, start, direction)
    V.ensure("bfs-named/yields-exactly-the-reachable-atoms-once-each", z3.BoolVal(sorted(a for a, _ in got) == sorted(ref) and len({a for a, _ in got}) == len(got)))
    V.ensure("bfs-named/labels-are-the-true-shortest-distances", z3.BoolVal(all(ref.get(a) == d for a, d in got)))
    V.ensure("bfs-named/non-decreasing-distance", z3.BoolVal(all(x[1] <= y[1] for x, y in zip(got, got[1:]))))
    V.ensure("bfs-named/yield_bfs-visits-the-same-atoms-in-the-same-order", z3.BoolVal(got2 == [a for a, _ in got]))
    if direction is None:
        # every bond at the start atom: in a ring iff not a bridge
        I.target = f"{CON}.is_bond_in_ring"
        oks = []
        for k, (p, q) in enumerate(edges):
            if start not in (p, q):
                continue
            try:
                r = I.call(I.getattr_(m, "is_bond_in_ring"), [m.fields["_bonds"].items[k]], {})
            except PyExc:
                oks.append(False)
                continue
            rest = [e for j, e in enumerate(edges) if j != k]
            oks.append(r is (q in ref_bfs(n, rest, p)))
        V.witness(lambda ev: {"op": "ring", "edges": edges, "bond": [k for k, e in enumerate(edges) if start in e][0], "signature": "ring"})
        V.ensure("ring-named/reported-in-a-ring-iff-not-a-bridge", z3.BoolVal(all(oks)))


@P.unit(f"{CON}.is_bond_in_ring", name="is_bond_in_ring on every graph with 4 atoms: in a ring iff not a bridge")
def _ring(V):
    I, st = V.I, V.st
    install_networkx(I)
    m, edges = graph(V)
    if not edges:
        return
    k = V.choose(list(range(len(edges))), "bond")
    b = m.fields["_bonds"].items[k]
    V.witness(lambda ev: {"op": "ring", "edges": edges, "bond": k, "signature": "ring"})
    V.cover()
    out = V.method(m, "is_bond_in_ring", [b], qual=f"{CON}.is_bond_in_ring")
    p, q = edges[k]
    rest = [e for j, e in enumerate(edges) if j != k]
    still = q in ref_bfs(len(m.fields["_atoms"].items), rest, p)        # endpoints still connected without the bond <=> the bond is not a bridge
    V.ensure("ring/reported-in-a-ring-iff-not-a-bridge", z3.BoolVal(out.returned and out.value is still))


def order_spec(bt):
    return z3.If(bt == 20, z3.RealVal("3/2"), z3.If(bt == 99, z3.RealVal(-1), z3.If(z3.Or(bt == 10, bt == 11, bt == 98, bt == 101), z3.RealVal(0),
                 z3.If(z3.And(bt >= 0, bt <= 6), z3.ToReal(bt), z3.RealVal(1)))))


@P.unit("molli.chem.bond:Bond.order", name="Bond.order: the order of every bond type (ligand / dummy / not-connected / H-acceptor bonds use up no valence)")
def _bond_order(V):
    I, st = V.I, V.st
    m = M.mk_mol(V, "Molecule", 2, ((0, 1),), name="g", full=True)
    b = m.fields["_bonds"].items[0]
    bt = b.fields["btype"].z
    V.witness(lambda ev: {"op": "bond-order", "btype": ev(bt), "signature": "bond-order"})
    V.cover()
    r = V.method(b, "order", []) if False else None
    val = I.getattr_(b, "order")
    fo = to_z3(b.fields["f_order"], "real")
    V.ensure("order/table", to_z3(val, "real") == z3.If(bt == 99, fo, order_spec(bt)))


@P.unit(f"{CON}.bonds_with_atom", name="adjacency queries agree with the bond list",
        functions=[f"{CON}.bonds_with_atom", f"{CON}.connected_atoms", f"{CON}.bonded_valence", f"{CON}.n_bonds_with_atom", f"{CON}.lookup_bond",
                   "molli.chem.bond:Bond.order", "molli.chem.bond:Bond.__contains__", "molli.chem.bond:Bond.__mod__"])
def _adjacency(V):
    I, st = V.I, V.st
    shape = V.choose([((0, 1), (1, 2), (3, 1)), ((0, 1), (1, 0), (2, 3)), ()], "bonds")
    m = M.mk_mol(V, "Molecule", 4, shape, name="g", full=True)
    for b in m.fields["_bonds"].items:
        V.assume(b.fields["btype"].z != 99)      # FractionalOrder reads f_order: covered by the f_order clause below
    atoms, bonds = m.fields["_atoms"].items, m.fields["_bonds"].items
    j = V.choose([0, 1, 2, 3], "atom")
    # the atom may be named by the Atom object or by its index (AtomLike): every query must resolve it the same way
    by = V.choose(["atom", "index"], "atom-given-as")
    a = atoms[j] if by == "atom" else j
    V.witness(lambda ev: {"op": "adjacency", "by": by, "signature": "adjacency"})
    V.cover()
    mine = [b for b, (p, q) in zip(bonds, shape) if j in (p, q)]
    got = list(I.iterate(I.call(I.getattr_(m, "bonds_with_atom"), [a], {})))
    V.ensure("adjacency/bonds_with_atom-is-the-subsequence-of-bonds-containing-it", z3.BoolVal(got == mine))
    others = [atoms[q if p == j else p] for (p, q) in shape if j in (p, q)]
    gotn = list(I.iterate(I.call(I.getattr_(m, "connected_atoms"), [a], {})))
    V.ensure("adjacency/connected_atoms-are-the-other-endpoints", z3.BoolVal(gotn == others))
    n = I.call(I.getattr_(m, "n_bonds_with_atom"), [a], {})
    V.ensure("adjacency/n_bonds_with_atom-counts-them", z3.BoolVal(n == len(mine)))
    bv = I.call(I.getattr_(m, "bonded_valence"), [a], {})
    spec = sum([order_spec(b.fields["btype"].z) for b in mine], z3.RealVal(0))
    V.ensure("adjacency/bonded_valence-is-the-sum-of-bond-orders", to_z3(bv, "real") == spec)
    for i2 in range(4):
        r = I.call(I.getattr_(m, "lookup_bond"), [a, atoms[i2]], {})
        want = [b for b, (p, q) in zip(bonds, shape) if {p, q} == {j, i2}]
        V.ensure(f"adjacency/lookup_bond-finds-a-bond-joining-the-pair-or-None/{i2}", z3.BoolVal((r is None and not want) or (bool(want) and r is want[0])))


@P.unit(f"{CON}._node_match", name="matcher predicates and wiring", functions=[f"{CON}._node_match", f"{CON}._edge_match", f"{CON}.match",
                                                                                   f"{CON}.get_substr_indices", f"{CON}.to_nxgraph"])
def _matching(V):
    I, st = V.I, V.st
    E = V.cls("molli.chem.atom:Element")
    cls = V.cls(CON)
    # ---- node predicate: with a plain pattern atom (no isotope / stereo constraint) it is exactly element compatibility
    e1, e2 = V.sym_enum("e_mol", E), V.sym_enum("e_pat", E)
    AS = V.cls("molli.chem.atom:AtomStereo")
    AT = V.cls("molli.chem.atom:AtomType")
    d1 = DictV([("element", e1), ("isotope", None), ("stereo", V.sym_enum("s1", AS)), ("atype", V.sym_enum("t1", AT))])
    d2 = DictV([("element", e2), ("isotope", None), ("stereo", I.getattr_(AS, "Unknown")), ("atype", V.sym_enum("t2", AT))])
    V.cover()
    r = I.call(I.getattr_(cls, "_node_match"), [d1, d2], {})
    V.ensure("match/node:Unknown-matches-any-else-elements-must-agree", I.truth(r) == z3.Or(e2.z == 0, e1.z == e2.z)
             if not isinstance(I.truth(r), bool) else z3.BoolVal(I.truth(r)) == z3.Or(e2.z == 0, e1.z == e2.z))
    # ---- edge predicate: an unconstrained pattern bond (type Unknown, stereo Unknown, no label) accepts every bond
    BT, BS = V.cls("molli.chem.bond:BondType"), V.cls("molli.chem.bond:BondStereo")
    ed1 = DictV([("btype", V.sym_enum("bt1", BT)), ("stereo", V.sym_enum("bs1", BS)), ("label", None)])
    ed2 = DictV([("btype", I.getattr_(BT, "Unknown")), ("stereo", I.getattr_(BS, "Unknown")), ("label", None)])
    r2 = I.call(I.getattr_(cls, "_edge_match"), [ed1, ed2], {})
    V.ensure("match/edge:unconstrained-pattern-bond-accepts-every-bond", z3.BoolVal(r2 is True))
    # ---- wiring: (molecule, pattern) order, inverted dictionaries, indices in pattern-atom order
    mol = M.mk_mol(V, "Molecule", 3, ((0, 1), (1, 2)), name="mol")
    pat = M.mk_mol(V, "Connectivity", 2, ((0, 1),), name="pat")
    ma, pa = mol.fields["_atoms"].items, pat.fields["_atoms"].items
    calls = []
    obj = I.builtins["object"]
    G = install_networkx(I)
    # VF2 reports each mapping in the order in which it assigned the nodes -- not necessarily the order of the pattern's atoms
    isos = [DictV([(ma[1], pa[0]), (ma[2], pa[1])]), DictV([(ma[1], pa[1]), (ma[2], pa[0])])]

    def matcher(i, a, k):
        calls.append((a, k))
        return Obj(obj, {"subgraph_isomorphisms_iter": Builtin("iter", lambda i2, a2, k2: IterV(iter(isos)))})
    I.ext_models["networkx.isomorphism.GraphMatcher"] = Builtin("GraphMatcher", matcher)
    I.ext_models["networkx.isomorphism"] = ExtModuleV("networkx.isomorphism")
    got = list(I.iterate(I.call(I.getattr_(mol, "match"), [pat], {})))
    okw = (len(calls) == 1 and len(calls[0][0]) == 2 and [n for n, _ in calls[0][0][0].fields["nodes"]] == ma and [n for n, _ in calls[0][0][1].fields["nodes"]] == pa
           and getattr(calls[0][1].get("node_match"), "name", None) == "_node_match" and getattr(calls[0][1].get("edge_match"), "name", None) == "_edge_match")
    V.ensure("match/matcher-gets-(molecule,pattern)-and-the-two-predicates", z3.BoolVal(bool(okw)))
    V.ensure("match/graphs-carry-every-atom-and-bond", z3.BoolVal(len(calls) == 1 and len(calls[0][0][0].fields["edges"]) == 2 and len(calls[0][0][1].fields["edges"]) == 1))
    V.ensure("match/results-map-pattern-atoms-to-molecule-atoms",
             z3.BoolVal(len(got) == 2 and all(isinstance(g, DictV) for g in got)
                        and {id(k_): v_ for k_, v_ in zip(got[0].keys, got[0].vals)} == {id(pa[0]): ma[1], id(pa[1]): ma[2]}
                        and {id(k_): v_ for k_, v_ in zip(got[1].keys, got[1].vals)} == {id(pa[0]): ma[2], id(pa[1]): ma[1]}))
    idx = [x.items if isinstance(x, ListV) else x for x in I.iterate(I.call(I.getattr_(mol, "get_substr_indices"), [pat], {}))]
    V.ensure("match/get_substr_indices-lists-images-in-pattern-atom-order", z3.BoolVal(idx == [[1, 2], [2, 1]]))
    # the ensemble class has its own get_substr_indices: same contract
    ens = M.mk_ens(V, 2, 3, bonds=((0, 1), (1, 2)), name="en")
    ea = ens.fields["_atoms"].items
    del isos[:]
    isos.extend([DictV([(ea[1], pa[0]), (ea[2], pa[1])]), DictV([(ea[1], pa[1]), (ea[2], pa[0])])])
    idx2 = [x.items if isinstance(x, ListV) else x for x in I.iterate(I.call(I.getattr_(ens, "get_substr_indices"), [pat], {}))]
    V.ensure("match/ensemble.get_substr_indices-lists-images-in-pattern-atom-order", z3.BoolVal(idx2 == [[1, 2], [2, 1]]))


@P.bounded_standin("all graphs on <= 5 atoms (real code under CPython): BFS, ring test, matching vs brute force", "n_atoms <= 5 (BFS/ring), pattern <= 3 atoms in molecules <= 4 atoms (matching)")
def _bounded(seed):
    import subprocess, json, os, sys
    here = os.path.dirname(os.path.dirname(os.path.abspath(__file__)))
    r = subprocess.run(["/venv/bin/python", os.path.join(here, "replay", "C15.py"), "--bounded", str(seed)], capture_output=True, text=True, timeout=3000,
                       env={**os.environ, "PYTHONPATH": os.environ.get("PYVC_REPO", "/repo")})
    try:
        return json.loads(r.stdout.strip().splitlines()[-1])
    except Exception:
        return {"error": (r.stdout + r.stderr)[-500:]}
