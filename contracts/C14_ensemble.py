"""C14 -- a conformer ensemble stays rectangular and its conformers are live views.

Rect(e): _coords.shape = (nc, na, 3), _atomic_charges.shape = (nc, na), _weights.shape = (nc,), na = len(atoms).
Proved after every constructor branch and preserved by append / extend / scale / invert / translate / rotate
on every exit; Conformer(e, i) reads and writes row i only; iteration (also nested) visits each conformer
exactly once in order.  Shapes are concrete per unit (0..2 conformers x 0..2 atoms), all values symbolic.
"""
import z3
from pyvc.spec import *
from pyvc.values import *
from pyvc.ops import to_z3
from pyvc import npmodel as NP
from contracts import mol as M

P = Property("C14", "ensembles stay rectangular; conformers are live views")
P.trust("numpy: allocation, np.append(axis=0), newaxis, broadcasting assignment raising on mismatch, basic indexing returns views")
P.assume("shapes are concrete per unit (0..2 conformers, 0..2 atoms): shape arithmetic is exercised for empty, single and "
         "multiple rows; values are symbolic; history quantifier by induction on Rect")
ENS = M.CLS["ConformerEnsemble"]
CONF = "molli.chem.ensemble:Conformer"


def _rows_equal(I, a, b):
    fa, fb = NP.flat(a), NP.flat(b)
    if len(fa) != len(fb):
        return False
    return I.and_(*[M._same(I, x, y) for x, y in zip(fa, fb)])


# ------------------------------------------------------------------------------------------ constructors
@P.unit(f"{ENS}.__init__", name="ConformerEnsemble.__init__")
def _init(V):
    I, st = V.I, V.st
    branch = V.choose(["molecules", "ensemble", "molecule", "molecule+n", "atoms+arrays", "empty"], "source")
    cls = V.cls(ENS)
    V.witness(lambda ev: {"op": "init", "branch": branch, "signature": f"init/{branch}"})
    args, kw = [], {}
    # (zero-atom sources are exercised through the 'empty' branch; the nested-list numpy model drops trailing
    #  dimensions of zero-size arrays that are re-wrapped in python lists)
    na = V.choose([2, 1], "na") if branch in ("molecules", "ensemble", "molecule") else 2
    exp_nc = None
    if branch == "molecules":
        n = V.choose([1, 2], "n")
        mols = [M.mk_mol(V, "Molecule", na, ((0, 1),) if na > 1 else (), name=f"m{i}") for i in range(n)]
        args = [ListV(mols)]
        exp_nc = n
        src_coords = [m.fields["_coords"].data for m in mols]
        src_q = [m.fields["_atomic_charges"].data for m in mols]
    elif branch == "ensemble":
        nc = V.choose([2, 0], "nc")
        src = M.mk_ens(V, nc, na, name="src")
        args = [src]
        exp_nc = nc
    elif branch == "molecule":
        args = [M.mk_mol(V, "Molecule", na, ((0, 1),) if na > 1 else (), name="m0")]
        exp_nc = 1
    elif branch == "molecule+n":
        args = [M.mk_mol(V, "Molecule", 2, ((0, 1),), name="m0")]
        kw = {"n_conformers": 2}
        exp_nc = 2
    elif branch == "atoms+arrays":
        E = V.cls("molli.chem.atom:Element")
        args = [ListV([V.sym_enum("e0", E), V.sym_enum("e1", E)])]
        good = V.choose([True, False], "shapes-match")
        ncw = 2 if good else 3
        kw = {"n_conformers": 2,
              "coords": ListV([ListV([ListV([V.sym(f"x{i}{j}{k}", "real") for k in range(3)]) for j in range(2)]) for i in range(2)]),
              "weights": ListV([V.sym(f"w{i}", "real") for i in range(ncw)])}
        exp_nc = 2 if good else None
    else:
        kw = {"n_conformers": V.choose([0, 2], "nc"), "n_atoms": V.choose([0, 2], "na")}
        exp_nc = kw["n_conformers"]
    V.cover()
    I.target = f"{ENS}.__init__"
    try:
        e = I.call(cls, args, kw)
        out = Outcome("return", e)
    except PyExc as ex:
        out = Outcome("raise", exc=ex.value)
    if exp_nc is None:
        V.ensure("post-exc/mismatching-arrays-rejected", z3.BoolVal(out.kind == "raise"))
        return
    V.ensure("post/constructed", z3.BoolVal(out.returned))
    if not out.returned:
        return
    M.ensure_rect(V, e, "post/rect")
    c = e.fields["_coords"]
    V.ensure("post/conformer-count", z3.BoolVal(isinstance(c, NdArr) and c.tail[:1] == (exp_nc,)))
    if branch == "molecules" and isinstance(c, NdArr) and c.tail == (exp_nc, na, 3):
        V.ensure("post/coords-are-the-molecules'", _rows_equal(I, c.data, src_coords))
        V.ensure("post/charges-are-the-molecules'", _rows_equal(I, e.fields["_atomic_charges"].data, src_q))
    if branch == "ensemble" and isinstance(c, NdArr) and c.tail == (exp_nc, na, 3):
        V.ensure("post/arrays-copied-from-the-source", I.and_(_rows_equal(I, c.data, src.fields["_coords"].data),
                                                              _rows_equal(I, e.fields["_atomic_charges"].data, src.fields["_atomic_charges"].data),
                                                              _rows_equal(I, e.fields["_weights"].data, src.fields["_weights"].data)))
        V.ensure("post/arrays-not-shared-with-the-source",
                 z3.BoolVal(c is not src.fields["_coords"] and c.data is not src.fields["_coords"].data
                            and (not c.data or c.data[0] is not src.fields["_coords"].data[0])))


# ------------------------------------------------------------------------------------------ append / extend
def grow_unit(op):
    def body(V):
        I, st = V.I, V.st
        # (appending to an ensemble that has no atoms at all is outside the claim: it has no atom list to describe)
        nc, na = V.choose([(1, 2), (2, 2), (0, 2)], "shape")
        e = M.mk_ens(V, nc, na if nc else (na if na else 0))
        if nc == 0 and na == 0:
            e.fields["_atoms"] = ListV([])
            e.fields["_bonds"] = ListV([])
        before = {f: NP._copy(e.fields[f].data) for f in ("_coords", "_atomic_charges", "_weights")}
        na_new = na if na else 2
        # a geometry with another number of atoms cannot become a conformer: the call is refused, and a refused call leaves the
        # ensemble as it was (rectangular, same conformers) -- "after any sequence of ... appends, extends"
        misfit = V.choose([False, True], "geometry-has-another-atom-count") if nc > 0 else False
        if misfit:
            na_new = na + 1
        if op == "append":
            g = M.mk_mol(V, "Molecule", na_new, ((0, 1),), name="g")
            args, k = [g], 1
            new_coords = [g.fields["_coords"].data]
        else:
            srckind = V.choose(["list", "ensemble"], "source")
            if srckind == "list":
                gs = [M.mk_mol(V, "Molecule", na_new, ((0, 1),), name=f"g{i}") for i in range(2)]
                args, k = [ListV(gs)], 2
                new_coords = [x.fields["_coords"].data for x in gs]
            else:
                o = M.mk_ens(V, 2, na_new, name="o")
                args, k = [o], 2
                new_coords = o.fields["_coords"].data
        V.witness(lambda ev: {"op": op, "nc": nc, "na": na, "k": k, "misfit": misfit, "signature": f"{op}" + ("/misfit" if misfit else "")})
        V.cover()
        out = V.method(e, op, args, qual=f"{ENS}.{op}")
        if nc == 0 and na == 0:
            # empty ensemble without atoms: only `append` documents adoption of the first geometry's shape; rectangularity
            # then requires atoms, which an empty ensemble does not have -> must not silently succeed with 0 atoms
            if out.returned:
                M.ensure_rect(V, e, "post/rect")
            return
        if misfit:
            V.ensure("misfit/refused", z3.BoolVal(not out.returned))
            M.ensure_rect(V, e, "misfit/rect")
            same = all(isinstance(e.fields[f], NdArr) and NP.shape_of(e.fields[f].data) == NP.shape_of(before[f]) for f in before)
            V.ensure("misfit/ensemble-left-as-it-was", I.and_(same, *([_rows_equal(I, e.fields[f].data, before[f]) for f in before] if same else [])))
            return
        V.ensure("post/returns", z3.BoolVal(out.returned))
        if not out.returned:
            return
        M.ensure_rect(V, e, "post/rect")
        c = e.fields["_coords"]
        ok = isinstance(c, NdArr) and c.tail == (nc + k, na, 3)
        V.ensure("post/conformer-count-grows-by-the-number-appended", z3.BoolVal(ok))
        if ok:
            V.ensure("post/existing-conformers-unchanged", _rows_equal(I, c.data[:nc], before["_coords"]))
            V.ensure("post/new-coordinates-are-the-arguments'", _rows_equal(I, c.data[nc:], new_coords))
            q = e.fields["_atomic_charges"]
            if isinstance(q, NdArr) and q.tail == (nc + k, na):
                V.ensure("post/existing-charges-unchanged", _rows_equal(I, q.data[:nc], before["_atomic_charges"]))
            w = e.fields["_weights"]
            if isinstance(w, NdArr) and w.tail == (nc + k,):
                V.ensure("post/existing-weights-unchanged", _rows_equal(I, w.data[:nc], before["_weights"]))
            # the ensemble owns its arrays: no buffer is shared with the structures it was grown from (editing a conformer must not
            # edit the source molecule, and vice versa)
            def buffers(x):
                out_ = set()
                if isinstance(x, list):
                    out_.add(id(x))
                    for y in x:
                        out_ |= buffers(y)
                return out_
            mine = set()
            for f in ("_coords", "_atomic_charges", "_weights"):
                a_ = e.fields.get(f)
                if isinstance(a_, NdArr):
                    mine |= buffers(a_.data) | {id(a_)}
            theirs = set()
            srcs = args[0].items if isinstance(args[0], ListV) else [args[0]]
            for s_ in srcs:
                for f in ("_coords", "_atomic_charges", "_weights"):
                    a_ = s_.fields.get(f) if isinstance(s_, Obj) else None
                    if isinstance(a_, NdArr):
                        theirs |= buffers(a_.data) | {id(a_)}
            V.ensure("post/no-array-shared-with-the-appended-structures", z3.BoolVal(not (mine & theirs)))
    return body


P.unit(f"{ENS}.append", name="ConformerEnsemble.append")(grow_unit("append"))
P.unit(f"{ENS}.extend", name="ConformerEnsemble.extend")(grow_unit("extend"))


# ------------------------------------------------------------------------------------------ collective transformations
@P.unit(f"{ENS}.scale", name="scale/invert/translate/rotate keep Rect",
        functions=[f"{ENS}.scale", f"{ENS}.invert", f"{ENS}.translate", f"{ENS}.rotate"])
def _transforms(V):
    I, st = V.I, V.st
    nc, na = V.choose([(2, 2), (1, 1), (0, 2)], "shape")
    e = M.mk_ens(V, nc, na)
    op = V.choose(["scale", "invert", "translate1", "translate2", "rotate"], "op")
    q0, w0 = NP._copy(e.fields["_atomic_charges"].data), NP._copy(e.fields["_weights"].data)
    V.witness(lambda ev: {"op": "transform", "which": op, "nc": nc, "na": na, "signature": f"transform/{op}"})
    V.cover()
    if op == "scale":
        f = V.sym("f", "real")
        out = V.method(e, "scale", [f], qual=f"{ENS}.scale")
        if not out.returned:
            V.ensure("post-exc/scale-raises-only-for-nonpositive-factor", f.z <= 0)
    elif op == "invert":
        out = V.method(e, "invert", [], qual=f"{ENS}.invert")
        V.ensure("post/returns", z3.BoolVal(out.returned))
    elif op == "translate1":
        out = V.method(e, "translate", [ListV([V.sym(f"v{i}", "real") for i in range(3)])], qual=f"{ENS}.translate")
        V.ensure("post/returns", z3.BoolVal(out.returned))
    elif op == "translate2":
        out = V.method(e, "translate", [ListV([ListV([V.sym(f"v{c}{i}", "real") for i in range(3)]) for c in range(nc)])], qual=f"{ENS}.translate")
        if nc > 0:
            V.ensure("post/returns", z3.BoolVal(out.returned))
    else:
        # the matrix: 3x3, or something that is not one rotation (a stack of two matrices, a 3x4 matrix): whatever the call does
        # with those, the ensemble stays rectangular with its conformer and atom count
        rshape = V.choose(["3x3", "2x3x3", "3x4"], "matrix-shape")
        if rshape == "3x3":
            R = NP.mk([[V.sym(f"r{i}{j}", "real") for j in range(3)] for i in range(3)])
        elif rshape == "2x3x3":
            R = NP.mk([[[V.sym(f"r{c}{i}{j}", "real") for j in range(3)] for i in range(3)] for c in range(2)])
        else:
            R = NP.mk([[V.sym(f"r{i}{j}", "real") for j in range(4)] for i in range(3)])
        out = V.method(e, "rotate", [R], qual=f"{ENS}.rotate"); V.dbg=(out, out.exc and out.exc.fields)
        if rshape == "3x3":
            V.ensure("post/returns", z3.BoolVal(out.returned))
        c_ = e.fields["_coords"]
        V.ensure("post/rotate-keeps-the-conformer-and-atom-count", z3.BoolVal(isinstance(c_, NdArr) and tuple(c_.tail) == (nc, na, 3)))
    M.ensure_rect(V, e, "post/rect")
    V.ensure("frame/charges-and-weights-untouched", I.and_(_rows_equal(I, e.fields["_atomic_charges"].data, q0),
                                                          _rows_equal(I, e.fields["_weights"].data, w0)))


# ------------------------------------------------------------------------------------------ conformer views
@P.unit(f"{CONF}.__init__", name="Conformer is a live view of row i",
        functions=[f"{CONF}.__init__", f"{CONF}._coords", f"{CONF}._atomic_charges", f"{CONF}._atoms", f"{CONF}._bonds",
                   f"{ENS}.__getitem__", f"{CONF}.name", f"{CONF}.charge", f"{CONF}.mult"])
def _view(V):
    I, st = V.I, V.st
    e = M.mk_ens(V, 2, 2)
    i = V.sym("i", "int")
    V.assume(z3.And(i.z >= 0, i.z < 2))
    V.cover()
    I.target = f"{ENS}.__getitem__"
    c = I.getitem(e, i)
    V.ensure("post/is-a-conformer", z3.BoolVal(isinstance(c, Obj) and c.cls.name == "Conformer"))
    coords = I.getattr_(c, "coords")
    q = I.getattr_(c, "atomic_charges")
    for r in range(2):
        V.ensure(f"post/reads-row-i/{r}", z3.Implies(i.z == r, I.and_(_rows_equal(I, coords.data, e.fields["_coords"].data[r]),
                                                                      _rows_equal(I, q.data, e.fields["_atomic_charges"].data[r]))))
    V.ensure("post/shares-atoms-bonds-name-charge-mult",
             z3.BoolVal(I.getattr_(c, "atoms") is e.fields["_atoms"] and I.getattr_(c, "bonds") is e.fields["_bonds"]
                        and I.getattr_(c, "name") is e.fields["_name"] and I.getattr_(c, "charge") is e.fields["charge"]
                        and I.getattr_(c, "mult") is e.fields["mult"]))
    # write through: in-place edit of one coordinate and whole-array assignment
    before = NP._copy(e.fields["_coords"].data)
    nv = V.sym("nv", "real")
    I.setitem(I.getattr_(c, "coords"), (0, 1), nv)
    newc = ListV([ListV([V.sym(f"n{j}{k}", "real") for k in range(3)]) for j in range(2)])
    after1 = NP._copy(e.fields["_coords"].data)
    for r in range(2):
        V.ensure(f"post/in-place-write-goes-through-to-row-i/{r}",
                 z3.Implies(i.z == r, I.and_(M._same(I, after1[r][0][1], nv), _rows_equal(I, after1[1 - r], before[1 - r]))))
    I.setattr_(c, "coords", newc)
    after2 = e.fields["_coords"].data
    for r in range(2):
        V.ensure(f"post/assignment-goes-through-to-row-i-only/{r}",
                 z3.Implies(i.z == r, I.and_(_rows_equal(I, after2[r], [list(x.items) for x in newc.items]),
                                             _rows_equal(I, after2[1 - r], after1[1 - r]))))
    M.ensure_rect(V, e, "post/rect")


@P.unit(f"{CONF}.__init__", name="a Conformer handle taken before append/extend is still a live view afterwards",
        functions=[f"{CONF}._coords", f"{CONF}._atomic_charges", f"{ENS}.append", f"{ENS}.extend"])
def _view_after_growth(V):
    I, st = V.I, V.st
    how = V.choose(["append", "extend"], "growth")
    e = M.mk_ens(V, 2, 2)
    V.witness(lambda ev: {"op": "view-after-growth", "how": how, "signature": "view-after-growth"})
    V.cover()
    c = I.getitem(e, 1)                                    # the handle is taken first ...
    g = M.mk_mol(V, "Molecule", 2, ((0, 1),), name="g")
    out = V.method(e, how, [g] if how == "append" else [ListV([g])], qual=f"{ENS}.{how}")     # ... then the parent arrays are re-bound
    V.ensure("live/growth-returns", z3.BoolVal(out.returned))
    if not out.returned:
        return
    cur = e.fields["_coords"].data
    V.ensure("live/handle-reads-the-current-row", I.and_(_rows_equal(I, I.getattr_(c, "coords").data, cur[1]),
                                                        _rows_equal(I, I.getattr_(c, "atomic_charges").data, e.fields["_atomic_charges"].data[1])))
    nv, nq = V.sym("nv", "real"), V.sym("nq", "real")
    I.setitem(I.getattr_(c, "coords"), (0, 2), nv)
    I.setitem(I.getattr_(c, "atomic_charges"), 1, nq)
    V.ensure("live/in-place-writes-reach-the-ensemble", I.and_(M._same(I, e.fields["_coords"].data[1][0][2], nv), M._same(I, e.fields["_atomic_charges"].data[1][1], nq)))
    newc = ListV([ListV([V.sym(f"m{j}{k}", "real") for k in range(3)]) for j in range(2)])
    I.setattr_(c, "coords", newc)
    V.ensure("live/assignment-reaches-the-ensemble", _rows_equal(I, e.fields["_coords"].data[1], [list(x.items) for x in newc.items]))
    M.ensure_rect(V, e, "live/rect")


# ------------------------------------------------------------------------------------------ iteration
@P.unit(f"{ENS}.__iter__", name="iteration visits each conformer once, also nested", functions=[f"{ENS}.__iter__", f"{ENS}.__next__"])
def _iteration(V):
    I, st = V.I, V.st
    nc = V.choose([2, 1, 0], "nc")
    e = M.mk_ens(V, nc, 1, bonds=())
    V.witness(lambda ev: {"op": "nested-iteration", "nc": nc, "signature": "nested-iteration"})
    V.cover()
    I.target = f"{ENS}.__iter__"
    it = I.builtins["iter"]
    nx = I.builtins["next"]

    def ids(xs):
        return [x.fields["_conf_id"] if isinstance(x, Obj) else None for x in xs]
    # plain iteration
    seq = list(I.iterate(e))
    V.ensure("post/plain-iteration-in-order", z3.BoolVal(ids(seq) == list(range(nc)) and all(x.fields["_parent"] is e for x in seq)))
    # nested iteration: every (outer, inner) pair exactly once, in order
    pairs = []
    for a in I.iterate(e):
        for b in I.iterate(e):
            pairs.append((a.fields["_conf_id"], b.fields["_conf_id"]))
    V.ensure("post/nested-iteration-visits-every-pair-once", z3.BoolVal(pairs == [(i, j) for i in range(nc) for j in range(nc)]))
    # two interleaved iterators are independent
    if nc == 2:
        i1 = I.call(it, [e], {})
        i2 = I.call(it, [e], {})
        try:
            got = [I.call(nx, [i1], {}), I.call(nx, [i2], {}), I.call(nx, [i1], {}), I.call(nx, [i2], {})]
            V.ensure("post/interleaved-iterators-independent", z3.BoolVal(ids(got) == [0, 0, 1, 1]))
        except PyExc:
            V.ensure("post/interleaved-iterators-independent", z3.BoolVal(False))


@P.unit(f"{ENS}.__getitem__", name="slicing yields the conformer views of the selected rows")
def _slices(V):
    I, st = V.I, V.st
    nc, na = V.choose([(2, 1), (1, 2), (2, 3)], "shape")      # non-square on purpose
    e = M.mk_ens(V, nc, na, bonds=())
    lo = V.choose([None, 0, 1, -1], "start")
    hi = V.choose([None, 1, 2, 5], "stop")
    V.witness(lambda ev: {"op": "slice", "nc": nc, "na": na, "start": lo, "stop": hi, "signature": "slice"})
    V.cover()
    out = V.method(e, "__getitem__", [slice(lo, hi, None)], qual=f"{ENS}.__getitem__")
    V.ensure("post/returns", z3.BoolVal(out.returned))
    if out.returned:
        items = out.value.items if isinstance(out.value, ListV) else None
        want = list(range(nc))[slice(lo, hi)]
        V.ensure("post/one-view-per-selected-conformer-in-order",
                 z3.BoolVal(items is not None and [x.fields.get("_conf_id") for x in items] == want and all(x.fields.get("_parent") is e for x in items)))
    bad = V.method(e, "__getitem__", ["x"], qual=None)
    V.ensure("post-exc/other-locators-rejected", z3.BoolVal(bad.raised(I, "ValueError")))


# ------------------------------------------------------------------------------------------ "can be written and serialised"
# the writers / codecs / pickle route have their contracts in C07, C01 and C06; the units that concern ensembles and conformer views
# are part of this check (shared units)
from contracts import C07_mol2 as C07, C01_library_codec as C01, C06_copies as C06
P.include(C07.P, ["mol2 text of an ensemble"], why="an ensemble (conformer by conformer) can be written and read back under its name")
P.include(C01.P, ["roundtrip[ens v2]"], why="an ensemble can be serialised and comes back with every conformer")
P.include(C06.P, ["pickle / deepcopy of a ConformerEnsemble", "pickle / deepcopy of a Conformer"], why="ensembles and conformer views survive pickle / deepcopy")
