"""C09 -- every public load/dump entry point agrees with the class-level codec.

Functions under contract: molli.reader:{load,loads,load_all,loads_all}, molli.writer:{dump,dumps}.
The class-level codecs (Molecule/Structure/ConformerEnsemble .load*/dump*) are *uninterpreted* here
(their behaviour is C07/C08); what is proved is equality of result terms / effect traces for the
whole dispatch matrix: fmt is a symbolic string, the other axes are enumerated by path splitting.
"""
import z3
from pyvc.spec import *
from pyvc.values import *
from pyvc.models import path_suffix
from contracts import common as C

P = Property("C09", "public load/dump entry points agree with the class codecs")
P.trust("io/pathlib: open() either raises OSError or returns a fresh stream; Path.suffix is a function of the path")
P.assume("class-level codecs are uninterpreted (may return any value or raise); parser/writer argument fixed to 'molli'")
P.not_decided.append("behaviour with parser='openbabel' (external optional dependency) is not covered")

CODEC_METHODS = ["load_xyz", "loads_xyz", "load_all_xyz", "loads_all_xyz", "load_mol2", "loads_mol2", "load_all_mol2",
                 "loads_all_mol2", "dump_xyz", "dumps_xyz", "dump_mol2", "dumps_mol2"]
CLASSES = ["molli.chem.molecule:Molecule", "molli.chem.ensemble:ConformerEnsemble", "molli.chem.structure:Structure"]


@P.setup
def _setup(I):
    # every class-level codec reachable from the three classes becomes an uninterpreted call
    I.st = State()
    for cq in CLASSES:
        mod, _, cn = cq.partition(":")
        cls = I.module_global(mod, cn)
        for name in CODEC_METHODS:
            ca, owner = cls.lookup(name)
            if owner is None:
                continue
            f = ca.func if isinstance(ca, ClassMethodV) else ca
            if isinstance(f, FuncV):
                I.stubs[f.qual] = C.uninterpreted(name)
    def cdxml_new(I, cls, args, kwargs):
        C.uninterpreted("CDXMLFile")(I, cls, args, kwargs)
        # two drawn fragments (the list length is the only bounded dimension of this unit)
        return Obj(cls, {"xfrags": ListV([Opaque("obj:frag0"), Opaque("obj:frag1")])}, tag="cdxf")
    I.stubs["molli.ftypes.cdxml:CDXMLFile"] = cdxml_new
    I.stubs["molli.ftypes.cdxml:CDXMLFile._parse_fragment"] = C.uninterpreted("_parse_fragment")
    I.stubs["molli.ftypes.cdxml:CDXMLFile.__getitem__"] = C.uninterpreted("CDXMLFile.__getitem__")
    for cq in CLASSES:
        mod, _, cn = cq.partition(":")
        I.stubs[f"{cq}.__init__"] = C.uninterpreted(f"{cn}.__init__", ret=None)


OTYPES = ["molecule", "ensemble"] + CLASSES


def resolve_otype(V, o):
    if o == "molecule":
        return V.cls(CLASSES[0])
    if o == "ensemble":
        return V.cls(CLASSES[1])
    return V.cls(o)


def calls(trace, name=None):
    return [e for e in trace if e[0] == "call" and (name is None or e[1] == name)]


def _fmt_setup(V, with_path):
    """fmt axis: explicit symbolic string, or None (deduced from the path suffix)"""
    path = V.sym("path", "str")
    fmt_given = V.choose([True, False], "fmt_given") if with_path else True
    fmt = V.sym("fmt", "str") if fmt_given else None
    efmt = fmt.z if fmt_given else z3.SubString(path_suffix(path.z), 1, z3.Length(path_suffix(path.z)) - 1)
    if not fmt_given:
        # suffix is "" or starts with "." (pathlib); [1:] of "" is ""
        V.assume(z3.Or(path_suffix(path.z) == z3.StringVal(""), z3.PrefixOf(z3.StringVal("."), path_suffix(path.z))))
    return path, fmt, efmt


def _reader_unit(fname, prefix, with_path, expects_list):
    def body(V):
        I, st = V.I, V.st
        path, fmt, efmt = _fmt_setup(V, with_path)
        data = V.sym("data", "str")
        o_in = V.choose(OTYPES, "otype")
        T = resolve_otype(V, o_in)
        name = V.choose([None, "sym"], "name")
        if name == "sym":
            name = V.sym("name", "str")
        V.witness(lambda ev: {"fn": fname, "fmt": ev(fmt) if fmt is not None else None, "path_suffix": ev(path_suffix(path.z)),
                              "otype": o_in, "name": None if name is None else "renamed", "key": V.case and dict(V.case).get("key"), "signature": f"{fname}"})
        V.cover()
        kwargs = {"otype": (o_in if o_in in ("molecule", "ensemble") else T), "name": name}
        key = V.choose([None, "sym"], "key")
        if key == "sym":
            key = V.sym("key", "str")
        if key is not None:
            kwargs["key"] = key
        if fmt is not None or not with_path:
            kwargs["fmt"] = fmt
        out = V.call(f"molli.reader:{fname}", [path if with_path else data], kwargs)
        tr = st.trace
        is_ens = T is V.cls(CLASSES[1])
        opens = [e for e in tr if e[0] in ("open", "open-failed")]
        cl = calls(tr)
        if fname in ("load_all",) and (o_in == "ensemble" or is_ens):
            # documented: load_all refuses to build ensembles
            V.ensure("post/ensemble-rejected", out.raised(I, "ValueError") and not tr)
            return
        if fname == "loads_all" and is_ens:
            # ensembles cannot be produced as lists (load_all says so explicitly): any exception, nothing returned
            sup = z3.Or(efmt == z3.StringVal("xyz"), efmt == z3.StringVal("mol2"))
            V.ensure("post/ensemble-rejected", z3.Implies(sup, z3.BoolVal(out.kind == "raise" and not cl)))
            return
        for f in ("xyz", "mol2"):
            isf = efmt == z3.StringVal(f)
            meth = f"{prefix}_{f}"
            if with_path:
                # open(path,'rt'); T.<meth>(stream, name=name); close -- on every exit the stream is closed
                ok_open = len(opens) == 1 and isinstance(opens[0][-2], Obj) and I.eq(opens[0][-2].fields["s"], path) is True
                if opens and opens[0][0] == "open-failed":
                    good = ok_open and out.raised(I, "OSError") and not cl
                else:
                    stream = opens[0][1] if opens else None
                    good = (ok_open and len(cl) == 1 and cl[0][1] == meth and cl[0][2][0] is T and len(cl[0][2]) == 2
                            and cl[0][2][1] is stream and _kw(cl[0], I) == {"name": name}
                            and stream.fields["closed"]
                            and ((out.returned and out.value is cl[0][4]) or (out.kind == "raise" and out.exc is cl[0][5])))
            else:
                good = (not opens and len(cl) == 1 and cl[0][1] == meth and cl[0][2][0] is T and len(cl[0][2]) == 2
                        and cl[0][2][1] is data and _kw(cl[0], I) == {"name": name}
                        and ((out.returned and out.value is cl[0][4]) or (out.kind == "raise" and out.exc is cl[0][5])))
            V.ensure(f"post/{f}:agrees-with-{'T.' + prefix}_{f}", z3.Implies(isf, z3.BoolVal(bool(good))))
        iscd = efmt == z3.StringVal("cdxml")
        if with_path:
            # cdxml has no class-level codec; required: no ValueError, name override reaches the result
            uses_name = (name is None or any(_mentions(c, name) for c in cl)
                         or (out.returned and isinstance(out.value, Obj) and out.value.fields.get("_name") is name))
            V.ensure("post/cdxml:supported", z3.Implies(iscd, z3.BoolVal(not out.raised(I, "ValueError"))))
            V.ensure("post/cdxml:name-honoured", z3.Implies(iscd, z3.BoolVal(bool(uses_name) or out.kind == "raise")))
            if fname == "load" and out.returned:
                # which fragment: without a key the FIRST DRAWN fragment, parsed under the caller's name; with a key, the labelled one
                names = [c[1] for c in cl]
                if key is None:
                    shape = ("_parse_fragment" in names and "CDXMLFile.__getitem__" not in names
                             and any(c[1] == "_parse_fragment" and len(c[2]) >= 2 and c[2][1] == Opaque("obj:frag0") and dict(c[3]).get("name") is name for c in cl))
                else:
                    shape = "CDXMLFile.__getitem__" in names and any(c[1] == "CDXMLFile.__getitem__" and any(x is key for x in c[2]) for c in cl)
                V.ensure("post/cdxml:load-takes-the-first-drawn-fragment-or-the-labelled-one", z3.Implies(iscd, z3.BoolVal(bool(shape))))
            if fname == "load_all" and key is None:
                # like the xyz / mol2 branches: a list (indexable, re-iterable, with a length), one entry per drawn fragment
                V.ensure("post/cdxml:load_all-returns-a-list-with-one-entry-per-fragment",
                         z3.Implies(iscd, z3.BoolVal(out.kind == "raise" or (isinstance(out.value, ListV) and len(out.value.items) == 2))))
        unsupported = z3.And(efmt != z3.StringVal("xyz"), efmt != z3.StringVal("mol2"), efmt != z3.StringVal("cdxml"))
        V.ensure("post/unsupported-format:ValueError", z3.Implies(unsupported, z3.BoolVal(out.raised(I, "ValueError") and not tr)))
        if with_path and fname == "load" and out.returned:
            # no state is kept between calls: a second load of the same path reads the file again (it may have been rewritten),
            # i.e. it performs the same codec / CDXMLFile calls once more
            n1 = len(calls(st.trace))
            out2 = V.call(f"molli.reader:{fname}", [path if with_path else data], kwargs)
            n2 = len(calls(st.trace)) - n1
            V.ensure("post/second-load-reads-the-source-again", z3.BoolVal(out2.kind == "raise" or n2 == n1))
    return body


def _kw(call_ev, I):
    return dict(call_ev[3])


def _mentions(call_ev, v):
    return any(x is v for x in call_ev[2]) or any(x is v for _, x in call_ev[3])


for _fn, _pre, _wp, _lst in [("load", "load", True, False), ("loads", "loads", False, False),
                             ("load_all", "load_all", True, True), ("loads_all", "loads_all", False, True)]:
    P.unit(f"molli.reader:{_fn}")(_reader_unit(_fn, _pre, _wp, _lst))


# ------------------------------------------------------------------------------------ writer
@P.unit("molli.writer:dump")
def _dump(V):
    I, st = V.I, V.st
    # "writer": any object with a write() method that is not an io.TextIOBase (codecs writers, tempfile wrappers, sockets' makefile ...)
    kind0 = V.choose(["str", "Path", "stream", "writer"], "target")
    kind = "stream" if kind0 == "writer" else kind0
    fmt_given = V.choose([True, False], "fmt_given")
    fmt = V.sym("fmt", "str") if fmt_given else None
    mode = V.choose(["a", "w", "default"], "mode")
    ocls = V.choose(CLASSES, "objclass")
    obj = Obj(V.cls(ocls), {}, tag="obj")
    pstr = V.sym("path", "str")
    if kind == "str":
        target = pstr
    elif kind == "Path":
        target = I.call(I.ext_models["pathlib.Path"], [pstr], {})
    elif kind0 == "writer":
        duck = ClassV("SomeWriter", builtin=True, bases=[I.builtins["object"]])
        duck.compute_mro()
        duck.ns["write"] = Builtin("write", lambda i, a, k: None)
        target = Obj(duck, {"closed": False}, tag="writer")
    else:
        target = Obj(I.StreamCls, {"path": None, "mode": "w", "closed": False, "owned": False}, tag="stream")
    sfx = path_suffix(pstr.z)
    V.assume(z3.Or(sfx == z3.StringVal(""), z3.PrefixOf(z3.StringVal("."), sfx)))
    if kind == "stream" and not fmt_given:
        efmt = None
    else:
        # `fmt or suffix[1:]`: an empty fmt falls back to the suffix
        sf = z3.SubString(sfx, 1, z3.Length(sfx) - 1)
        if fmt_given and kind != "stream":
            efmt = z3.If(z3.Length(fmt.z) > 0, fmt.z, sf)
        elif fmt_given:
            efmt = fmt.z
        else:
            efmt = sf
    V.witness(lambda ev: {"fn": "dump", "target": kind, "fmt": ev(fmt) if fmt is not None else None,
                          "path_suffix": ev(sfx), "mode": mode, "objclass": ocls, "signature": f"dump/{kind}"})
    V.cover()
    kw = {}
    if fmt_given:
        kw["fmt"] = fmt
    if mode != "default":
        kw["mode"] = mode
    # an option of the class writer (e.g. write_header=False) given to the entry point reaches the class writer unchanged
    optv = Opaque("obj:option-value")
    opt = V.choose([False, True], "caller-passes-a-writer-option")
    want_kw = {"write_header": optv} if opt else {}
    kw.update(want_kw)
    same_kw = lambda got: set(dict(got)) == set(want_kw) and all(dict(got)[k_] is want_kw[k_] for k_ in want_kw)
    out = V.call("molli.writer:dump", [obj, target], kw)
    tr = st.trace
    opens = [e for e in tr if e[0] in ("open", "open-failed")]
    cl = calls(tr)
    emode = "a" if mode == "default" else mode
    if efmt is None:
        # stream without format: nothing can be deduced -> must be ValueError, nothing written
        V.ensure("post/stream-without-fmt:ValueError", out.raised(I, "ValueError") and not cl and not target.fields["closed"])
        return
    for f in ("xyz", "mol2"):
        isf = efmt == z3.StringVal(f)
        meth = f"dump_{f}"
        if kind == "stream":
            good = (not opens and len(cl) == 1 and cl[0][1] == meth and cl[0][2][0] is obj and cl[0][2][1] is target
                    and len(cl[0][2]) == 2 and same_kw(cl[0][3]) and not target.fields["closed"]
                    and ((out.returned and out.value is None) or (out.kind == "raise" and out.exc is cl[0][5])))
        else:
            if opens and opens[0][0] == "open-failed":
                good = len(opens) == 1 and out.raised(I, "OSError") and not cl
            else:
                s = opens[0][1] if opens else None
                good = (len(opens) == 1 and I.eq(_pathstr(opens[0][2]), pstr) is True and opens[0][3] == emode
                        and len(cl) == 1 and cl[0][1] == meth and cl[0][2][0] is obj and cl[0][2][1] is s and len(cl[0][2]) == 2
                        and same_kw(cl[0][3]) and s.fields["closed"]
                        and ((out.returned and out.value is None) or (out.kind == "raise" and out.exc is cl[0][5])))
        V.ensure(f"post/{f}:writes-obj.dump_{f}-to-the-stream-given", z3.Implies(isf, z3.BoolVal(bool(good))))
    unsupported = z3.And(efmt != z3.StringVal("xyz"), efmt != z3.StringVal("mol2"))
    closed_ok = all(e[1].fields["closed"] for e in opens if e[0] == "open") and (kind != "stream" or not target.fields["closed"])
    # a path target is opened before the format is validated: OSError from open() is the other legal exit
    failed_open = bool(opens) and opens[0][0] == "open-failed" and out.raised(I, "OSError")
    V.ensure("post/unsupported-format:ValueError",
             z3.Implies(unsupported, z3.BoolVal((out.raised(I, "ValueError") or failed_open) and not cl and closed_ok)))


def _pathstr(p):
    if isinstance(p, Obj) and "s" in p.fields:
        return p.fields["s"]
    return p


@P.unit("molli.writer:dumps")
def _dumps(V):
    I, st = V.I, V.st
    fmt = V.sym("fmt", "str")
    ocls = V.choose(CLASSES, "objclass")
    obj = Obj(V.cls(ocls), {}, tag="obj")
    optv = Opaque("obj:option-value")
    opt = V.choose([False, True], "caller-passes-a-writer-option")
    want_kw = {"write_header": optv} if opt else {}
    V.witness(lambda ev: {"fn": "dumps", "fmt": ev(fmt), "objclass": ocls, "option": opt, "signature": "dumps"})
    V.cover()
    out = V.call("molli.writer:dumps", [obj, fmt], dict(want_kw))
    cl = calls(st.trace)
    for f in ("xyz", "mol2"):
        good = (len(cl) == 1 and cl[0][1] == f"dumps_{f}" and cl[0][2] == (obj,) and set(dict(cl[0][3])) == set(want_kw) and all(dict(cl[0][3])[k_] is want_kw[k_] for k_ in want_kw)
                and ((out.returned and out.value is cl[0][4]) or (out.kind == "raise" and out.exc is cl[0][5])))
        V.ensure(f"post/{f}:returns-obj.dumps_{f}", z3.Implies(fmt.z == z3.StringVal(f), z3.BoolVal(bool(good))))
    unsupported = z3.And(fmt.z != z3.StringVal("xyz"), fmt.z != z3.StringVal("mol2"))
    V.ensure("post/unsupported-format:ValueError", z3.Implies(unsupported, z3.BoolVal(out.raised(I, "ValueError") and not cl)))


# "honoured name overrides" for ensembles rests on the ensemble loaders themselves honouring `name` (and the unit): shared with C08
from contracts import C08_xyz_units as C08
P.include(C08.P, ["units[ensemble"], why="ml.load(..., otype='ensemble', name=...) can only honour the name if the class loaders do")
