"""C01 -- library round trip: what is stored in a .mlib/.clib is what is read back.

The real serializer and the real deserializer are executed symbolically, one after the other, on a
molecule / ensemble whose every stored value is symbolic (all atom and bond fields, name, charge,
multiplicity, coordinates, partial charges, weights); between them stands the assumed msgpack contract
(lists -> tuples, IntEnum -> int, dicts/str/None preserved, numpy bytes preserved up to binary32).  The
positional agreement of both sides with the schema, field by field, is what is proved: a field dropped
from a schema, a permuted tuple, a wrong reshape or a swapped endpoint changes a VC.
"""
import z3
from pyvc.spec import *
from pyvc.values import *
from pyvc.ops import to_z3
from pyvc import npmodel as NP
from contracts import mol as M

P = Property("C01", "library round trip (.mlib/.clib)")
P.trust("msgpack: loads(dumps(x, use_single_float=True), use_list=False) = x with lists returned as tuples, IntEnum as int, "
        "floats rounded to binary32")
P.trust("numpy: frombuffer(astype('>f4').tobytes()) = the same values up to binary32 rounding; reshape raises on size mismatch")
P.assume("container sizes fixed per unit (2 atoms, 1 bond, 2 conformers; plus the empty molecule); every stored value symbolic")
IO = "molli.chem.io"


def msgpack_rt(I, x):
    """assumed msgpack round trip on executor values"""
    if isinstance(x, (ListV, tuple)):
        return tuple(msgpack_rt(I, y) for y in (x.items if isinstance(x, ListV) else x))
    if isinstance(x, DictV):
        return DictV([(msgpack_rt(I, k), msgpack_rt(I, v)) for k, v in zip(x.keys, x.vals)])
    if isinstance(x, EnumVal):
        if x.cls.is_intenum:
            return x.value
        raise PyExc(I.make_exc("TypeError", "can not serialize enum"))
    if isinstance(x, SV) and isinstance(x.ty, tuple) and x.ty[0] == "enum":
        return SV(x.z, "int")
    if isinstance(x, NdArr):
        raise PyExc(I.make_exc("TypeError", "can not serialize 'numpy.ndarray' object"))
    if isinstance(x, Obj) and x.tag != "npbytes":
        raise PyExc(I.make_exc("TypeError", f"can not serialize {x.cls.name} object"))
    return x


ATOM_FIELDS_V2 = ("element", "isotope", "label", "atype", "stereo", "geom", "formal_charge", "formal_spin", "attrib")
ATOM_FIELDS_V1 = ("element", "isotope", "label", "atype", "stereo", "geom")
BOND_FIELDS = ("label", "btype", "stereo", "f_order")


def same_value(I, a, b):
    if isinstance(a, DictV) and isinstance(b, DictV):
        if len(a.keys) != len(b.keys):
            return False
        return I.and_(*[same_value(I, k1, k2) for k1, k2 in zip(a.keys, b.keys)], *[same_value(I, v1, v2) for v1, v2 in zip(a.vals, b.vals)])
    if isinstance(a, (tuple, ListV)) and isinstance(b, (tuple, ListV)):
        xa = a if isinstance(a, tuple) else a.items
        xb = b if isinstance(b, tuple) else b.items
        return len(xa) == len(xb) and I.and_(*[same_value(I, x, y) for x, y in zip(xa, xb)])
    if a is None or b is None:
        return a is None and b is None
    if isinstance(a, Opaque) or isinstance(b, Opaque):
        return a is b or a == b
    return I.eq(a, b)


def compare(V, src, res, atom_fields, with_attrib, label, ens=False):
    I = V.I
    ok_type = isinstance(res, Obj) and res.cls is src.cls
    V.ensure(f"{label}/same-class", z3.BoolVal(ok_type))
    if not ok_type:
        return
    for f, nm in (("_name", "name"), ("charge", "charge"), ("mult", "multiplicity")):
        V.ensure(f"{label}/{nm}", same_value(I, src.fields[f], res.fields.get(f)))
    if with_attrib:
        V.ensure(f"{label}/attributes", same_value(I, src.fields["attrib"], res.fields.get("attrib")))
    sa, ra = src.fields["_atoms"].items, res.fields["_atoms"].items if isinstance(res.fields.get("_atoms"), ListV) else None
    V.ensure(f"{label}/atom-count-and-order", z3.BoolVal(ra is not None and len(ra) == len(sa)))
    if ra is not None and len(ra) == len(sa):
        for f in atom_fields:
            V.ensure(f"{label}/atom.{f}", I.and_(*[same_value(I, x.fields[f], y.fields.get(f)) for x, y in zip(sa, ra)]))
        V.ensure(f"{label}/atoms-are-fresh-and-parented", z3.BoolVal(all(y is not x for x, y in zip(sa, ra)) and
                 all(isinstance(y.fields.get("_parent"), Obj) and y.fields["_parent"].fields.get("ref") is res for y in ra)))
    sb = src.fields["_bonds"].items
    rb = res.fields["_bonds"].items if isinstance(res.fields.get("_bonds"), ListV) else None
    V.ensure(f"{label}/bond-count-and-order", z3.BoolVal(rb is not None and len(rb) == len(sb)))
    if rb is not None and len(rb) == len(sb) and ra is not None and len(ra) == len(sa):
        ends = all(ra[sa.index(x.fields["a1"])] is y.fields["a1"] and ra[sa.index(x.fields["a2"])] is y.fields["a2"] for x, y in zip(sb, rb))
        V.ensure(f"{label}/bond-endpoints", z3.BoolVal(ends))
        for f in BOND_FIELDS:
            V.ensure(f"{label}/bond.{f}", I.and_(*[same_value(I, x.fields[f], y.fields.get(f)) for x, y in zip(sb, rb)]))
        if with_attrib:
            V.ensure(f"{label}/bond.attrib", I.and_(*[same_value(I, x.fields["attrib"], y.fields.get("attrib")) for x, y in zip(sb, rb)]))
    for f, nm in (("_coords", "coordinates"), ("_atomic_charges", "partial-charges")) + ((("_weights", "weights"),) if ens else ()):
        a, b = src.fields[f], res.fields.get(f)
        ok = isinstance(b, NdArr) and b.data is not None and tuple(b.tail) == tuple(a.tail)
        V.ensure(f"{label}/{nm}:shape-unchanged", z3.BoolVal(ok))
        if ok:
            V.ensure(f"{label}/{nm}:values", I.and_(*[M._same(I, x, y) for x, y in zip(NP.flat(a.data), NP.flat(b.data))]))


def rt_unit(kind, version):
    ens = kind == "ens"
    ser, de = f"_serialize_{kind}_v{version}", f"_deserialize_{kind}_v{version}"

    def body(V):
        I, st = V.I, V.st
        # "1atom": the smallest non-empty object (keeps a change that branches on every stored value within the exploration budget)
        # "parallel-bonds": two bonds between the same pair of atoms (append_bond allows them; both must come back, in order)
        size = V.choose(["2atoms", "empty", "1atom", "parallel-bonds"], "size")
        k, bonds = {"2atoms": (2, ((1, 0),)), "1atom": (1, ()), "empty": (0, ()), "parallel-bonds": (2, ((1, 0), (0, 1)))}[size]
        if ens:
            nc = V.choose([2, 1], "nc") if size == "2atoms" else (1 if size in ("1atom", "parallel-bonds") else 0)
            src = M.mk_ens(V, nc, k, bonds=bonds, name="s")
            for i, a in enumerate(src.fields["_atoms"].items):
                src.fields["_atoms"].items[i] = M.mk_atom(V, f"s_a{i}", parent=src, full=True, label=M.opt_str(V, f"s_a{i}_label"))
            src.fields["_bonds"] = ListV([M.mk_bond(V, f"s_b{j}", src.fields["_atoms"].items[p], src.fields["_atoms"].items[q], parent=src, full=True)
                                          for j, (p, q) in enumerate(bonds)])
        else:
            src = M.mk_mol(V, "Molecule", k, bonds, name="s", full=True)
            for a in src.fields["_atoms"].items:
                a.fields["label"] = M.opt_str(V, a.tag + "_label")
        src.fields["attrib"] = DictV([("key", Opaque("obj:attr-value")), ("n", V.sym("attr_n", "int"))])
        for a in src.fields["_atoms"].items:
            a.fields["attrib"] = DictV([("note", V.sym(a.tag + "_note", "str"))])
            a.fields["isotope"] = V.sym(a.tag + "_iso", "int") if V.choose(["int", "none"], a.tag + "_iso") == "int" else None
        for b in src.fields["_bonds"].items:
            b.fields["attrib"] = DictV([("w", V.sym(b.tag + "_w", "real"))])
            b.fields["label"] = M.opt_str(V, b.tag + "_label")
        V.assume(to_z3(src.fields["mult"], "int") >= 1)   # multiplicity is canonicalised by the constructors (`mult or 1`): 0 is not a storable value
        # the object's atoms may also sit in another (non-copying) container: bond end points are positions in THIS object's atom list
        shared = V.choose([False, True], "atoms-also-in-another-container") if size in ("2atoms", "parallel-bonds") else False
        if shared:
            V.keep = M.share_atoms(V, src, which=[1])
        V.witness(lambda ev: {"op": f"roundtrip-{kind}-v{version}", "size": size, "nc": nc if ens else None, "shared": shared, "signature": f"{kind}-v{version}" + ("/shared-atoms" if shared else "")})
        V.cover()
        I.target = f"{IO}:{ser}"
        try:
            t = I.call(V.glob(f"{IO}:{ser}"), [src], {})
            t2 = msgpack_rt(I, t)
            I.target = f"{IO}:{de}"
            res = I.call(V.glob(f"{IO}:{de}"), [t2], {})
            out = Outcome("return", res)
        except PyExc as e:
            out = Outcome("raise", exc=e.value)
            V.dbg = (e.value, e.value.fields)
        V.ensure("roundtrip/no-exception", z3.BoolVal(out.returned))
        if out.returned:
            compare(V, src, out.value, ATOM_FIELDS_V2 if version == 2 else ATOM_FIELDS_V1, version == 2, "roundtrip", ens)
    return body


for _kind in ("mol", "ens"):
    for _v in (2, 1):
        P.unit(f"{IO}:_serialize_{_kind}_v{_v}", name=f"roundtrip[{_kind} v{_v}]",
               functions=[f"{IO}:_serialize_{_kind}_v{_v}", f"{IO}:_deserialize_{_kind}_v{_v}", "molli.chem.atom:Atom.as_tuple",
                          "molli.chem.bond:Bond.as_tuple", "molli.chem.bond:Connectivity.connect"])(rt_unit(_kind, _v))


# ------------------------------------------------------------------------------------------ version switch + plumbing
LIB = "molli.chem.library"
from pyvc import filemodel as FM


def lib_unit(clsname, kind):
    def body(V):
        I, st = V.I, V.st
        FM.use_theory(st)
        I.opaque_globals[("molli.config", "VERSION")] = "x.y.z"     # package metadata lookup: not part of the claim
        header = V.sym("header", "bytes")
        is_file = V.choose([True, False], "is_file")
        open_fails = V.choose([False, True], "open-fails") if is_file else False
        # overwrite=True recreates the file with the current magic: whatever an old file at that path contained is irrelevant
        # how the library is opened: for reading, for writing into the existing file (which may be a legacy one), or recreating it
        how = V.choose(["readonly", "writable", "overwrite"], "opened")
        overwrite = how == "overwrite"
        Path = I.ext_models["pathlib.Path"]
        Path.ns["is_file"] = Builtin("Path.is_file", lambda i, a, k: is_file)
        stream = Obj(I.StreamCls, {"path": None, "mode": "rb", "closed": False, "owned": True}, tag="stream")

        def open_hook(I_, path, mode):
            if open_fails:
                I_.raise_py("OSError", "cannot open")
            stream.fields["opened"] = True
            return stream
        st.ghost["open_hook"] = open_hook
        I.StreamCls.ns["read"] = Builtin("read16", lambda i, a, k: header)
        calls = {}
        I.stubs["molli.storage.collection:Collection.__init__"] = lambda I_, fv, a, k: calls.setdefault("super", (a, k)) and None
        packed = []
        I.ext_models["msgpack.dumps"] = Builtin("msgpack.dumps", lambda i, a, k: packed.append((a[0], dict(k))) or SV(st.fresh("packed", BytesS), "bytes"))
        I.ext_models["msgpack.loads"] = Builtin("msgpack.loads", lambda i, a, k: packed.append(("loads", a[0], dict(k))) or Opaque("obj:unpacked"))
        for v in (1, 2):
            for d in ("_serialize", "_deserialize"):
                q = f"{IO}:{d}_{kind}_v{v}"
                I.stubs[q] = (lambda q_: lambda I_, fv, a, k: calls.setdefault("codec", []).append((q_, a)) or Opaque(f"obj:out:{q_}"))(q)
        V.witness(lambda ev: {"op": "library-version", "cls": clsname, "overwrite": overwrite, "readonly": how == "readonly", "signature": f"library-version/{clsname}/{how}"})
        V.cover()
        cls = V.cls(f"{LIB}:{clsname}")
        I.target = f"{LIB}:{clsname}.__init__"
        try:
            lib = I.call(cls, [V.sym("path", "str")], {"overwrite": overwrite, "readonly": how == "readonly"})
        except PyExc as e:
            V.ensure("post/constructs", z3.BoolVal(False))
            return
        V.ensure("post/constructs", z3.BoolVal(True))
        ser, de = lib.fields.get("_serializer"), lib.fields.get("_deserializer")
        sq, dq = getattr(ser, "qual", None), getattr(de, "qual", None)
        f = z3.Function("bytes_startswith", BytesS, BytesS, z3.BoolSort())
        legacy = z3.And(z3.BoolVal(is_file and not open_fails and not overwrite), f(header.z, FM.bz(b"ML10Library")))
        pair_v1 = sq == f"{IO}:_serialize_{kind}_v1" and dq == f"{IO}:_deserialize_{kind}_v1"
        pair_v2 = sq == f"{IO}:_serialize_{kind}_v2" and dq == f"{IO}:_deserialize_{kind}_v2"
        V.ensure("post/codec-pair-is-never-mixed", z3.BoolVal(pair_v1 or pair_v2))
        V.ensure("post/legacy-magic-selects-v1-else-v2", z3.If(legacy, z3.BoolVal(pair_v1), z3.BoolVal(pair_v2)))
        V.ensure("post/header-stream-closed", z3.BoolVal(not stream.fields.get("opened") or stream.fields["closed"]))
        V.ensure("post/collection-is-told-to-overwrite-iff-asked", z3.BoolVal(calls.get("super") is not None and calls["super"][1].get("overwrite") is overwrite))
        sup = calls.get("super")
        enc = sup[1].get("value_encoder") if sup else None
        dec = sup[1].get("value_decoder") if sup else None
        V.ensure("post/collection-gets-this-library's-encoder-and-decoder",
                 z3.BoolVal(sup is not None and isinstance(enc, BoundMethod) and enc.self is lib and isinstance(dec, BoundMethod) and dec.self is lib
                            and enc.func.name.endswith("_encoder") and dec.func.name.endswith("_decoder")))
        # plumbing: encoder = msgpack.dumps(serializer(x), use_single_float=True); decoder = deserializer(msgpack.loads(b, use_list=False))
        del packed[:]
        calls["codec"] = []
        x = Opaque("obj:molecule")
        r = I.call(enc, [x], {}) if enc is not None else None
        okenc = (len(calls["codec"]) == 1 and calls["codec"][0][0] == sq and calls["codec"][0][1] == [x]
                 and len(packed) == 1 and packed[0][0] == Opaque(f"obj:out:{sq}") and packed[0][1] == {"use_single_float": True})
        V.ensure("post/encoder-packs-the-serializer-output-with-single-floats", z3.BoolVal(bool(okenc)))
        del packed[:]
        calls["codec"] = []
        b = V.sym("blob", "bytes")
        r = I.call(dec, [b], {}) if dec is not None else None
        # whatever the encoder can write the decoder accepts: arrays come back as tuples (use_list=False) and maps may have any msgpack-able
        # key -- attribute dictionaries with integer keys pack without complaint, so unpacking must not insist on string keys
        okdec = (len(packed) == 1 and packed[0][0] == "loads" and packed[0][1] is b
                 and packed[0][2].get("use_list") is False and packed[0][2].get("strict_map_key") is False and set(packed[0][2]) <= {"use_list", "strict_map_key"}
                 and len(calls["codec"]) == 1 and calls["codec"][0][0] == dq and calls["codec"][0][1] == [Opaque("obj:unpacked")]
                 and r == Opaque(f"obj:out:{dq}"))
        V.ensure("post/decoder-unpacks-without-lists-accepting-any-map-key-then-deserializes", z3.BoolVal(bool(okdec)))
    return body


P.unit(f"{LIB}:MoleculeLibrary.__init__", name="MoleculeLibrary[version switch + codec plumbing]",
       functions=[f"{LIB}:MoleculeLibrary.__init__", f"{LIB}:MoleculeLibrary._molecule_encoder", f"{LIB}:MoleculeLibrary._molecule_decoder"])(lib_unit("MoleculeLibrary", "mol"))
P.unit(f"{LIB}:ConformerLibrary.__init__", name="ConformerLibrary[version switch + codec plumbing]",
       functions=[f"{LIB}:ConformerLibrary.__init__", f"{LIB}:ConformerLibrary._ensemble_encoder", f"{LIB}:ConformerLibrary._ensemble_decoder"])(lib_unit("ConformerLibrary", "ens"))


# ------------------------------------------------------------------------------------------ Collection: every read decodes the stored bytes
COL = "molli.storage.collection"


@P.unit(f"{COL}:Collection.__getitem__", name="Collection[read/write plumbing]: every read decodes the stored bytes afresh",
        functions=[f"{COL}:Collection.__init__", f"{COL}:Collection.__getitem__", f"{COL}:Collection.__setitem__", f"{COL}:Collection.items", f"{COL}:Collection.values"])
def _collection(V):
    I, st = V.I, V.st
    obj = I.builtins["object"]
    exists = V.choose([True, False], "exists")
    Path = I.ext_models["pathlib.Path"]
    Path.ns["exists"] = Builtin("Path.exists", lambda i, a, k: exists)
    store = {}
    log = []
    B = ClassV("Backend", builtin=True, bases=[obj])
    B.compute_mro()
    made = []
    B.ns["__pyvc_new__"] = lambda i, c, a, k: made.append((a, dict(k))) or Obj(B, {}, tag="backend")

    def b_get(i, a, k):
        log.append(("get", a[1]))
        return store[a[1]]

    def b_put(i, a, k):
        log.append(("put", a[1], a[2]))
        store[a[1]] = a[2]
    B.ns["get"] = Builtin("get", b_get)
    B.ns["put"] = Builtin("put", b_put)
    B.ns["keys"] = Builtin("keys", lambda i, a, k: SetV(list(store.keys())))
    B.ns["items"] = Builtin("items", lambda i, a, k: ListV([(k_, v_) for k_, v_ in store.items()]))
    decoded = []

    def dec(i, a, k):
        o = Obj(obj, {"from": a[0]}, tag=f"decoded{len(decoded)}")
        decoded.append(o)
        return o
    enc_calls = []

    def enc(i, a, k):
        enc_calls.append(a[0])
        return Opaque(f"obj:bytes-of-{len(enc_calls)}")
    cls = V.cls(f"{COL}:Collection")
    readonly = V.choose([True, False], "readonly")
    V.witness(lambda ev: {"op": "collection-reads", "signature": "collection-reads"})
    V.cover()
    I.target = f"{COL}:Collection.__init__"
    try:
        c = I.call(cls, [V.sym("path", "str"), B], {"value_encoder": Builtin("enc", enc), "value_decoder": Builtin("dec", dec), "readonly": readonly})
    except PyExc as e:
        V.ensure("collection/missing-readonly-file-is-FileNotFoundError", z3.BoolVal((not exists) and readonly and Outcome("raise", exc=e.value).raised(I, "FileNotFoundError")))
        return
    V.ensure("collection/missing-readonly-file-is-FileNotFoundError", z3.BoolVal(exists or not readonly))
    V.ensure("collection/backend-built-with-the-caller's-flags", z3.BoolVal(len(made) == 1 and made[0][1].get("readonly") is readonly))
    x = Opaque("obj:molecule")
    I.target = f"{COL}:Collection.__setitem__"
    V.method(c, "__setitem__", ["k", x])
    V.ensure("collection/write-stores-the-encoder-output-under-the-key", z3.BoolVal(enc_calls == [x] and log == [("put", "k", Opaque("obj:bytes-of-1"))]))
    del log[:]
    I.target = f"{COL}:Collection.__getitem__"
    r1 = V.method(c, "__getitem__", ["k"])
    r2 = V.method(c, "__getitem__", ["k"])
    ok = r1.returned and r2.returned and len(decoded) == 2
    V.ensure("collection/read-decodes-the-stored-bytes", z3.BoolVal(bool(ok) and r1.value is decoded[0] and decoded[0].fields["from"] == Opaque("obj:bytes-of-1")))
    V.ensure("collection/every-read-decodes-afresh-(no-shared-result-object)", z3.BoolVal(bool(ok) and r2.value is decoded[1] and r2.value is not r1.value
                                                                                        and decoded[1].fields["from"] == Opaque("obj:bytes-of-1")))
    # overwrite in the backend's hands (another handle): the next read shows the new bytes
    store["k"] = Opaque("obj:bytes-of-other-writer")
    r3 = V.method(c, "__getitem__", ["k"])
    V.ensure("collection/read-shows-what-the-backend-holds-now", z3.BoolVal(r3.returned and r3.value.fields["from"] == Opaque("obj:bytes-of-other-writer")))
    n0 = len(decoded)
    vals = list(I.iterate(V.method(c, "values", []).value))
    its = list(I.iterate(V.method(c, "items", []).value))
    V.ensure("collection/values-and-items-decode-per-key", z3.BoolVal(len(vals) == 1 and len(its) == 1 and len(decoded) == n0 + 2 and vals[0] is decoded[n0]
                                                                       and its[0][0] == "k" and its[0][1] is decoded[n0 + 1]))


# a library is a Collection over the UKV backend: "reads back under the same key" also after the caller caught a refused write
# (duplicate key, oversize key) and carried on -- the backend's contract for that history is part of this check (shared unit)
from contracts import C02_ukv_map as C02
P.include(C02.P, ["backend.flush/get with a doomed queued write"], why="a refused write does not keep later records of the library from being stored")
