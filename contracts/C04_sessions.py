"""C04 -- library sessions are serialised and survive failing sessions (sequential, deductive part).

Decided here: every control-flow path through reading()/writing() -- normal and exceptional, with an
exception possible at lock acquisition (timeout), begin_* (file missing / corrupt / I/O fault),
update_keys (undecodable key), the session body, the value written during flush (duplicate key,
oversize, I/O fault) and end_* -- ends with the lock released, the file closed and the state 'idle';
all file access happens inside the lock bracket.  Not decided: that fasteners' locks exclude each
other across processes (assumed), real multi-process schedules (see DESIGN 4).
"""
import z3
from pyvc.spec import *
from pyvc.values import *
from pyvc import filemodel as FM
from pyvc.filemodel import bz
from pyvc.ops import blen, to_z3
from contracts import ukv as U
from contracts.ukv import UKV, BACKEND, BASE

P = Property("C04", "sessions release the lock and close the file on every exit")
P.trust("fasteners: acquire returns False only on timeout; readers-writer exclusion across processes and handles (assumed)")
P.trust("io + struct models as in C02; any open/read/write may raise OSError (fault injection on every call)")
P.assume("sessions of one process do not overlap (the lock is per process) -- as in the property statement")
P.assume("write queue holds 0..2 pending items in the exception-safety units (bounded dimension; the finally-discipline "
         "does not depend on the queue length)")
P.not_decided.append("mutual exclusion of fasteners' fcntl locks and real multi-process schedules: outside a sequential deductive verifier; assumed as the lock's contract")


@P.setup
def _setup(I):
    U.install_map_blocks_spec(I)
    I.stubs["molli._aux.lock:rwlock"] = lambda I_, fv, a, k: Opaque("obj:lockpath")


# ---------------------------------------------------------------------------------------------------
# Exit contracts of the UKVFile operations the sessions call.  Each is (a) PROVED against the real
# body below (units `...[exits]`, with a fault injected at every I/O call) and (b) USED instead of the
# body inside the session units (modular verification: a caller sees only the callee's contract).
#   open(mode)     returns: handle open, exactly one stream opened by the call and it is still open
#                  raises : handle still closed, every stream opened by the call is closed again
#   UKVFile(...)   same as open (the constructor ends with self.open())
#   put(k, v)      returns or raises: opens/closes no stream, handle stays open
#   close()        returns: handle closed, its stream closed
# ---------------------------------------------------------------------------------------------------
def exits_open(I, h, out, tr):
    streams = [e[1] for e in tr if e[0] == "open"]
    if out.returned:
        return [("returns/handle-open", h.fields.get("_closed") is False),
                ("returns/one-stream-left-open", [s for s in streams if not s.fields["closed"]] == [h.fields.get("_stream")]
                 if streams else (h.fields.get("_stream") is not None and not h.fields["_stream"].fields["closed"])),
                ("returns/no-other-stream-leaked", all(s.fields["closed"] for s in streams if s is not h.fields.get("_stream")))]
    return [("raises/handle-still-closed", h.fields.get("_closed") is True),
            ("raises/every-stream-closed-again", all(s.fields["closed"] for s in streams))]


def apply_open(I, fv, args, kwargs):
    """contract of UKVFile.open used at call sites"""
    st = I.st
    h = args[0]
    mode = args[1] if len(args) > 1 else kwargs.get("mode")
    if h.fields["_closed"] is not True:
        return None
    h.fields["mode"] = mode or h.fields["mode"]
    if st.branch(st.fresh("open_raises", z3.BoolSort()), "UKVFile.open-raises"):
        st.event("contract", "UKVFile.open", "raises")
        raise PyExc(Obj(I.builtins["OSError"], {"args": ("UKVFile.open failed",)}, tag="open-exc"))
    cell = st.ghost["cells"][id(h.fields["path"].fields["s"])]
    s = Obj(I.BinStreamCls, {"file": cell, "pos": st.fresh_sv("pos", "int"), "closed": False, "r_ok": True,
                             "w_ok": h.fields["mode"] != "r", "mode": h.fields["mode"]}, tag="binstream")
    st.event("open", s, cell, h.fields["mode"])
    h.fields["_stream"] = s
    h.fields["_closed"] = False
    h.fields["_toc"] = U.fresh_toc(I, "toc_after_open")
    h.fields["_eof"] = st.fresh_sv("eof_after_open", "int")
    h.fields["_last"] = None
    h.fields["h1"], h.fields["h2"], h.fields["b0"] = (st.fresh_sv(n, "bytes") for n in ("h1r", "h2r", "b0r"))
    st.event("contract", "UKVFile.open", "returns")
    return None


def apply_new(I, cls, args, kwargs):
    """contract of UKVFile(path, mode=...) used at call sites"""
    path = I.call(I.ext_models["pathlib.Path"], [args[0]], {})
    mode = kwargs.get("mode", args[1] if len(args) > 1 else "r")
    h = Obj(cls, {"path": path, "mode": mode, "_closed": True, "_toc": DictV(), "_eof": None, "_last": None,
                  "h1": b"", "h2": b"", "b0": b""}, tag="h-new")
    apply_open(I, None, [h], {})
    return h


def apply_put(I, fv, args, kwargs):
    st = I.st
    h = args[0]
    if st.branch(st.fresh("put_raises", z3.BoolSort()), "UKVFile.put-raises"):
        st.event("contract", "UKVFile.put", "raises")
        raise PyExc(Obj(I.builtins["Exception"], {"args": ("UKVFile.put failed",)}, tag="put-exc"))
    s = h.fields["_stream"]
    st.event("write", s, st.fresh_sv("wpos", "int"), args[2])
    st.event("contract", "UKVFile.put", "returns")
    return None


def apply_close(I, fv, args, kwargs):
    h = args[0]
    s = h.fields["_stream"]
    if not s.fields["closed"]:
        s.fields["closed"] = True
        I.st.event("close", s)
    h.fields["_closed"] = True
    if h.fields["mode"] in ("x", "w"):
        h.fields["mode"] = "a"
    return None


def _file_and_handle(V, closed, modes=("a", "r")):
    I, st = V.I, V.st
    FM.use_theory(st)
    U.install_open_hook(st)
    st.ghost["io_faults"] = True
    cell = FM.new_file_cell(I, "F", exists=st.fresh("file_exists", z3.BoolSort()))
    H1, H2, B0, bof, ch = U.file_state(V, cell, None)
    F = bz(cell.fields["content"])
    mode = V.choose(list(modes), "mode")
    h = U.mk_handle(V, cell, mode=mode, closed=closed, name="h")
    fresh = V.choose([False, True], "fresh")
    m = U.make_stale(V, h, F, ch, H2, B0, fresh=fresh)
    st.ghost["mb"] = {"ch": ch, "F": F, "bof": bof, "m": m, "mode": "chain"}
    return cell, h, mode


@P.unit(f"{UKV}.open", name="UKVFile.open[exits]", functions=[f"{UKV}.open", f"{UKV}.read_header", f"{UKV}.write_header",
                                                               f"{UKV}.map_blocks", f"{UKV}._unpack_read", f"{UKV}._pack_write"])
def _open_exits(V):
    I, st = V.I, V.st
    cell, h, mode0 = _file_and_handle(V, closed=True, modes=("a",))
    mode = V.choose(["r", "a", "w", "x", None], "open-mode")
    has_stream = V.choose([False, True], "old-stream-attr")
    if has_stream:
        h.fields["_stream"] = Obj(I.BinStreamCls, {"file": cell, "pos": 0, "closed": True, "r_ok": True, "w_ok": True, "mode": "rb"}, tag="binstream")
    V.witness(lambda ev: {"op": "open", "mode": mode, "branches": list(st.branch_log), "signature": "open-exits"})
    V.cover()
    n0 = len(st.trace)
    out = V.method(h, "open", [mode], qual=f"{UKV}.open")
    for lab, ok in exits_open(I, h, out, st.trace[n0:]):
        V.ensure(f"exits/{lab}", z3.BoolVal(bool(ok)))


@P.unit(f"{UKV}.__init__", name="UKVFile.__init__[exits]", functions=[f"{UKV}.__init__"])
def _init_exits(V):
    I, st = V.I, V.st
    FM.use_theory(st)
    U.install_open_hook(st)
    st.ghost["io_faults"] = True
    cell = FM.new_file_cell(I, "F", exists=st.fresh("file_exists", z3.BoolSort()))
    H1, H2, B0, bof, ch = U.file_state(V, cell, None)
    st.ghost["mb"] = {"ch": ch, "F": bz(cell.fields["content"]), "bof": bof, "m": z3.IntVal(0), "mode": "chain"}
    s = st.fresh_sv("p", "str")
    st.ghost.setdefault("cells", {})[id(s)] = cell
    mode = V.choose(["r", "a", "w", "x", "bogus"], "mode")
    hdr = V.choose([False, True], "headers-given")
    kw = {"mode": mode}
    if hdr:
        kw.update({"h1": V.sym("h1", "bytes"), "h2": V.sym("h2", "bytes"), "b0": V.sym("b0", "bytes")})
    V.witness(lambda ev: {"op": "init", "mode": mode, "branches": list(st.branch_log), "signature": "init-exits"})
    V.cover()
    I.target = f"{UKV}.__init__"
    n0 = len(st.trace)
    cls = V.cls(UKV)
    h = Obj(cls)
    init, _ = cls.lookup("__init__")
    try:
        I.call(I.bind(init, h), [Obj(I.ext_models["pathlib.Path"], {"s": s}, tag="path")], kw)
        out = Outcome("return")
    except PyExc as e:
        out = Outcome("raise", exc=e.value)
    streams = [e[1] for e in st.trace[n0:] if e[0] == "open"]
    if out.returned:
        for lab, ok in exits_open(I, h, out, st.trace[n0:]):
            V.ensure(f"exits/{lab}", z3.BoolVal(bool(ok)))
    else:
        V.ensure("exits/raises/every-stream-closed-again", z3.BoolVal(all(x.fields["closed"] for x in streams)))
        V.ensure("exits/raises/handle-not-open", z3.BoolVal(h.fields.get("_closed", True) is True))


@P.unit(f"{UKV}.put", name="UKVFile.put[exits]", functions=[f"{UKV}.put"])
def _put_exits(V):
    I, st = V.I, V.st
    cell, h, mode = _file_and_handle(V, closed=False)
    V.assume(st.ghost["mb"]["m"] >= 0)
    key, value = V.sym("key", "bytes"), V.sym("value", "bytes")
    V.cover()
    n0 = len(st.trace)
    s0 = h.fields["_stream"]
    out = V.method(h, "put", [key, value], qual=f"{UKV}.put")
    tr = st.trace[n0:]
    V.ensure("exits/opens-and-closes-no-stream", z3.BoolVal(not [e for e in tr if e[0] in ("open", "close")]))
    V.ensure("exits/handle-stays-open", z3.BoolVal(h.fields["_closed"] is False and h.fields["_stream"] is s0 and not s0.fields["closed"]))
    V.ensure("exits/touches-only-its-own-stream", z3.BoolVal(all(e[1] is s0 for e in tr if e[0] in ("read", "write", "truncate"))))


@P.unit(f"{UKV}.close", name="UKVFile.close[exits]", functions=[f"{UKV}.close"])
def _close_exits(V):
    I, st = V.I, V.st
    cell, h, mode = _file_and_handle(V, closed=False, modes=("a", "r", "w", "x"))
    V.cover()
    s0 = h.fields["_stream"]
    out = V.method(h, "close", [], qual=f"{UKV}.close")
    V.ensure("exits/returns", z3.BoolVal(out.returned))
    V.ensure("exits/handle-closed-and-stream-closed", z3.BoolVal(h.fields["_closed"] is True and s0.fields["closed"]))
    V.ensure("exits/mode-after-create-is-append", z3.BoolVal(h.fields["mode"] == ("a" if mode in ("w", "x") else mode)))


def use_exit_contracts(I):
    I.applies[f"{UKV}.open"] = apply_open
    I.applies[f"{UKV}.put"] = apply_put
    I.applies[f"{UKV}.close"] = apply_close
    I.stubs[UKV] = apply_new




def session_unit(kind):
    def body(V):
        I, st = V.I, V.st
        FM.use_theory(st)
        U.install_open_hook(st)
        use_exit_contracts(I)
        st.ghost["comp_rules"] = {(f"{BACKEND}.update_keys", 0): U.install_update_keys_rule(I)}
        cell = FM.new_file_cell(I, "F", exists=st.fresh("file_exists", z3.BoolSort()))
        if kind == "writing":
            scen = [(c, p_, br, None, False) for c in (True, False) for p_ in (0, 1, 2) for br in (False, True)]
            scen += [(True, 1, False, "sym", False), (False, 0, False, None, True)]
            # the body may also be left by an exception that is not an `Exception` (Ctrl-C -> KeyboardInterrupt, sys.exit -> SystemExit,
            # a discarded generator -> GeneratorExit): the session still ends properly
            scen += [(True, 1, "KeyboardInterrupt", None, False), (False, 0, "KeyboardInterrupt", None, False)]
        else:
            scen = [(c, 0, br, None, True) for c in (True, False) for br in (False, True)] + [(True, 0, False, "sym", False)]
            scen += [(True, 0, "KeyboardInterrupt", None, True)]
        cached, pending, body_raises, timeout, readonly = V.choose(scen, "scenario")
        tail = "clean"
        H1, H2, B0, bof, ch = U.file_state(V, cell, tail)
        F = bz(cell.fields["content"])
        b, h, lock, items = U.mk_backend(V, cell, pending=pending, with_handle=cached, readonly=readonly)
        m = U.make_stale(V, h, F, ch, H2, B0) if cached else z3.IntVal(0)
        st.ghost["mb"] = {"ch": ch, "F": F, "bof": bof, "m": m, "mode": "chain"}
        if timeout == "sym":
            timeout = V.sym("timeout", "real")
        V.witness(lambda ev: {"kind": kind, "pending": pending, "cached": cached, "tail": tail, "readonly": readonly,
                              "body_raises": body_raises, "file_exists": ev(cell.fields["exists"]) if not isinstance(cell.fields["exists"], bool) else cell.fields["exists"],
                              "branches": list(st.branch_log), "signature": f"{kind}-session"})
        V.cover()
        I.target = f"{BASE}.{kind}"
        n0 = len(st.trace)
        outcome = None
        try:
            cm = I.call(I.getattr_(b, kind), [], {"timeout": timeout})
            entered = False
            try:
                I.ctx_enter(cm)
                entered = True
            except PyExc as e:
                outcome = ("enter-raised", e.value)
            if entered:
                if body_raises:
                    exc = PyExc(Obj(I.builtins["KeyboardInterrupt" if body_raises == "KeyboardInterrupt" else "Exception"], {"args": ("body",)}, tag="body-exc"))
                    try:
                        swallowed = I.ctx_exit(cm, exc)
                        outcome = ("exit-returned", swallowed)
                    except PyExc as e:
                        outcome = ("exit-raised", e.value)
                else:
                    try:
                        I.ctx_exit(cm, None)
                        outcome = ("ok", None)
                    except PyExc as e:
                        outcome = ("exit-raised", e.value)
        except PyExc as e:
            outcome = ("call-raised", e.value)
        tr = st.trace[n0:]
        streams = [e[1] for e in tr if e[0] == "open"]
        V.ensure("post/lock-released-on-every-exit", z3.BoolVal(lock.fields["held"] is None))
        V.ensure("post/every-stream-opened-is-closed", z3.BoolVal(all(s.fields["closed"] for s in streams)))
        uk = b.fields.get("_ukvfile")
        V.ensure("post/file-handle-closed", z3.BoolVal(uk is None or uk.fields["_closed"] is True))
        V.ensure("post/state-idle", z3.BoolVal(b.fields["_state"] == "idle"))
        # bracket discipline: every file access lies between acquire and release, writes only under the write lock
        held = None
        ok_bracket = True
        for e in tr:
            if e[0] == "acquire":
                held = e[2]
            elif e[0] == "release":
                held = None
            elif e[0] in ("open", "read", "truncate"):
                ok_bracket = ok_bracket and held is not None
            elif e[0] == "write":
                ok_bracket = ok_bracket and held == "write"
            elif e[0] == "close":
                # closing flushes buffered bytes to the file: it is a file access and must precede the release
                ok_bracket = ok_bracket and (held == "write" if e[1].fields.get("w_ok") else held is not None)
        V.ensure("post/file-access-only-inside-the-lock-bracket", z3.BoolVal(ok_bracket))
        if body_raises and outcome and outcome[0] == "exit-returned":
            V.ensure("post/body-exception-not-swallowed", z3.BoolVal(outcome[1] is False))
        if outcome and outcome[0] == "ok" and kind == "writing":
            V.ensure("post/queue-flushed", z3.BoolVal(len(b.fields["_write_queue"].fields["items"]) == 0))
    return body


P.unit(f"{BASE}.reading", functions=[f"{BASE}.reading", f"{BACKEND}.begin_read", f"{BACKEND}.end_read", f"{BACKEND}.update_keys",
                                     f"{UKV}.__init__", f"{UKV}.open", f"{UKV}.close", f"{UKV}.read_header"])(session_unit("reading"))
P.unit(f"{BASE}.writing", functions=[f"{BASE}.writing", f"{BASE}.flush", f"{BACKEND}.begin_write", f"{BACKEND}.end_write",
                                     f"{BACKEND}._write", f"{BACKEND}.update_keys", f"{UKV}.put"])(session_unit("writing"))


# the session contract relies on: a rejected buffered write does not poison the queue, and the key listing is refreshed from the file
from contracts import C02_ukv_map as C02
P.include(C02.P, ["backend.flush/get with a doomed queued write", "backend.update_keys", "backend.get[every-listed-key-is-readable]",
                  "molli.storage.ukvfile:UKVFile.map_blocks", "reopen of a clean file"],
          why="a failed session leaves nothing behind for the next one; the index is refreshed at session begin")
# "a reader sees only complete records": the session's index refresh over a file whose last record is torn (an interrupted writer)
from contracts import C03_crash as C03
P.include(C03.P, ["map_blocks[crash-image]", "map_blocks[any-file]", "open[recover]"],
          why="a reading session that begins after an interrupted writer lists only the complete records")


# ------------------------------------------------------------------------------------------ which lock guards which file
@P.unit("molli._aux.lock:rwlock", name="rwlock: every name of one file (relative, via a symlinked directory, with '..') maps to the same lock file")
def _rwlock(V):
    """pathlib.Path.resolve() canonicalises a path (symlinks, '..', cwd): two names of the same file have the same resolve().
    absolute() does not.  Hash / base64 / path arithmetic are uninterpreted functions of their arguments."""
    I, st = V.I, V.st
    I.stubs.pop("molli._aux.lock:rwlock", None)        # the session units use rwlock through a stub; here its body is verified
    Path = I.ext_models["pathlib.Path"]
    S = z3.StringSort()
    Fres, Fabs = z3.Function("path_resolve", S, S), z3.Function("path_absolute", S, S)
    mk = lambda z: Obj(Path, {"s": SV(z, "str")}, tag="path")
    Path.ns["resolve"] = Builtin("Path.resolve", lambda i, a, k: mk(Fres(to_z3(a[0].fields["s"]))))
    Path.ns["absolute"] = Builtin("Path.absolute", lambda i, a, k: mk(Fabs(to_z3(a[0].fields["s"]))))
    Path.ns["expanduser"] = Builtin("Path.expanduser", lambda i, a, k: a[0])
    Path.ns["as_posix"] = Builtin("Path.as_posix", lambda i, a, k: a[0].fields["s"])
    Path.ns["__str__"] = Builtin("Path.__str__", lambda i, a, k: a[0].fields["s"])
    Path.ns["__fspath__"] = Path.ns["__str__"]
    Path.ns["mkdir"] = Builtin("Path.mkdir", lambda i, a, k: None)
    Path.ns["__truediv__"] = Builtin("Path./", lambda i, a, k: mk(z3.Concat(to_z3(a[0].fields["s"]), z3.StringVal("/"), to_z3(a[1] if not isinstance(a[1], Obj) else a[1].fields["s"]))))
    # hash / base64 are uninterpreted functions of the bytes they are given (encode/decode are the byte-store codec axioms)
    from pyvc.filemodel import BytesS as _B
    Fsha = z3.Function("sha3_512_digest", _B, _B)
    Fb64 = z3.Function("urlsafe_b64", _B, _B)
    dig = ClassV("sha3", builtin=True, bases=[I.builtins["object"]])
    dig.compute_mro()
    dig.ns["digest"] = Builtin("digest", lambda i, a, k: SV(Fsha(a[0].fields["of"]), "bytes"))
    I.ext_models["hashlib.sha3_512"] = Builtin("sha3_512", lambda i, a, k: Obj(dig, {"of": to_z3(a[0])}, tag="sha3"))
    I.ext_models["base64.urlsafe_b64encode"] = Builtin("urlsafe_b64encode", lambda i, a, k: SV(Fb64(to_z3(a[0])), "bytes"))
    I.opaque_globals[("molli.config", "SHARED_DIR")] = mk(z3.StringVal("/shared"))
    real_str_method = I.str_method_hook if hasattr(I, "str_method_hook") else None
    p, q = V.sym("p", "str"), V.sym("q", "str")
    V.assume(Fres(p.z) == Fres(q.z))          # two names of one file
    V.witness(lambda ev: {"op": "rwlock", "signature": "rwlock-aliases"})
    V.cover()
    outs = []
    for x in (p, q):
        o = V.call("molli._aux.lock:rwlock", [x])
        V.ensure("rwlock/returns-a-path", z3.BoolVal(o.returned and isinstance(o.value, Obj) and o.value.cls is Path),
                 raised=None if o.returned else repr(getattr(o.exc, "fields", o.exc)))
        if not (o.returned and isinstance(o.value, Obj)):
            return
        outs.append(to_z3(o.value.fields["s"]))
    V.ensure("rwlock/aliases-of-one-file-share-one-lock-file", outs[0] == outs[1])
    o3 = V.call("molli._aux.lock:rwlock", [Obj(Path, {"s": p}, tag="path")])
    V.ensure("rwlock/str-and-Path-arguments-agree", z3.BoolVal(o3.returned) if not o3.returned else to_z3(o3.value.fields["s"]) == outs[0])


# ------------------------------------------------------------------------------------------ creating / opening a library file
@P.unit(f"{BACKEND}.__init__", name="UkvCollectionBackend(path): the existence test and the (re)initialisation of the file happen inside ONE write-lock bracket",
        functions=[f"{BACKEND}.__init__", f"{BASE}.__init__"])
def _backend_init(V):
    """several processes may open a library that does not exist yet: whoever tests for the file and creates it must hold the write
    lock across both steps (check-then-act), and must never truncate a file it did not find missing unless asked to overwrite"""
    I, st = V.I, V.st
    Path = I.ext_models["pathlib.Path"]
    exists = V.choose([False, True], "file-exists")
    overwrite = V.choose([False, True], "overwrite")
    create_fails = V.choose([False, True], "initialisation-raises")
    trace = []
    made = []
    lock_holder = {}
    Path.ns["is_file"] = Builtin("Path.is_file", lambda i, a, k: trace.append(("is_file", lock_holder["lock"].fields["held"])) or exists)
    Path.ns["exists"] = Path.ns["is_file"]

    def ukv_new(I_, cls, args, kw):
        mode = kw.get("mode", args[1] if len(args) > 1 else "r")
        trace.append(("UKVFile", mode, lock_holder["lock"].fields["held"]))
        if create_fails:
            I_.raise_py("OSError", "cannot create")
        o = Obj(cls, {"closed": False}, tag="ukv")
        made.append(o)
        return o
    I.stubs[UKV] = ukv_new
    ucls = V.cls(UKV)
    ucls.ns["__enter__"] = Builtin("enter", lambda i, a, k: a[0])
    ucls.ns["__exit__"] = Builtin("exit", lambda i, a, k: a[0].fields.__setitem__("closed", True) or False)
    real_new = I.LockCls.ns["__pyvc_new__"]

    def lock_new(i, cls, a, k):
        lk = real_new(i, cls, a, k)
        lock_holder["lock"] = lk
        return lk
    I.LockCls.ns["__pyvc_new__"] = lock_new
    V.witness(lambda ev: {"op": "backend-init", "exists": exists, "overwrite": overwrite, "signature": "backend-init"})
    V.cover()
    cls = V.cls(BACKEND)
    I.target = f"{BACKEND}.__init__"
    try:
        out = Outcome("return", I.call(cls, [V.sym("path", "str")], {"overwrite": overwrite, "readonly": False, "bufsize": 0}))
    except PyExc as ex:
        out = Outcome("raise", exc=ex.value)
    finally:
        I.LockCls.ns["__pyvc_new__"] = real_new
    tests = [t for t in trace if t[0] == "is_file"]
    inits = [t for t in trace if t[0] == "UKVFile"]
    V.ensure("init/existence-test-under-the-write-lock", z3.BoolVal(len(tests) >= 1 and all(t[1] == "write" for t in tests)))
    V.ensure("init/file-(re)initialised-under-the-write-lock", z3.BoolVal(all(t[2] == "write" for t in inits)))
    evs = [e for e in st.trace if e[0] in ("acquire", "release")]
    V.ensure("init/test-and-initialisation-share-one-lock-bracket", z3.BoolVal(len([e for e in evs if e[0] == "acquire"]) == 1))
    want = [] if (exists and not overwrite) else [("x" if not exists else "w")]
    V.ensure("init/creates-only-a-missing-file-truncates-only-on-overwrite", z3.BoolVal([t[1] for t in inits] == want))
    V.ensure("init/lock-released-on-every-exit", z3.BoolVal("lock" in lock_holder and lock_holder["lock"].fields["held"] is None))
    V.ensure("init/raises-only-when-initialisation-fails", z3.BoolVal(out.returned == (not (create_fails and want))))
