"""Helpers shared by the contract modules."""
import z3
from pyvc.values import *
from pyvc.spec import *


def uninterpreted(name, ret="fresh", may_raise=True):
    """Stub: the call is recorded in the ghost trace; it returns an opaque fresh object (or `ret`)
    or raises an opaque exception (every uninterpreted callee may raise)."""

    def stub(I, fv, args, kwargs):
        st = I.st
        n = len(st.trace)
        if may_raise and st.branch(st.fresh(f"raises_{name}", z3.BoolSort()), f"{name}-raises"):
            exc = Obj(I.builtins["Exception"], {"args": (f"raised by {name}",)}, tag=f"exc-from-{name}")
            st.event("call", name, tuple(args), tuple(sorted(kwargs.items())), None, exc)
            raise PyExc(exc)
        r = Opaque(f"obj:ret:{name}", (n,)) if ret == "fresh" else ret
        st.event("call", name, tuple(args), tuple(sorted(kwargs.items())), r, None)
        return r

    return stub
