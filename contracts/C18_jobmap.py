"""C18 -- jobmap computes each item once, reuses only valid results, resumes cleanly.

jobmap is executed symbolically over a two-key universe {"a","b"} where, per key, membership in source and
destination, the cached output (exists / loadable / hash matches / exit code 0), the outcome of a fresh run and
whether `process` raises are all symbolic.  Collections are used through their C02/C04 contracts (ghost maps with
reading()/writing() sessions); the thread pool is a sequential ghost executor.
"""
import z3
from pyvc.spec import *
from pyvc.values import *
from pyvc.ops import to_z3

P = Property("C18", "jobmap: each item once, only valid results reused")
P.trust("Collection keys/getitem/setitem/reading/writing through their C02/C04 contracts (ghost maps); ThreadPoolExecutor = sequential "
        "calls; filesystem of the cache directory as a ghost map; job.prepare/process uninterpreted (may raise)")
P.assume("key universe of two keys (bounded); everything about each key symbolic")
JM = "molli.pipeline.job:jobmap"
KEYS = ["a", "b"]


def B(st, name):
    return st.fresh(name, z3.BoolSort())


class World:
    """ghost state of one jobmap run"""

    def __init__(self, V, vectorized):
        I, st = V.I, V.st
        self.V, self.I, self.st = V, I, st
        self.vec = vectorized
        self.schedule = V.choose(["at-submit", "when-awaited"], "pool-schedule")
        # vectorized unit: key "b" is fixed (already in both libraries) to keep the path count manageable
        free = KEYS if not vectorized else ["a"]
        self.in_src = {k: (V.choose([True, False], f"{k}-in-source") if k in free else True) for k in KEYS}
        self.in_dst = {k: (V.choose([True, False], f"{k}-in-destination") if k in free else True) for k in KEYS}
        self.subs = {k: ([f"{k}.0", f"{k}.1"] if vectorized else [k]) for k in KEYS}
        self.out = {}       # output file stem -> dict(exists, loadable, hash, exitcode) ; symbolic
        self.H = {}         # current input hash per stem
        for k in KEYS:
            for s in self.subs[k]:
                self.H[s] = V.sym(f"H_{s}", "str")
                self.out[s] = {"exists": (V.choose([False, True], f"cached-{s}") if k in free else False), "loadable": True,
                               "hash": V.sym(f"cached_hash_{s}", "str"), "exitcode": V.sym(f"cached_exit_{s}", "int")}
                if self.out[s]["exists"]:
                    self.out[s]["loadable"] = V.choose([True, False], f"cached-{s}-loadable")
        self.run_rc = {s: V.sym(f"run_exit_{s}", "int") for k in KEYS for s in self.subs[k]}
        self.runs = []      # stems executed, in order
        self.dumped = []    # input stems written
        self.dst_set = {}   # key -> value written to destination
        self.src_get = []   # keys read from source
        self.processed = {} # key -> (outputs passed)
        self.proc_raises = {k: (V.choose([False, True], f"process-{k}-raises") if k in free else False) for k in KEYS}
        self.sessions = []


def install(w: World):
    I, st, V = w.I, w.st, w.V
    obj = I.builtins["object"]

    def mkcls(name):
        c = ClassV(name, builtin=True, bases=[obj])
        c.compute_mro()
        return c
    # ---- ghost collections
    Coll = mkcls("GhostCollection")

    class Sess:
        pass
    CM = mkcls("GhostSession")
    CM.ns["__enter__"] = Builtin("enter", lambda i, a, k: w.sessions.append(("enter", a[0].fields["c"].tag, a[0].fields["kind"])) or a[0].fields["c"])
    CM.ns["__exit__"] = Builtin("exit", lambda i, a, k: w.sessions.append(("exit", a[0].fields["c"].tag, a[0].fields["kind"])) or False)
    Coll.ns["reading"] = Builtin("reading", lambda i, a, k: Obj(CM, {"c": a[0], "kind": "r"}))
    Coll.ns["writing"] = Builtin("writing", lambda i, a, k: Obj(CM, {"c": a[0], "kind": "w"}))

    def keys(i, a, k):
        c = a[0]
        m = w.in_src if c.tag == "source" else w.in_dst
        return I.make_set([kk for kk in KEYS if m[kk]])
    Coll.ns["keys"] = Builtin("keys", keys)

    def getitem(i, a, k):
        c, key = a[0], a[1]
        if c.tag == "source":
            w.src_get.append(key)
            if not (key in KEYS and w.in_src[key]):
                i.raise_py("KeyError", key)
            return Opaque(f"obj:src[{key}]")
        i.raise_py("KeyError", key)
    Coll.ns["__getitem__"] = Builtin("getitem", getitem)

    def setitem(i, a, k):
        c, key, val = a
        if c.tag != "destination" or not any(s == ("enter", "destination", "w") for s in w.sessions) or w.sessions.count(("exit", "destination", "w")) >= w.sessions.count(("enter", "destination", "w")):
            i.raise_py("OSError", "write outside a writing session")
        w.dst_set.setdefault(key, []).append(val)
    Coll.ns["__setitem__"] = Builtin("setitem", setitem)
    Path = I.ext_models["pathlib.Path"]
    w.source = Obj(Coll, {"_path": Obj(Path, {"s": "src.mlib"}, tag="path")}, tag="source")
    w.dest = Obj(Coll, {}, tag="destination")
    # ---- filesystem of the cache dir
    Path.ns["absolute"] = Builtin("absolute", lambda i, a, k: a[0])
    Path.ns["stem"] = PropertyV(Builtin("stem", lambda i, a, k: "src"))
    Path.ns["mkdir"] = Builtin("mkdir", lambda i, a, k: None)
    Path.ns["__truediv__"] = Builtin("div", lambda i, a, k: Obj(Path, {"s": (a[0].fields["s"] if isinstance(a[0].fields["s"], str) else "?") + "/" + (a[1] if isinstance(a[1], str) else a[1].fields["s"])}, tag="path"))
    Path.ns["__str__"] = Builtin("str", lambda i, a, k: a[0].fields["s"])

    def stem_of(p):
        s = p.fields["s"] if isinstance(p, Obj) else p
        b = s.rsplit("/", 1)[-1]
        return b[:-4] if b.endswith((".out", ".inp")) else b
    Path.ns["is_file"] = Builtin("is_file", lambda i, a, k: bool(w.out.get(stem_of(a[0]), {}).get("exists", False)))
    st.ghost["open_hook"] = lambda I_, path, mode: Obj(I.StreamCls, {"path": path, "mode": mode, "closed": False, "owned": True}, tag="stream")
    I.opaque_globals[("molli.config", "SPLASH")] = "splash"
    I.opaque_globals[("molli.config", "SCRATCH_DIR")] = Obj(Path, {"s": "scratchdir"}, tag="path")
    I.opaque_globals[("molli.pipeline.job", "config")] = Obj(obj, {"SPLASH": "splash", "SCRATCH_DIR": Obj(Path, {"s": "scratchdir"}, tag="path")})
    # ---- logging / tqdm
    Log = mkcls("Logger")
    for n in ("debug", "info", "error", "exception", "warning", "addHandler", "setLevel"):
        Log.ns[n] = Builtin(n, lambda i, a, k: None)
    I.ext_models["logging.getLogger"] = Builtin("getLogger", lambda i, a, k: Obj(Log, {}))
    I.ext_models["logging.FileHandler"] = Builtin("FileHandler", lambda i, a, k: Opaque("obj:handler"))
    Tq = mkcls("tqdm")
    Tq.ns["__pyvc_new__"] = lambda i, cls, a, k: Obj(Tq, {"it": a[0]}, tag="tqdm")
    Tq.ns["__iter__"] = Builtin("iter", lambda i, a, k: IterV(i.iterate(a[0].fields["it"])))
    Tq.ns["write"] = Builtin("write", lambda i, a, k: None)
    I.ext_models["tqdm.tqdm"] = Tq
    # ---- JobInput / JobOutput / job
    JI = V.cls("molli.pipeline.job:JobInput")
    JO = V.cls("molli.pipeline.job:JobOutput")
    JI.ns["hash"] = PropertyV(Builtin("hash", lambda i, a, k: w.H[a[0].fields["jid"]]))
    I.stubs["molli.pipeline.job:JobInput.dump"] = lambda I_, fv, a, k: w.dumped.append(stem_of(a[1])) or None

    def load_out(I_, fv, a, k):
        s = stem_of(a[-1])
        o = w.out.get(s)
        if o is None or not o["exists"]:
            I_.raise_py("FileNotFoundError", s)
        if not o["loadable"]:
            I_.raise_py("ValueError", "corrupt output")
        return Obj(JO, {"stdouts": None, "stderrs": None, "exitcode": o["exitcode"], "files": None, "input_hash": o["hash"]}, tag=f"out:{s}")
    I.stubs["molli.pipeline.job:JobOutput.load"] = load_out

    def mk_input(s):
        return Obj(JI, {"jid": s, "commands": ListV([]), "files": None, "return_files": None, "envars": None, "timeout": None}, tag=f"in:{s}")

    def prepare(i, a, k):
        srcobj = a[0]
        key = srcobj.head[len("obj:src["):-1]
        if w.vec:
            return IterV(iter([mk_input(s) for s in w.subs[key]]))
        return mk_input(key)

    def process(i, a, k):
        outs, srcobj = a[0], a[1]
        key = srcobj.head[len("obj:src["):-1]
        outs_l = list(i.iterate(outs)) if w.vec else [outs]
        w.processed[key] = outs_l
        if w.proc_raises[key]:
            i.raise_py("RuntimeError", "process failed")
        return Opaque(f"obj:result[{key}]")
    w.job = Obj(obj, {"name": "jobname", "__doc__": "", "prepare": Builtin("prepare", prepare), "process": Builtin("process", process)}, tag="job")
    # ---- executor
    Ex = mkcls("ThreadPoolExecutor")
    # the pool's schedule: a task may run as soon as it is submitted or only when its result is awaited (or at shutdown) -- both
    # extremes are explored; a callable that captures a loop variable by reference shows under the second
    pending = []
    Ex.ns["__pyvc_new__"] = lambda i, cls, a, k: Obj(Ex, {})
    Ex.ns["__enter__"] = Builtin("enter", lambda i, a, k: a[0])

    def run_pending(i):
        while pending:
            pending.pop(0)()

    def ex_exit(i, a, k):
        run_pending(i)
        return False
    Ex.ns["__exit__"] = Builtin("exit", ex_exit)

    def submit(i, a, k):
        fn, args, kw_ = a[1], list(a[2:]), dict(k)
        box = {}

        def task():
            if "r" not in box:
                box["r"] = i.call(fn, list(args), kw_)
        if w.schedule == "at-submit":
            task()
        else:
            pending.append(task)

        def result(i2, a2, k2):
            if "r" not in box:
                # tasks are started in submission order by a pool; awaiting one lets the earlier ones run first
                run_pending(i2)
            return box["r"]
        return Obj(obj, {"result": Builtin("result", result)})
    Ex.ns["submit"] = Builtin("submit", submit)
    I.ext_models["concurrent.futures.ThreadPoolExecutor"] = Ex

    def run_local(I_, fv, a, k):
        # (arguments by position or by name: _run_local(ifn, cwd, odir, sdir))
        s = stem_of(a[0] if a else k["ifn"])
        w.runs.append(s)
        # a fresh run replaces the output record: hash of the input that was run, new exit code
        w.out[s] = {"exists": True, "loadable": True, "hash": w.H.get(s, Opaque("obj:?")), "exitcode": w.run_rc.get(s, 1)}
        return Obj(obj, {"returncode": w.run_rc.get(s, 1)})
    I.stubs["molli.pipeline.job:_run_local"] = run_local


def valid(w, s, o=None):
    """the output record of stem s is a valid result for the current input: exists, loadable, exit code 0, and -- unless the caller
    switched strict_hash off -- produced from the same input (hash)"""
    o = o or w.out[s]
    if not o["exists"] or not o["loadable"]:
        return False
    if not getattr(w, "strict", True):
        return to_z3(o["exitcode"], "int") == 0
    return z3.And(to_z3(o["hash"]) == w.H[s].z, to_z3(o["exitcode"], "int") == 0)


def unit(vectorized):
    def body(V):
        I, st = V.I, V.st
        w = World(V, vectorized)
        w.strict = V.choose([True, False], "strict_hash")
        install(w)
        cached0 = {s: dict(o) for s, o in w.out.items()}
        V.witness(lambda ev: {"op": "jobmap", "vectorized": vectorized, "in_src": w.in_src, "in_dst": w.in_dst,
                              "cached": {s: {"exists": o["exists"], "loadable": o["loadable"], "hash_matches": bool(ev(to_z3(o["hash"]) == w.H[s].z)),
                                             "exit": ev(o["exitcode"])} for s, o in cached0.items()},
                              "run_exit": {s: ev(r) for s, r in w.run_rc.items()}, "process_raises": w.proc_raises, "signature": "jobmap"})
        V.cover()
        out = V.call(JM, [w.job, w.source, w.dest], {"cache_dir": "cache", **({} if w.strict else {"strict_hash": False})})
        V.ensure("post/no-exception-escapes", z3.BoolVal(out.returned))
        todo = [k for k in KEYS if w.in_src[k] and not w.in_dst[k]]
        V.ensure("post/only-missing-source-items-are-touched", z3.BoolVal(all(k in todo or k not in w.src_get for k in KEYS) and all(k in KEYS for k in w.src_get)))
        for k in KEYS:
            for s in w.subs[k]:
                ran = w.runs.count(s)
                V.ensure(f"post/{s}:executed-at-most-once", z3.BoolVal(ran <= 1))
                if k not in todo:
                    V.ensure(f"post/{s}:not-executed-when-not-due", z3.BoolVal(ran == 0))
                else:
                    v0 = valid(w, s, cached0[s])
                    want_run = I.not_(v0)
                    V.ensure(f"post/{s}:executed-iff-no-valid-cached-output", I.wrap_bool(want_run).z == z3.BoolVal(ran == 1) if not isinstance(want_run, bool) else z3.BoolVal(want_run == (ran == 1)))
            written = k in w.dst_set
            if k not in todo:
                V.ensure(f"post/{k}:destination-left-alone", z3.BoolVal(not written))
            else:
                allvalid = I.and_(*[valid(w, s) for s in w.subs[k]])
                should = I.and_(allvalid, not w.proc_raises[k])
                V.ensure(f"post/{k}:stored-iff-every-output-is-valid-and-processing-succeeded",
                         (should if not isinstance(should, bool) else z3.BoolVal(should)) == z3.BoolVal(written))
                if written:
                    V.ensure(f"post/{k}:stored-once-the-processed-result", z3.BoolVal(w.dst_set[k] == [Opaque(f"obj:result[{k}]")]))
                    # what was processed: the loaded output record of every sub-job, in order (not an exhausted iterator, not a subset)
                    got_ = w.processed.get(k)
                    V.ensure(f"post/{k}:process-receives-every-output-record-in-order",
                             z3.BoolVal(isinstance(got_, list) and [getattr(o_, "tag", None) for o_ in got_] == [f"out:{s_}" for s_ in w.subs[k]]))
    return body


P.unit(JM, name="jobmap[single jobs]")(unit(False))
P.unit(JM, name="jobmap[vectorized jobs]")(unit(True))


# reuse of cached outputs relies on what run_local records (exit code, input hash): C17's run_local contract is part of this claim
from contracts import C17_jobs as C17
P.include(C17.P, ["run_local: files, command loop"], why="the recorded exit code / input hash decide reuse")
P.include(C17.P, ["JobInput: the hash covers every field"], why="cache reuse compares input hashes")


# ------------------------------------------------------------------------------------------ directory-backed destinations
@P.unit("molli.storage.backends:DirCollectionBackend.get_path", name="DirCollectionBackend: every key has its own file (dir/key+ext), so one item's result can never land on another key")
def _dir_paths(V):
    """jobmap's 'already in the destination / store the result under this key' is only as good as the backend's key -> file mapping.
    Path.with_suffix / stem / name are uninterpreted: only  dir / (key + ext)  is known to be injective in the key."""
    I, st = V.I, V.st
    Path = I.ext_models["pathlib.Path"]
    S = z3.StringSort()
    Fsuf = z3.Function("path_with_suffix", S, S, S)
    mk = lambda z: Obj(Path, {"s": SV(z, "str")}, tag="path")
    Path.ns["__truediv__"] = Builtin("Path./", lambda i, a, k: mk(z3.Concat(to_z3(a[0].fields["s"]), z3.StringVal("/"), to_z3(a[1] if not isinstance(a[1], Obj) else a[1].fields["s"]))))
    Path.ns["with_suffix"] = Builtin("Path.with_suffix", lambda i, a, k: mk(Fsuf(to_z3(a[0].fields["s"]), to_z3(a[1]))))
    Path.ns["with_name"] = Builtin("Path.with_name", lambda i, a, k: mk(z3.Function("path_with_name", S, S, S)(to_z3(a[0].fields["s"]), to_z3(a[1]))))
    cls = V.cls("molli.storage.backends:DirCollectionBackend")
    d = V.sym("dir", "str")
    ext = V.sym("ext", "str")
    b = Obj(cls, {"_path": mk(d.z), "ext": ext}, tag="dirbackend")
    k1, k2 = V.sym("key1", "str"), V.sym("key2", "str")
    V.witness(lambda ev: {"op": "dir-keys", "signature": "dir-keys"})
    V.cover()
    p1 = V.method(b, "get_path", [k1], qual="molli.storage.backends:DirCollectionBackend.get_path")
    p2 = V.method(b, "get_path", [k2])
    ok = p1.returned and p2.returned and isinstance(p1.value, Obj) and isinstance(p2.value, Obj)
    V.ensure("dir/get_path-returns-a-path", z3.BoolVal(bool(ok)))
    if not ok:
        return
    s1, s2 = to_z3(p1.value.fields["s"]), to_z3(p2.value.fields["s"])
    V.ensure("dir/file-of-a-key-is-dir/key+ext", s1 == z3.Concat(d.z, z3.StringVal("/"), k1.z, ext.z))
    V.ensure("dir/different-keys-never-share-a-file", z3.Implies(s1 == s2, k1.z == k2.z))
