"""C12 -- joining fragments at attachment points builds exactly the intended molecule.

Structure.join is executed symbolically on two fragments (A: p0-p1-apA, B: apB-q0-q1; all field values, charges,
multiplicities, coordinates, requested distance and bond parameters symbolic).  rotation_matrix_from_vectors is used
through its C11 contract (a proper rotation taking the direction of its first argument to that of the second).
"""
import z3
from pyvc.spec import *
from pyvc.values import *
from pyvc.ops import to_z3
from pyvc import npmodel as NP
from contracts import mol as M
from contracts import C11_rigid as G

P = Property("C12", "joining fragments at attachment points")
P.trust("numpy linear algebra over the reals; C11 contract of rotation_matrix_from_vectors (proved there for the general branch)")
P.assume("fragment sizes fixed (3 atoms each, attachment point with one neighbour); all values symbolic; optimize_rotation=False in the "
         "geometric unit (with True the extra factor is rotation_matrix_from_axis(v1, angle): a rotation about the new bond -- which "
         "angle is an argmin over the compiled kernel and is not decided)")
P.not_decided += ["which rotamer _optimize_rotation picks (argmin over a C++ kernel)",
                  "iterated joins in molli combine (index shift ap_i - i): not covered"]
ST = M.CLS["Structure"]
Z = G.Z


def fragments(V, kind="Molecule"):
    # the bond of an attachment point may be stored as (neighbour, AP) or as (AP, neighbour): both orientations for both fragments
    flip = V.choose([False, True], "attachment-bonds-stored-reversed")
    A = M.mk_mol(V, kind, 3, ((0, 1), (2, 1)) if flip else ((0, 1), (1, 2)), name="A", full=True)      # AP of A = atom 2
    B = M.mk_mol(V, kind, 3, ((1, 0), (1, 2)) if flip else ((0, 1), (1, 2)), name="B", full=True)      # AP of B = atom 0
    return A, B


def deep_snapshot(m):
    s = M.snapshot(m)
    s["atomfields"] = [dict(a.fields) for a in s["atoms"]]
    s["bondfields"] = [dict(b.fields) for b in s["bonds"]]
    s["scalars"] = (m.fields["_name"], m.fields["charge"], m.fields["mult"])
    return s


def same_deep(I, a, b):
    ok = M.same_snapshot(I, a, b)
    flat_ok = (all(x == y or all(v is y.get(k) for k, v in x.items()) for x, y in zip(a["atomfields"], b["atomfields"]))
               and all(all(v is y.get(k) for k, v in x.items()) for x, y in zip(a["bondfields"], b["bondfields"]))
               and all(p is q for p, q in zip(a["scalars"], b["scalars"])))
    return I.and_(ok, flat_ok)


@P.setup
def _setup(I):
    I.stubs["molli.data:get"] = lambda I_, fv, a, k: I_.st.ghost.setdefault(("data", a[1] if len(a) > 1 else None, repr(a[2]) if len(a) > 2 else None),
                                                                            I_.st.fresh_sv("datum", "real"))


rot_contract = G.rot_contract


@P.unit(f"{ST}.join", name="join[bookkeeping, charge, multiplicity, sources untouched]")
def _join_book(V):
    I, st = V.I, V.st
    I.applies["molli.math.rotation:rotation_matrix_from_vectors"] = rot_contract
    kind = V.choose(["Molecule", "Structure"], "class")
    A, B = fragments(V, kind)
    sa, sb = deep_snapshot(A), deep_snapshot(B)
    apA, apB = sa["atoms"][2], sb["atoms"][0]
    kw = {}
    qover = V.choose(["none", "sym"], "charge-override")
    mover = V.choose(["none", "sym"], "mult-override")
    if qover == "sym":
        kw["charge"] = V.sym("q", "int")
    if mover == "sym":
        kw["mult"] = V.sym("mu", "int")
        V.assume(kw["mult"].z >= 1)
    BT, BS = V.cls("molli.chem.bond:BondType"), V.cls("molli.chem.bond:BondStereo")
    bt, bs, bo = V.sym_enum("bt", BT), V.sym_enum("bs", BS), V.sym("bo", "real")
    kw.update({"btype": bt, "bstereo": bs, "bforder": bo, "dist": V.sym("dist", "real")})
    V.assume(kw["dist"].z > 0)
    V.assume(z3.And(Z(A.fields["mult"]) >= 1, Z(B.fields["mult"]) >= 1))    # multiplicities are >= 1 (constructors canonicalise 0)
    V.witness(lambda ev: {"op": "join", "charge_override": ev(kw["charge"]) if qover == "sym" else None,
                          "mult_override": ev(kw["mult"]) if mover == "sym" else None, "qA": ev(A.fields["charge"]), "qB": ev(B.fields["charge"]),
                          "mA": ev(A.fields["mult"]), "mB": ev(B.fields["mult"]), "signature": "join-bookkeeping"})
    V.cover()
    cls = V.cls(M.CLS[kind])
    I.target = f"{ST}.join"
    try:
        res = I.call(I.getattr_(cls, "join"), [A, B, apA, apB], kw)
        out = Outcome("return", res)
    except PyExc as e:
        out = Outcome("raise", exc=e.value)
    if any(e[0] == "np-division-by-zero" for e in st.trace):
        return        # attachment point on top of its neighbour: direction undefined, outside the precondition
    V.ensure("post/returns", z3.BoolVal(out.returned))
    if not out.returned:
        return
    V.ensure("post/result-is-a-new-object-of-the-class", z3.BoolVal(isinstance(res, Obj) and res.cls is cls and res is not A and res is not B))
    ra = res.fields["_atoms"].items
    src_atoms = sa["atoms"][:2] + sb["atoms"][1:]
    V.ensure("post/atoms:all-but-the-two-attachment-points-in-order", z3.BoolVal(len(ra) == 4))
    if len(ra) == 4:
        for f in ("element", "isotope", "label", "atype", "stereo", "geom", "formal_charge", "formal_spin"):
            V.ensure(f"post/atom.{f}-copied", I.and_(*[I.eq(x.fields[f], y.fields[f]) if x.fields[f] is not None else (y.fields[f] is None) for x, y in zip(src_atoms, ra)]))
        V.ensure("post/atoms-are-fresh-copies-owned-by-the-result",
                 z3.BoolVal(all(all(y is not x for x in sa["atoms"] + sb["atoms"]) for y in ra)
                            and all(isinstance(y.fields["_parent"], Obj) and y.fields["_parent"].fields["ref"] is res for y in ra)))
        rb = res.fields["_bonds"].items
        ends = [(ra.index(b.fields["a1"]) if b.fields["a1"] in ra else -1, ra.index(b.fields["a2"]) if b.fields["a2"] in ra else -1) for b in rb]
        V.ensure("post/bonds:internal-bonds-kept-plus-exactly-one-new-bond-between-the-former-neighbours",
                 z3.BoolVal(ends == [(0, 1), (2, 3), (1, 2)]))
        if len(rb) == 3:
            nb = rb[2]
            V.ensure("post/new-bond-has-the-requested-type-stereo-order", I.and_(I.eq(nb.fields["btype"], bt), I.eq(nb.fields["stereo"], bs), I.eq(nb.fields["f_order"], bo)))
            V.ensure("post/kept-bonds-keep-their-fields", I.and_(*[I.eq(x.fields[f], y.fields[f]) for x, y in ((sa["bonds"][0], rb[0]), (sb["bonds"][1], rb[1]))
                                                                   for f in ("btype", "stereo", "f_order")]))
            V.ensure("post/bonds-owned-by-the-result", z3.BoolVal(all(isinstance(b.fields["_parent"], Obj) and b.fields["_parent"].fields["ref"] is res for b in rb)))
    qa, qb = Z(A.fields["charge"]), Z(B.fields["charge"])
    ma, mb = Z(A.fields["mult"]), Z(B.fields["mult"])
    V.ensure("post/charge:sum-unless-overridden", Z(res.fields["charge"]) == (Z(kw["charge"]) if qover == "sym" else qa + qb))
    V.ensure("post/multiplicity:mA+mB-1-unless-overridden", Z(res.fields["mult"]) == (Z(kw["mult"]) if mover == "sym" else ma + mb - 1))
    V.ensure("frame/A-and-B-untouched", I.and_(same_deep(I, sa, deep_snapshot(A)), same_deep(I, sb, deep_snapshot(B))))


@P.unit(f"{ST}.join", name="join[geometry: rigid fragments, bond length and direction]")
def _join_geom(V):
    I, st = V.I, V.st
    I.applies["molli.math.rotation:rotation_matrix_from_vectors"] = rot_contract
    A, B = fragments(V, "Molecule")
    ca = [list(r) for r in A.fields["_coords"].data]
    cb = [list(r) for r in B.fields["_coords"].data]
    dist = V.sym("dist", "real")
    V.assume(dist.z > 0)
    V.witness(lambda ev: {"op": "join", "signature": "join-geometry"})
    V.cover()
    cls = V.cls(M.CLS["Molecule"])
    I.target = f"{ST}.join"
    try:
        res = I.call(I.getattr_(cls, "join"), [A, B, A.fields["_atoms"].items[2], B.fields["_atoms"].items[0]], {"dist": dist})
    except PyExc:
        V.ensure("post/returns", z3.BoolVal(False))
        return
    V.ensure("post/returns", z3.BoolVal(True))
    # A and B are left untouched: their coordinate arrays hold the numbers they held before the call (also the attachment-point rows,
    # which the computation reads through views)
    for nm, frag, c0 in (("A", A, ca), ("B", B, cb)):
        now = frag.fields["_coords"]
        V.ensure(f"frame/{nm}-keeps-its-coordinates", I.and_(tuple(now.tail) == (3, 3),
                 *[Z(now.data[i][k]) == Z(c0[i][k]) for i in range(min(3, len(now.data))) for k in range(3)]))
    if any(e[0] == "np-division-by-zero" for e in st.trace):
        return
    rc = res.fields["_coords"].data
    V.ensure("post/one-row-per-product-atom", z3.BoolVal(res.fields["_coords"].tail == (4, 3)))
    if res.fields["_coords"].tail != (4, 3):
        return
    r1 = ca[1]
    V.ensure("post/fragment-A-translated-so-its-anchor-is-at-the-origin",
             z3.And(*[Z(rc[i][k]) == Z(ca[i][k]) - Z(r1[k]) for i in (0, 1) for k in range(3)]))
    G.eqs("post/fragment-B-keeps-its-internal-distances", V, [(G.d2(rc[2], rc[3]), G.d2(cb[1], cb[2]))], hyps=st.ghost.get("R_orth"))
    # new bond vector = dist * v1/|v1| with v1 the former attachment direction of A (anchor -> attachment point)
    v1 = [Z(ca[2][k]) - Z(ca[1][k]) for k in range(3)]
    n1 = NP.sqrt_sumsq(I, [SV(x, "real") for x in v1])
    G.eqs("post/new-bond-has-the-requested-length-along-A's-attachment-direction", V,
          [((Z(rc[2][k]) - Z(rc[1][k])) * Z(n1), dist.z * v1[k]) for k in range(3)])
    # B's former attachment direction now points back along the new bond: (apB - q0) rotated is antiparallel to v1
    v2 = [Z(cb[0][k]) - Z(cb[1][k]) for k in range(3)]
    n2 = NP.sqrt_sumsq(I, [SV(x, "real") for x in v2])
    V.ensure("post/used-the-rotation-contract-once", z3.BoolVal(len([e for e in st.trace if e[:2] == ("contract", "rotation_matrix_from_vectors")]) == 1))
    facts = st.ghost.get("rot_facts", [])
    if len(facts) == 1:
        # the rotation takes B's attachment direction (neighbour -> attachment point) onto the reverse of A's: B is attached the right way round
        V.ensure("post/B-is-turned-so-that-its-attachment-direction-opposes-A's",
                 z3.And(*[Z(facts[0]["v1"][k]) == v2[k] for k in range(3)], *[Z(facts[0]["v2"][k]) == -v1[k] for k in range(3)]))


@P.unit("molli.math.rotation:rotation_matrix_from_vectors", name="join does not depend on hidden state (no RNG on any path)")
def _pure(V):
    """the rotation used by join, on exactly (anti)parallel attachment vectors as well: no hidden-state source may be reached"""
    I, st = V.I, V.st
    v1, v2 = G.vec(V, "a"), G.vec(V, "b")
    hidden = []

    def rand(I_, a, k):
        hidden.append("np.random.rand")
        st.event("hidden-state", "np.random.rand")
        V.ensure("pure/no-hidden-state-source-is-read", z3.BoolVal(False))      # reported at the read itself
        return NP.mk([st.fresh_sv(f"rnd{i}", "real") for i in range(3)])
    st.ghost[("np", "random.rand")] = rand
    I.loop_specs[("molli.math.rotation:rotation_matrix_from_vectors", 0)] = LoopSpec(
        invariant=lambda L: [("true", z3.BoolVal(True))],
        locals={"_rcp": "real", "RV": lambda I_, n: NP.mk([I_.st.fresh_sv(f"RV{i}", "real") for i in range(3)]),
                "ort": lambda I_, n: NP.mk([I_.st.fresh_sv(f"ort{i}", "real") for i in range(3)])})
    inner = {"n": 0}

    def rec_contract(I_, fv, args, kwargs):
        inner["n"] += 1
        return rot_contract(I_, fv, args, kwargs)
    V.witness(lambda ev: {"op": "purity", "signature": "rng-on-parallel-vectors"})
    V.cover()
    I.target = "molli.math.rotation:rotation_matrix_from_vectors"
    f = V.glob("molli.math.rotation:rotation_matrix_from_vectors")
    # recursive calls inside the antiparallel branch are replaced by the contract
    depth = {"d": 0}
    real = I.call_function

    def guarded(fv, args, kwargs):
        if fv.qual == "molli.math.rotation:rotation_matrix_from_vectors":
            depth["d"] += 1
            try:
                if depth["d"] > 1:
                    return rec_contract(I, fv, args, kwargs)
                return real(fv, args, kwargs)
            finally:
                depth["d"] -= 1
        return real(fv, args, kwargs)
    I.call_function = guarded
    try:
        try:
            I.call(f, [v1, v2], {"tol": 1e-6})
        except PyExc:
            pass
    finally:
        I.call_function = real
    V.ensure("pure/no-hidden-state-source-is-read", z3.BoolVal(not hidden))


# join uses rotation_matrix_from_vectors through its C11 contract: that contract is part of this claim
P.include(G.P, ["rotation_matrix_from_vectors[general branch]"], why="used modularly when orienting fragment B")


# ------------------------------------------------------------------------------------------ iterated joins (molli combine)
@P.unit("molli.scripts.combine:_ml_assemble", name="molli combine: substituent k ends up on the core's attachment point k (iterated join, index shift)",
        functions=["molli.scripts.combine:_ml_assemble", f"{ST}.join"])
def _assemble(V):
    """core  X0 - C1 - C2(-X4) - X3  with three attachment points (0, 4, 3 in this order); three different one-atom substituents.
    join is executed for real (rotation optimisation stubbed: any rotation matrix), so the index shift after each join is the code's."""
    I, st = V.I, V.st
    E = V.cls("molli.chem.atom:Element")
    AT = V.cls("molli.chem.atom:AtomType")
    I.ext_models["joblib.delayed"] = Builtin("delayed", lambda i, a, k: a[0])
    I.stubs["molli.math.distance:_optimize_rotation"] = lambda I_, f, a, k: NP.mk([[1.0, 0.0, 0.0], [0.0, 1.0, 0.0], [0.0, 0.0, 1.0]], "float")
    # which atoms end up bonded does not depend on the geometry: any matrix stands for the two rotation helpers
    I.stubs["molli.math.rotation:rotation_matrix_from_vectors"] = lambda I_, f, a, k: NP.mk([[1.0, 0.0, 0.0], [0.0, 1.0, 0.0], [0.0, 0.0, 1.0]], "float")
    # ascending, as molli combine passes them (indices of core.attachment_points): all of them, or the subset the user selected with -a
    sel = V.choose(["all", "subset"], "attachment-points-used")
    order = (0, 3, 4) if sel == "all" else (3, 4)

    def mol(name, els, bonds, aps):
        m = M.mk_mol(V, "Molecule", len(els), bonds, name=name, full=False, labels="sym")
        for j, (a, el) in enumerate(zip(m.fields["_atoms"].items, els)):
            a.fields["element"] = I.getattr_(E, el)
            a.fields["atype"] = I.getattr_(AT, "AttachmentPoint" if j in aps else "Regular")
        V.assume(to_z3(m.fields["mult"], "int") >= 1)
        # the geometry is irrelevant to which atoms get bonded: concrete, generic coordinates keep this unit to one path
        m.fields["_coords"] = NP.mk([[1.37 * j + 0.11 * len(els), 0.53 * j * j - 0.2 * len(name), 0.29 * j + 0.07 * (j % 2)] for j in range(len(els))], "float")
        return m
    # X0-C1-Si2(-X3)-P5-X4 : the three attachment points have three different neighbours (C, Si, P)
    core = mol("core", ("Unknown", "C", "Si", "Unknown", "Unknown", "P"), ((0, 1), (1, 2), (2, 3), (2, 5), (5, 4)), (0, 3, 4))
    subs = [mol(f"s{k}", ("Unknown", el), ((0, 1),), (0,)) for k, el in enumerate(("N", "O", "F")[:len(order)])]
    V.witness(lambda ev: {"op": "assemble", "core_aps": list(order), "signature": f"assemble/{sel}"})
    V.cover()
    out = V.call("molli.scripts.combine:_ml_assemble", [core, tuple(order), ListV([tuple(subs)])], {"hadd": False})
    ok = out.returned and isinstance(out.value, DictV) and len(out.value.vals) == 1
    V.ensure("assemble/returns-one-product-per-combination", z3.BoolVal(bool(ok)))
    if not ok:
        return
    prod = out.value.vals[0]
    al = prod.fields["_atoms"].items
    n_ap_left = sum(1 for a in al if getattr(a.fields["atype"], "name", "") == "AttachmentPoint")
    V.ensure("assemble/product-has-no-attachment-point-left", z3.BoolVal(len(al) == 6 and n_ap_left == (0 if sel == "all" else 1)))
    name = lambda a: getattr(a.fields["element"], "name", None)
    got = sorted(tuple(sorted((name(b.fields["a1"]), name(b.fields["a2"])))) for b in prod.fields["_bonds"].items)
    if sel == "all":
        want = sorted(tuple(sorted(p_)) for p_ in (("C", "Si"), ("Si", "P"), ("C", "N"), ("Si", "O"), ("P", "F")))
    else:
        # attachment point 0 (on C) was not selected and stays; N goes where AP 3 was (on Si), O where AP 4 was (on P)
        want = sorted(tuple(sorted(p_)) for p_ in (("C", "Si"), ("Si", "P"), ("C", "Unknown"), ("Si", "N"), ("P", "O")))
    V.ensure("assemble/substituent-k-is-bonded-where-attachment-point-k-was", z3.BoolVal(got == want), got=str(got), want=str(want))
