"""C17 -- a job runs exactly what was asked and reports exactly what happened.

Part 1 (descriptor binding): Job.__get__ / DriverBase.__init__ -- the job obtained from a driver instance carries
that instance's executable, processor count, memory and environment, whatever other driver instances were bound
before (history quantifier by the frame clause: binding does not modify the shared descriptor object).
Part 2 (run_local): command loop, capture, returned files, exit status over a ghost trace of external effects.
"""
import z3
from pyvc.spec import *
from pyvc.values import *
from pyvc.ops import to_z3

P = Property("C17", "a job runs what was asked and reports what happened")
P.trust("subprocess/tempfile/filesystem/os: effects recorded in a ghost trace; a child's return code and files are unconstrained inputs")
P.assume("driver classes define no class-level executable/nprocs/memory/envars in part 1 unless stated; names of named commands pairwise distinct")
JOB = "molli.pipeline.job:Job"
DRV = "molli.pipeline.driver:DriverBase"


def mk_job(V, explicit=False):
    I, st = V.I, V.st
    # built by the real constructor (whatever bookkeeping attributes it sets up are there), then given opaque prep/post callables
    j = I.call(V.cls(JOB), [], {"return_files": ("out.xyz",), "executable": V.sym("job_exe", "str") if explicit else None,
                                "nprocs": V.sym("job_np", "int") if explicit else None, "memory": None,
                                "envars": DictV([("JOBVAR", V.sym("job_env", "str"))]) if explicit else None, "name": "jobname", "doc": ""})
    j.fields.update({"_prep": Opaque("obj:prep"), "_post": Opaque("obj:post")})
    if explicit:
        V.assume(z3.And(z3.Length(j.fields["executable"].z) > 0, j.fields["nprocs"].z > 0))
    return j


def mk_driver(V, name, cls):
    d = Obj(cls, {}, tag=name)
    d.fields.update({"executable": V.sym(f"{name}_exe", "str"), "nprocs": V.sym(f"{name}_np", "int"),
                     "memory": V.sym(f"{name}_mem", "int"), "envars": DictV([("VAR", V.sym(f"{name}_env", "str"))])})
    V.assume(z3.And(z3.Length(d.fields["executable"].z) > 0, d.fields["nprocs"].z > 0, d.fields["memory"].z > 0))
    return d


@P.unit(f"{JOB}.__get__", name="Job.__get__ binds this instance's settings and leaves the shared descriptor alone")
def _get(V):
    I, st = V.I, V.st
    explicit = V.choose([False, True], "job-has-explicit-settings")
    vectorized = V.choose([False, True], "vectorized")
    job = mk_job(V, explicit)
    if vectorized:
        job.fields["prepare"] = BoundMethod(V.cls(JOB).ns["_prepare_iter"], job)
        job.fields["process"] = BoundMethod(V.cls(JOB).ns["_process_iter"], job)
    # a user's driver class: a subclass of the real DriverBase (whatever class-level attributes DriverBase itself declares are visible)
    dcls = ClassV("SomeDriver", bases=[V.cls(DRV)])
    dcls.compute_mro()
    # the driver class may carry class-level defaults (shared by all its instances): they are merged, never modified
    cls_env = V.choose(["none", "class-level-envars"], "class-environment")
    clsvars = DictV([("CLSVAR", Opaque("obj:class-default"))])
    if cls_env != "none":
        dcls.ns["envars"] = clsvars
    d1, d2 = mk_driver(V, "d1", dcls), mk_driver(V, "d2", dcls)
    d1.fields["envars"] = DictV(list(zip(d1.fields["envars"].keys, d1.fields["envars"].vals)) + [("ONLY1", Opaque("obj:only-d1"))])
    shared_before = dict(job.fields)
    V.witness(lambda ev: {"op": "two-drivers", "explicit": explicit, "vectorized": vectorized,
                          "d1": [ev(d1.fields["executable"]), ev(d1.fields["nprocs"])], "d2": [ev(d2.fields["executable"]), ev(d2.fields["nprocs"])],
                          "signature": "descriptor-binding"})
    V.cover()
    get = I.getattr_(V.cls(JOB), "__get__")
    I.target = f"{JOB}.__get__"
    b1 = I.call(get, [job, d1, dcls], {})
    b2 = I.call(get, [job, d2, dcls], {})
    b1_again = I.call(get, [job, d1, dcls], {})
    # a driver may be reconfigured between two uses: the next job bound through it sees the new settings
    new_np = V.sym("d1_np_later", "int")
    V.assume(new_np.z > 0)
    d1.fields["nprocs"] = new_np
    b1_later = I.call(get, [job, d1, dcls], {})
    V.ensure("post/reconfigured-driver:nprocs-of-the-moment-of-use", I.eq(b1_later.fields.get("nprocs"), shared_before["nprocs"] if explicit else new_np))
    d1.fields["nprocs"] = b1.fields.get("nprocs") if not explicit else d1.fields["nprocs"]
    for nm, b, d in (("first", b1, d1), ("second", b2, d2), ("first-again", b1_again, d1)):
        exp_exe = job_exe if False else (shared_before["executable"] if explicit else d.fields["executable"])
        exp_np = shared_before["nprocs"] if explicit else d.fields["nprocs"]
        V.ensure(f"post/{nm}-driver:executable", I.eq(b.fields.get("executable"), exp_exe))
        V.ensure(f"post/{nm}-driver:nprocs", I.eq(b.fields.get("nprocs"), exp_np))
        V.ensure(f"post/{nm}-driver:memory", I.eq(b.fields.get("memory"), d.fields["memory"]))
        env = b.fields.get("envars")
        ok_env = isinstance(env, DictV) and "VAR" in env.keys and env.vals[env.keys.index("VAR")] is d.fields["envars"].vals[0]
        V.ensure(f"post/{nm}-driver:environment", z3.BoolVal(bool(ok_env)))
        want_keys = {"VAR"} | ({"ONLY1"} if d is d1 else set()) | ({"CLSVAR"} if cls_env != "none" else set()) | ({"JOBVAR"} if explicit else set())
        V.ensure(f"post/{nm}-driver:environment-is-exactly-class+instance+job", z3.BoolVal(isinstance(env, DictV) and set(env.keys) == want_keys))
        if explicit:
            V.ensure(f"post/{nm}-driver:job's-own-environment-wins", z3.BoolVal(isinstance(env, DictV) and "JOBVAR" in env.keys))
        V.ensure(f"post/{nm}-driver:prep-post-return_files-kept",
                 z3.BoolVal(b.fields.get("_prep") is shared_before["_prep"] and b.fields.get("_post") is shared_before["_post"]
                            and b.fields.get("return_files") == ("out.xyz",)))
        if vectorized:
            p = b.fields.get("prepare")
            V.ensure(f"post/{nm}-driver:vectorized-job-prepares-through-the-bound-job",
                     z3.BoolVal(isinstance(p, BoundMethod) and p.self is b and p.func.name == "_prepare_iter"))
    V.ensure("frame/class-level-and-instance-environments-not-modified",
             z3.BoolVal(clsvars.keys == ["CLSVAR"] and d2.fields["envars"].keys == ["VAR"] and d1.fields["envars"].keys == ["VAR", "ONLY1"]))
    V.ensure("frame/shared-descriptor-not-modified",
             z3.BoolVal(all(job.fields.get(k) is v or job.fields.get(k) == v for k, v in shared_before.items() if k not in ("prepare", "process"))
                        and set(job.fields) == set(shared_before)))


@P.unit(f"{JOB}._prepare_iter", name="prepare / process hand the caller's arguments to the user's functions: f(job, item, *args, **kwargs), item by item in order -- for single and vectorised jobs",
        functions=[f"{JOB}._prepare", f"{JOB}._process", f"{JOB}._prepare_iter", f"{JOB}._process_iter", f"{JOB}.vectorize", f"{JOB}.prep", f"{JOB}.post", f"{JOB}.reduce"])
def _caller_arguments(V):
    I, st = V.I, V.st
    vectorized = V.choose([False, True], "vectorized")
    calls, made = [], {}

    def rec(kind):
        def f(I_, a, k):
            calls.append((kind, list(a), dict(k)))
            if kind == "reduce":
                return ListV(list(I_.iterate(a[1])))
            r_ = Opaque(f"obj:{kind}-result-{len([c for c in calls if c[0] == kind])}")
            made.setdefault(kind, []).append(r_)
            return r_
        b = Builtin(kind, f)
        return b
    fprep, fpost, fred = rec("prep"), rec("post"), rec("reduce")
    for b_, nm in ((fprep, "user_prep"), (fpost, "user_post"), (fred, "user_reduce")):
        try:
            b_.qualname = nm
        except Exception:
            pass
    st.ghost["callable_names"] = {id(fprep): "user_prep", id(fpost): "user_post", id(fred): "user_reduce"}
    job = I.call(V.cls(JOB), [], {"return_files": ("out.xyz",), "name": "jobname", "doc": "doc"})
    job.fields["_prep"], job.fields["_post"] = fprep, fpost
    pos, kwv = V.sym("positional", "int"), V.sym("keyword", "str")
    x1, x2, o1, o2 = Opaque("obj:item1"), Opaque("obj:item2"), Opaque("obj:out1"), Opaque("obj:out2")
    V.witness(lambda ev: {"op": "caller-arguments", "vectorized": vectorized, "signature": "caller-arguments"})
    V.cover()
    I.target = f"{JOB}._prepare_iter"
    if vectorized:
        vec = I.call(I.getattr_(V.cls(JOB), "vectorize"), [job], {})
        vec.fields["_reduce"] = fred
        V.ensure("vectorize/keeps-the-user's-functions-and-settings", z3.BoolVal(vec.fields.get("_prep") is fprep and vec.fields.get("_post") is fpost
                                                                                    and vec.fields.get("return_files") == ("out.xyz",)))
        try:
            got = list(I.iterate(I.call(I.getattr_(vec, "prepare"), [ListV([x1, x2]), pos], {"kw": kwv})))
        except PyExc:
            V.ensure("arguments/prepare-returns", z3.BoolVal(False))
            return
        pc = [c for c in calls if c[0] == "prep"]
        V.ensure("arguments/prepare:one-call-per-item-in-order-as-f(job,item,*args,**kwargs)",
                 z3.BoolVal(len(pc) == 2 and all(len(c[1]) == 3 and c[1][0] is vec and c[1][1] is x and c[1][2] is pos and list(c[2]) == ["kw"] and c[2]["kw"] is kwv
                                                for c, x in zip(pc, (x1, x2)))))
        V.ensure("arguments/prepare:results-in-item-order", z3.BoolVal(len(got) == 2 and len(made.get("prep", [])) == 2 and all(g is r_ for g, r_ in zip(got, made["prep"]))))
        try:
            res = I.call(I.getattr_(vec, "process"), [ListV([o1, o2]), ListV([x1, x2]), pos], {"kw": kwv})
        except PyExc:
            V.ensure("arguments/process-returns", z3.BoolVal(False))
            return
        qc = [c for c in calls if c[0] == "post"]
        V.ensure("arguments/process:output-i-is-paired-with-item-i-as-f(job,output,item,*args,**kwargs)",
                 z3.BoolVal(len(qc) == 2 and all(len(c[1]) == 4 and c[1][0] is vec and c[1][1] is o and c[1][2] is x and c[1][3] is pos and c[2].get("kw") is kwv
                                                for c, o, x in zip(qc, (o1, o2), (x1, x2)))))
        rc = [c for c in calls if c[0] == "reduce"]
        V.ensure("arguments/reduce:called-once-with-the-results-the-items-and-the-arguments",
                 z3.BoolVal(len(rc) == 1 and rc[0][1][0] is vec and len(rc[0][1]) == 4 and rc[0][1][3] is pos and rc[0][2].get("kw") is kwv))
    else:
        try:
            r = I.call(I.getattr_(job, "prepare"), [x1, pos], {"kw": kwv})
            r2 = I.call(I.getattr_(job, "process"), [o1, x1, pos], {"kw": kwv})
        except PyExc:
            V.ensure("arguments/prepare-returns", z3.BoolVal(False))
            return
        pc = [c for c in calls if c[0] == "prep"]
        qc = [c for c in calls if c[0] == "post"]
        V.ensure("arguments/prepare:one-call-per-item-in-order-as-f(job,item,*args,**kwargs)",
                 z3.BoolVal(len(pc) == 1 and len(pc[0][1]) == 3 and pc[0][1][0] is job and pc[0][1][1] is x1 and pc[0][1][2] is pos and pc[0][2].get("kw") is kwv))
        V.ensure("arguments/process:output-i-is-paired-with-item-i-as-f(job,output,item,*args,**kwargs)",
                 z3.BoolVal(len(qc) == 1 and len(qc[0][1]) == 4 and qc[0][1][0] is job and qc[0][1][1] is o1 and qc[0][1][2] is x1 and qc[0][1][3] is pos and qc[0][2].get("kw") is kwv))


@P.unit(f"{DRV}.__init__", name="DriverBase.__init__ keeps the instance's settings for every flag combination")
def _driver_init(V):
    I, st = V.I, V.st
    check_exe = V.choose([True, False], "check_exe")
    find = V.choose([True, False], "find")
    found = V.choose([True, False], "found-on-PATH")
    exe = V.sym("exe", "str")
    V.assume(z3.Length(exe.z) > 0)
    full = V.sym("fullpath", "str")
    V.assume(z3.Length(full.z) > 0)
    st.ghost["which"] = lambda I_, name: (full if found else None)
    nprocs, mem = V.sym("np", "int"), V.sym("mem", "int")
    V.witness(lambda ev: {"op": "driver-init", "check_exe": check_exe, "find": find, "found": found, "signature": "driver-init"})
    V.cover()
    cls = V.cls(DRV)
    I.target = f"{DRV}.__init__"
    try:
        d = I.call(cls, [], {"executable": exe, "nprocs": nprocs, "memory": mem, "check_exe": check_exe, "find": find})
        out = Outcome("return", d)
    except PyExc as e:
        out = Outcome("raise", exc=e.value)
    if check_exe and not found:
        V.ensure("post-exc/unreachable-executable-rejected", z3.BoolVal(out.raised(I, "FileNotFoundError")))
        return
    V.ensure("post/constructed", z3.BoolVal(out.returned))
    if out.returned:
        V.ensure("post/nprocs-memory-kept", I.and_(I.eq(d.fields["nprocs"], nprocs), I.eq(d.fields["memory"], mem)))
        want = full if (find and found) else exe
        V.ensure("post/executable-is-the-resolved-path-or-the-given-name", I.eq(d.fields["executable"], want) if d.fields["executable"] is not None else False)


# =========================================================================================== run_local
RUN = "molli.pipeline.runner:run_local"


@P.unit(RUN, name="run_local: files, command loop, capture, returned files, exit status")
def _run_local(V):
    I, st = V.I, V.st
    k = V.choose([1, 2, 3] + ([4] if V.tier == "thorough" else []), "n-commands")
    named = [V.choose([True, False], f"named{i}") for i in range(k)]
    cmds, names = [], []
    for i in range(k):
        c = V.sym(f"cmd{i}", "str")
        n = V.sym(f"name{i}", "str") if named[i] else None
        cmds.append(c)
        names.append(n)
    for i in range(k):
        for j in range(i):
            if names[i] is not None and names[j] is not None:
                V.assume(names[i].z != names[j].z)
    envars = V.choose(["dict", "none"], "envars")
    jobenv = DictV([("JV", V.sym("jv", "str"))]) if envars == "dict" else None
    ftext, fbin = V.sym("text_content", "str"), V.sym("bin_content", "bytes")
    job = Obj(V.cls("molli.pipeline.job:JobInput"), {
        "jid": V.sym("jid", "str"), "commands": ListV([(c, n) for c, n in zip(cmds, names)]),
        "files": DictV([("in.txt", ftext), ("in.bin", fbin)]), "return_files": ("r1", "r2"), "envars": jobenv,
        "timeout": V.sym("timeout", "real") if V.choose([False, True], "timeout-given") else None}, tag="jobinput")
    H = V.sym("input_hash", "str")
    I.stubs["molli.pipeline.job:JobInput.load"] = lambda I_, fv, a, kw: job
    V.cls("molli.pipeline.job:JobInput").ns["hash"] = PropertyV(Builtin("hash", lambda i, a, kw: H))
    dumps = []
    I.stubs["molli.pipeline.job:JobOutput.dump"] = lambda I_, fv, a, kw: dumps.append((a[0], a[1])) or None
    # ---- environment models (ghost trace)
    Path = I.ext_models["pathlib.Path"]
    exists = {n: st.fresh(f"exists_{n}", z3.BoolSort()) for n in ("r1", "r2")}
    content = {n: V.sym(f"content_{n}", "bytes") for n in ("r1", "r2")}
    Path.ns["mkdir"] = Builtin("Path.mkdir", lambda i, a, kw: st.event("mkdir", a[0]))
    Path.ns["__truediv__"] = Builtin("Path./", lambda i, a, kw: Obj(Path, {"s": Opaque("obj:joined", (a[0].fields["s"], a[1]))}, tag="path"))
    Path.ns["stem"] = PropertyV(Builtin("Path.stem", lambda i, a, kw: Opaque("obj:stem")))
    # the output directory may already hold the record of an earlier run of this job file (a rerun after a failure, a requeued job):
    # of the same input or of another one, failed or successful -- executing the job executes it, whatever is lying there
    old = V.choose(["no-earlier-record", "earlier-record-same-input", "earlier-record-other-input"], "output-directory")
    old_rec = Obj(I.builtins["object"], {"input_hash": H if old == "earlier-record-same-input" else V.sym("other_hash", "str"),
                                         "exitcode": V.sym("old_exitcode", "int"), "jid": V.sym("old_jid", "str"), "stdouts": DictV([]), "stderrs": DictV([]),
                                         "files": DictV([])}, tag="old-joboutput")
    I.stubs["molli.pipeline.job:JobOutput.load"] = lambda I_, fv, a, kw: old_rec

    def is_file(i, a, kw):
        s_ = a[0].fields["s"]
        if isinstance(s_, str) and s_ in exists:
            return SV(exists[s_], "bool")
        if isinstance(s_, Opaque) and s_.args and s_.args[0] == "outdir":
            return old != "no-earlier-record"
        return False
    Path.ns["is_file"] = Builtin("Path.is_file", is_file)
    Path.ns["exists"] = Path.ns["is_file"]
    Path.ns["read_bytes"] = Builtin("Path.read_bytes", lambda i, a, kw: content[a[0].fields["s"]])
    Path.ns["__str__"] = Builtin("Path.__str__", lambda i, a, kw: a[0].fields["s"])
    parsed = Obj(I.builtins["object"], {"job": Obj(Path, {"s": "job.inp"}, tag="path"), "output_dir": "outdir", "scratch_dir": "scratch"}, tag="parsed")
    I.opaque_globals[("molli.pipeline.runner", "arg_parser")] = Obj(I.builtins["object"], {"parse_args": Builtin("parse_args", lambda i, a, kw: parsed)})
    I.ext_models["os.getcwd"] = Builtin("os.getcwd", lambda i, a, kw: "ORIGINAL_CWD")
    I.ext_models["os.chdir"] = Builtin("os.chdir", lambda i, a, kw: st.event("chdir", a[0]))
    # the runner's own environment also defines JV: the job's value must win
    base_jv = V.sym("jv_of_the_runner", "str")
    base_env = DictV([("PATH", V.sym("path_env", "str")), ("JV", base_jv)])
    I.ext_models["os.environ"] = base_env
    I.ext_models["sys.stderr"] = Opaque("obj:stderr")
    I.ext_models["shlex.split"] = Builtin("shlex.split", lambda i, a, kw: Opaque("obj:argv", (a[0],)))
    I.ext_models["subprocess.DEVNULL"] = Opaque("obj:DEVNULL")
    TD = ClassV("TemporaryDirectory", builtin=True, bases=[I.builtins["object"]])
    TD.compute_mro()
    td_path = "SCRATCH/jid__tmp"
    TD.ns["__pyvc_new__"] = lambda i, cls, a, kw: Obj(TD, {"kw": kw}, tag="tempdir")
    TD.ns["__enter__"] = Builtin("td.enter", lambda i, a, kw: st.event("tempdir-created", a[0].fields["kw"].get("dir")) or td_path)
    TD.ns["__exit__"] = Builtin("td.exit", lambda i, a, kw: st.event("tempdir-removed") or False)
    I.ext_models["tempfile.TemporaryDirectory"] = TD
    rcs = [V.sym(f"rc{i}", "int") for i in range(k)]
    runs = []
    captured = {}

    TE = ClassV("TimeoutExpired", builtin=True, bases=[I.builtins["Exception"]])
    TE.compute_mro()
    I.ext_models["subprocess.TimeoutExpired"] = TE
    timed_out = []

    def run(i, a, kw):
        n = len(runs)
        runs.append({"argv": a[0], "cwd": kw.get("cwd"), "env": kw.get("env"), "stdout": kw.get("stdout"), "stderr": kw.get("stderr")})
        st.event("run", a[0])
        if kw.get("timeout") is not None and st.branch(st.fresh(f"times_out{n}", z3.BoolSort()), f"command{n}-times-out"):
            # subprocess.run(timeout=...) kills the child and raises: there is no return code for this command
            timed_out.append(n)
            i.raise_py(TE, "timed out")
        return Obj(I.builtins["object"], {"returncode": rcs[n]}, tag="proc")
    I.ext_models["subprocess.run"] = Builtin("subprocess.run", run)
    written = []

    def open_hook(I_, path, mode):
        name = path.fields["s"] if isinstance(path, Obj) else path
        s_ = Obj(I.StreamCls, {"path": name, "mode": mode, "closed": False, "owned": True}, tag="stream")
        st.event("open", s_, name, mode)
        return s_
    st.ghost["open_hook"] = open_hook
    outtxt = {}

    def s_read(i, a, kw):
        nm = a[0].fields["path"]
        key = repr(nm)
        if key not in outtxt:
            outtxt[key] = (nm, V.sym(f"captured{len(outtxt)}", "str"))
        return outtxt[key][1]
    I.StreamCls.ns["read"] = Builtin("stream.read", s_read)
    I.builtins["exit"] = Builtin("exit", lambda i, a, kw: i.raise_py("SystemExit", a[0] if a else None))
    V.witness(lambda ev: {"op": "run_local", "k": k, "named": named, "rcs": [ev(r) for r in rcs],
                          "exists": {n: bool(ev(e)) for n, e in exists.items()}, "earlier_record": old, "signature": "run_local"})
    V.cover()
    out = V.call(RUN, [])
    tr = st.trace
    # ---- specification
    fail_at = None
    V.ensure("post/always-ends-with-exit", z3.BoolVal(out.raised(I, "SystemExit")))
    if not out.raised(I, "SystemExit"):
        return
    code = out.exc.fields["args"][0]
    nrun = len(runs)
    if timed_out:
        # a command that was killed by its time limit is a failed command: non-zero exit status, non-zero recorded exit code, nothing after it runs
        V.ensure("post/timed-out-command-is-a-failure", z3.And(Z0(code) != 0, z3.BoolVal(timed_out == [nrun - 1])))
        if len(dumps) == 1 and isinstance(dumps[0][0], Obj):
            V.ensure("post/timed-out-command-recorded-as-failed", z3.Not(I.eq(dumps[0][0].fields["exitcode"], 0)) if not isinstance(I.eq(dumps[0][0].fields["exitcode"], 0), bool)
                     else z3.BoolVal(not I.eq(dumps[0][0].fields["exitcode"], 0)))
        return
    # commands executed = prefix up to and including the first failing one, in order
    V.ensure("post/the-job-is-executed-whatever-record-lies-in-the-output-directory", z3.BoolVal(nrun >= 1 and len(dumps) == 1))
    if nrun == 0:
        return
    V.ensure("post/commands-run-in-order", z3.BoolVal(all(isinstance(r["argv"], Opaque) and r["argv"].args[0] is cmds[i] for i, r in enumerate(runs))))
    for i in range(nrun - 1):
        V.ensure(f"post/earlier-commands-succeeded/{i}", rcs[i].z == 0)
    if nrun < k:
        V.ensure("post/stops-only-at-a-failing-command", rcs[nrun - 1].z != 0)
    all_ok = z3.And(*[rcs[i].z == 0 for i in range(nrun)]) if nrun == k else z3.BoolVal(False)
    V.ensure("post/ran-in-the-scratch-directory-with-merged-environment",
             z3.BoolVal(all(isinstance(r["cwd"], Obj) and r["cwd"].fields["s"] == td_path and isinstance(r["env"], DictV) and "PATH" in r["env"].keys
                            and "JV" in r["env"].keys and r["env"] is not base_env
                            and r["env"].vals[r["env"].keys.index("JV")] is (jobenv.vals[0] if jobenv is not None else base_jv) for r in runs)
                        and base_env.keys == ["PATH", "JV"] and base_env.vals[1] is base_jv))
    # input files materialised with exact contents before the first command
    writes = [(e[1].fields["path"], e[1].fields["mode"], e[2]) for e in tr if e[0] == "write"]
    first_run = next((n for n, e in enumerate(tr) if e[0] == "run"), len(tr))
    early = [(e[1].fields["path"], e[1].fields["mode"], e[2]) for e in tr[:first_run] if e[0] == "write"]
    V.ensure("post/input-files-written-text-and-binary", z3.BoolVal(("in.txt", "wt", ftext) in [(p, m, c) for p, m, c in early] and ("in.bin", "wb", fbin) in [(p, m, c) for p, m, c in early]))
    # result object
    ok_dump = len(dumps) == 1 and isinstance(dumps[0][0], Obj)
    V.ensure("post/one-output-record-dumped", z3.BoolVal(ok_dump))
    if ok_dump:
        o = dumps[0][0]
        V.ensure("post/output-carries-the-input-hash", z3.BoolVal(o.fields["input_hash"] is H))
        so, se = o.fields["stdouts"], o.fields["stderrs"]
        exp_names = [names[i] for i in range(nrun) if names[i] is not None]
        V.ensure("post/stdout-stderr-of-every-executed-named-command",
                 z3.BoolVal(isinstance(so, DictV) and isinstance(se, DictV) and len(so.keys) == len(exp_names) and all(any(kk is n for kk in so.keys) for n in exp_names)
                            and len(se.keys) == len(exp_names)))
        fl = o.fields["files"]
        for n in ("r1", "r2"):
            has = isinstance(fl, DictV) and n in fl.keys
            V.ensure(f"post/returned-files:{n}-present-iff-it-exists-with-exact-bytes",
                     z3.If(exists[n], z3.BoolVal(has and fl.vals[fl.keys.index(n)] is content[n]) if has else z3.BoolVal(False), z3.BoolVal(not has)))
        V.ensure("post/exit-code-field-is-the-last-return-code", I.eq(o.fields["exitcode"], rcs[nrun - 1]))
    V.ensure("post/exit-0-iff-all-commands-succeeded-and-all-requested-files-exist",
             (Z0(code) == 0) == z3.And(all_ok, exists["r1"], exists["r2"]))
    evs = [e[0] for e in tr]
    V.ensure("post/scratch-directory-removed-and-cwd-restored",
             z3.BoolVal("tempdir-removed" in evs and ("chdir", "ORIGINAL_CWD") in [e[:2] for e in tr if e[0] == "chdir"]))
    V.ensure("post/every-stream-closed", z3.BoolVal(all(e[1].fields["closed"] for e in tr if e[0] == "open")))


def Z0(x):
    return to_z3(x, "int") if x is not None else z3.IntVal(0)


# ------------------------------------------------------------------------------------------ JobInput: hash and dump/load
JIN = "molli.pipeline.job:JobInput"


def _canon(x, single=False):
    """what msgpack keeps of a value: maps, arrays (tuples and lists alike), and the leaves (str stays str, bytes stays bytes).
    Packed with use_single_float, a float leaf is stored as its nearest float32: not the same number any more."""
    if isinstance(x, DictV):
        return ("map", tuple((k, _canon(v, single)) for k, v in zip(x.keys, x.vals)))
    if isinstance(x, (ListV, tuple)):
        return ("array", tuple(_canon(v, single) for v in (x.items if isinstance(x, ListV) else x)))
    if single and (isinstance(x, float) or (isinstance(x, SV) and x.ty == "real")):
        return ("leaf", Opaque("float32-of", (x,)))
    return ("leaf", x)


def _same_canon(a, b):
    if a[0] != b[0]:
        return False
    if a[0] == "leaf":
        x, y = a[1], b[1]
        return x is y or (type(x) is type(y) and not isinstance(x, (SV, Obj, Opaque)) and x == y)
    if len(a[1]) != len(b[1]):
        return False
    if a[0] == "map":
        return all(k1 == k2 and _same_canon(v1, v2) for (k1, v1), (k2, v2) in zip(a[1], b[1]))
    return all(_same_canon(v1, v2) for v1, v2 in zip(a[1], b[1]))


def _decanon(c):
    if c[0] == "map":
        return DictV([(k, _decanon(v)) for k, v in c[1]])
    if c[0] == "array":
        return ListV([_decanon(v) for v in c[1]])
    return c[1]


@P.unit(f"{JIN}.hash", name="JobInput: the hash covers every field; dump then load gives an input with the same content and the same hash",
        functions=[f"{JIN}.hash", f"{JIN}.dump", f"{JIN}.load"])
def _jobinput(V):
    I, st = V.I, V.st
    packed = []
    I.ext_models["msgpack.dumps"] = Builtin("msgpack.dumps", lambda i, a, k: packed.append(_canon(a[0], bool(k.get("use_single_float")))) or Opaque(f"obj:packed{len(packed)}"))
    disk = {}

    def m_dump(i, a, k):
        disk["blob"] = _canon(a[0], bool(k.get("use_single_float")))
    I.ext_models["msgpack.dump"] = Builtin("msgpack.dump", m_dump)
    I.ext_models["msgpack.load"] = Builtin("msgpack.load", lambda i, a, k: _decanon(disk["blob"]))
    I.ext_models["hashlib.sha3_512"] = Builtin("sha3_512", lambda i, a, k: Obj(I.builtins["object"], {"digest": Builtin("digest", lambda i2, a2, k2: Opaque("digest", (a[0],)))}, tag="sha"))
    I.ext_models["base64.urlsafe_b64encode"] = Builtin("b64", lambda i, a, k: Opaque("b64", (a[0],)))
    st.ghost["open_hook"] = lambda I_, path, mode: Obj(I.StreamCls, {"path": path, "mode": mode, "closed": False, "owned": True}, tag="stream")
    text_file = V.choose([True, False], "an-input-file-given-as-text")
    timeout = V.choose([None, "sym"], "timeout")
    fields = {"jid": V.sym("jid", "str"),
              "commands": ListV([(V.sym("cmd0", "str"), V.sym("cname0", "str")), (V.sym("cmd1", "str"), None)]),
              "files": DictV([("in.txt", V.sym("text", "str") if text_file else V.sym("blob0", "bytes")), ("in.bin", V.sym("blob", "bytes"))]),
              "return_files": (V.sym("rf0", "str"), V.sym("rf1", "str")),
              "envars": DictV([("OMP_NUM_THREADS", V.sym("env0", "str"))]),
              "timeout": V.sym("timeout", "real") if timeout else None}
    cls = V.cls(JIN)
    V.witness(lambda ev: {"op": "jobinput", "text_file": text_file, "signature": "jobinput"})
    V.cover()
    inp = I.call(cls, [], dict(fields))
    I.target = f"{JIN}.hash"
    h1 = I.getattr_(inp, "hash")
    ok = len(packed) == 1 and packed[0][0] == "map"
    V.ensure("hash/is-taken-over-one-packed-record", z3.BoolVal(ok))
    if ok:
        rec = dict(packed[0][1])
        V.ensure("hash/covers-every-field-of-the-input", z3.BoolVal(set(rec) == set(fields) and all(_same_canon(rec[k], _canon(v)) for k, v in fields.items())))
    I.target = f"{JIN}.dump"
    d = V.method(inp, "dump", [V.sym("fn", "str")])
    I.target = f"{JIN}.load"
    try:
        back = I.call(I.getattr_(cls, "load"), [V.sym("fn2", "str")], {})
    except PyExc:
        V.ensure("roundtrip/load-accepts-what-dump-wrote", z3.BoolVal(False))
        return
    V.ensure("roundtrip/load-accepts-what-dump-wrote", z3.BoolVal(d.returned and isinstance(back, Obj) and back.cls is cls))
    same = all(_same_canon(_canon(back.fields.get(k)), _canon(v)) for k, v in fields.items())
    V.ensure("roundtrip/loaded-input-has-the-same-content-(as-msgpack-sees-it)", z3.BoolVal(bool(same)))
    del packed[:]
    h2 = I.getattr_(back, "hash")
    V.ensure("roundtrip/loaded-input-has-the-same-hash", z3.BoolVal(len(packed) == 1 and ok and _same_canon(packed[0], _canon(DictV(list(fields.items()))))))
