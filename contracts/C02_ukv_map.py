"""C02 -- a library file is an insert-only key-value map over any operation history.

Representation invariant GInv (contracts/ukv.py): the file is header + well-formed record chain;
each handle is indexed up to some prefix m of the chain (Sync: m = n and P[n] = |F|).  Every
operation is shown to preserve it on every exit; the observable clauses (get = put value,
listing = put keys, failed operations change nothing) are postconditions over the chain.
Induction over the operation history is the standard meta-argument (DESIGN 3 C02).
"""
import z3
from pyvc.spec import *
from pyvc.values import *
from pyvc import filemodel as FM
from pyvc.filemodel import bslice, bwrite, pack_BI, bz
from pyvc.ops import blen, to_z3
from contracts import ukv as U
from contracts.ukv import UKV, Chain

P = Property("C02", "a library file is an insert-only map over any history")
P.trust("io: a file is a byte array + stream position; short reads only at EOF; bytes are written in program order")
P.trust("struct: pack/unpack of '>BI' and '>16sHI10x' are mutually inverse on their ranges and raise struct.error outside")
P.assume("a handle that appends is Sync: no other handle has appended since it was last indexed "
         "(the Collection layer guarantees this through the lock, C04)")
P.assume("history quantifier by induction on GInv; the induction step is what is proved, per operation and exit")


@P.setup
def _setup(I):
    pass


def pre_sync(V, mode="a", name="h"):
    """file cell + chain + handle with Sync(h,F)"""
    I, st = V.I, V.st
    FM.use_theory(st)
    U.install_open_hook(st)
    cell = FM.new_file_cell(I, "F")
    h = U.mk_handle(V, cell, mode=mode, name=name)
    F = bz(cell.fields["content"])
    ch = Chain(st, "c")
    bof = U.bof_of(h)
    V.assume(z3.And(blen(bz(h.fields["h2"])) < 65536, blen(bz(h.fields["b0"])) < 2 ** 32))
    V.assume(ch.wf(F, bof))
    V.assume(ch.P[ch.n] == blen(F))
    V.assume(U.idx_inv(h, F, ch, ch.n, last=False))
    V.assume(U.last_ok(h))     # put does not maintain _last; the invariant only needs it to be a listed key (or None)
    return cell, h, F, ch, bof


# ------------------------------------------------------------------------------------------ put
@P.unit(f"{UKV}.put")
def _put(V):
    I, st = V.I, V.st
    mode = V.choose(["a", "r", "w", "x"], "mode")
    closed = V.choose([False, True], "closed")
    cell, h, F, ch, bof = pre_sync(V, mode)
    if closed:
        h.fields["_closed"] = True
        h.fields["_stream"].fields["closed"] = True
    key, value = V.sym("key", "bytes"), V.sym("value", "bytes")
    before = U.snapshot(h)
    V.witness(lambda ev: {"op": "put", "mode": mode, "closed": closed, "klen": ev(blen(key.z)), "vlen": ev(blen(value.z)),
                          "dup": ev(U.toc_of(h).has[key.z]) if False else None, "n": ev(ch.n),
                          "signature": "put"})
    V.cover()
    dup = z3.Select(before["toc"][1], key.z)
    kl, vl = blen(key.z), blen(value.z)
    n0 = len(st.trace)
    out = V.method(h, "put", [key, value], qual=f"{UKV}.put"); V.dbg = (out, out.exc and out.exc.fields)
    io = [e for e in st.trace[n0:] if e[0] in ("write", "truncate")]
    F2 = bz(cell.fields["content"])
    after = U.snapshot(h)
    oversize = z3.Or(kl >= 256, vl >= 2 ** 32)
    if out.returned:
        # success only when legal
        V.ensure("post/success-only-when-legal", z3.And(z3.Not(dup), z3.Not(oversize), z3.BoolVal(mode in ("a", "w", "x") and not closed)))
        ch2 = ch.extended(key.z, value.z)
        V.ensure("post/file-is-append", F2 == bwrite(bwrite(bwrite(F, ch.P[ch.n], pack_BI(kl, vl)), ch.P[ch.n] + 5, key.z),
                                                     ch.P[ch.n] + 5 + kl, value.z))
        # the record is written strictly front to back, each write starting where the file ends at that moment, and nothing is cut:
        # this is what makes every crash image a PREFIX of the final file (header first, so a half-written record is recognisable)
        chain_ok, at = [z3.BoolVal(all(e[0] == "write" for e in io) and len(io) >= 1)], blen(F)
        for e in io:
            if e[0] == "write":
                chain_ok.append(to_z3(e[2], "int") == at)
                at = at + blen(bz(e[3]))
        V.ensure("post/writes-only-append-in-file-order", z3.And(*chain_ok))
        o, l = st.fresh("o", z3.IntSort()), st.fresh("l", z3.IntSort())
        V.ensure("post/committed-bytes-untouched",
                 z3.Implies(z3.And(o >= 0, l >= 0, o + l <= blen(F)), bslice(F2, o, l) == bslice(F, o, l)))
        j = st.fresh("j", z3.IntSort())
        for lab, f in ch2.wf_at(F2, bof, j):
            V.ensure(f"post/chain-extended/{lab}", z3.Implies(z3.And(j >= 0, j < ch2.n), f))
        V.ensure("post/chain-extended/head", z3.And(ch2.wf_head(F2, bof), ch2.P[ch2.n] == blen(F2)))
        k = st.fresh("k", BytesS)
        for lab, f in U.idx_inv_at(U.toc_of(h), ch2, ch2.n, k):
            V.ensure(f"post/index-sync/{lab}", f)
        V.ensure("post/index-sync/eof-last", z3.And(to_z3(h.fields["_eof"], "int") == ch2.P[ch2.n],
                                                    z3.BoolVal(h.fields["_last"] is not None) if False else z3.BoolVal(True)))
        V.ensure("post/headers-unchanged", I.and_(*[I.eq(before[f], after[f]) for f in ("h1", "h2", "b0", "mode", "closed")]))
        # get(key) now returns exactly the value put
        g = V.method(h, "get", [key], qual=None)
        V.ensure("post/get-returns-put-value", z3.BoolVal(g.returned) if not g.returned else g.value.z == value.z)
    else:
        exc = out.exc
        legal_exc = (out.raised(I, "KeyError") or out.raised(I, "struct.error") or out.raised(I, "UnsupportedOperation"))
        V.ensure("post-exc/only-documented-exceptions", z3.BoolVal(bool(legal_exc)))
        if out.raised(I, "KeyError"):
            V.ensure("post-exc/KeyError-iff-duplicate", dup)
        if out.raised(I, "struct.error"):
            V.ensure("post-exc/struct.error-iff-oversize", oversize)
        if out.raised(I, "UnsupportedOperation"):
            V.ensure("post-exc/UnsupportedOperation-iff-not-writable", z3.BoolVal(mode == "r" or closed))
        V.ensure("post-exc/file-unchanged", F2 == F)
        V.ensure("post-exc/view-unchanged", U.same_view(I, before, after))


# ------------------------------------------------------------------------------------------ get
@P.unit(f"{UKV}.get")
def _get(V):
    I, st = V.I, V.st
    mode = V.choose(["a", "r"], "mode")
    closed = V.choose([False, True], "closed")
    cell, h, F, ch, bof = pre_sync(V, mode)
    # a *stale* handle: indexed up to m <= n (other handles may have appended since)
    m = st.fresh("m", z3.IntSort())
    h.fields["_toc"] = U.fresh_toc(I, "stale_toc")
    h.fields["_eof"] = V.sym("stale_eof", "int")
    V.assume(U.idx_inv(h, F, ch, m, last=False))
    if closed:
        h.fields["_closed"] = True
        h.fields["_stream"].fields["closed"] = True
    key = V.sym("key", "bytes")
    before = U.snapshot(h)
    V.witness(lambda ev: {"op": "get", "mode": mode, "closed": closed, "n": ev(ch.n), "m": ev(m), "signature": "get"})
    V.cover()
    out = V.method(h, "get", [key], qual=f"{UKV}.get")
    F2 = bz(cell.fields["content"])
    present = z3.Select(before["toc"][1], key.z)
    if out.returned:
        V.ensure("post/returns-the-put-value", z3.And(present, out.value.z == ch.Vv[ch.idx(key.z)], z3.BoolVal(not closed)))
    else:
        V.ensure("post-exc/KeyError-iff-absent-or-closed",
                 z3.BoolVal(out.raised(I, "KeyError") or out.raised(I, "UnsupportedOperation")))
        if out.raised(I, "KeyError"):
            V.ensure("post-exc/KeyError-iff-absent", z3.Not(present))
        else:
            V.ensure("post-exc/Unsupported-iff-closed", z3.BoolVal(closed))
    V.ensure("frame/file-unchanged", F2 == F)
    V.ensure("frame/view-unchanged", U.same_view(I, before, U.snapshot(h)))


# ------------------------------------------------------------------------------------------ keys
@P.unit(f"{UKV}.keys")
def _keys(V):
    I, st = V.I, V.st
    cell, h, F, ch, bof = pre_sync(V, "a")
    V.cover()
    out = V.method(h, "keys", [], qual=f"{UKV}.keys")
    ok = out.returned and isinstance(out.value, Obj) and out.value.tag == "symmap_keys" and out.value.fields["m"] is h.fields["_toc"]
    V.ensure("post/listing-is-the-index", z3.BoolVal(bool(ok)))
    k = st.fresh("k", BytesS)
    j = ch.idx(k)
    V.ensure("post/listing-is-exactly-the-put-keys",
             U.toc_of(h).has[k] == z3.And(j >= 0, j < ch.n, ch.K[j] == k))


# ------------------------------------------------------------------------------------------ map_blocks
@P.setup
def _mb_setup(I):
    U.install_map_blocks_spec(I)


def pre_chain_file(V, name="h", tail="none"):
    """file = header + well-formed chain (+ optional torn tail); handle stale at m <= n or fresh"""
    I, st = V.I, V.st
    FM.use_theory(st)
    U.install_open_hook(st)
    cell = FM.new_file_cell(I, "F")
    kind = V.choose(["stale", "fresh"], "handle")
    mode = V.choose(["a", "r"], "mode")
    h = U.mk_handle(V, cell, mode=mode, name=name)
    F = bz(cell.fields["content"])
    ch = Chain(st, "c")
    bof = U.bof_of(h)
    V.assume(z3.And(blen(bz(h.fields["h2"])) < 65536, blen(bz(h.fields["b0"])) < 2 ** 32))
    V.assume(ch.wf(F, bof))
    if tail == "none":
        V.assume(ch.P[ch.n] == blen(F))
    else:
        # torn tail: the bytes after the last complete record are a proper prefix of one record encoding
        T = blen(F) - ch.P[ch.n]
        hdr = bslice(F, ch.P[ch.n], 5)
        V.assume(z3.And(T > 0, z3.Or(T < 5, ch.P[ch.n] + 5 + FM.unp_B(hdr) + FM.unp_I(hdr) > blen(F))))
    if kind == "fresh":
        m = z3.IntVal(0)
        h.fields["_toc"] = U.empty_toc(I)
        h.fields["_eof"] = None
        h.fields["_last"] = None
    else:
        m = st.fresh("m", z3.IntSort())
        V.assume(U.idx_inv(h, F, ch, m, last=False))
        V.assume(U.last_ok(h))
    st.ghost["mb"] = {"ch": ch, "F": F, "bof": bof, "m": m, "mode": "chain"}
    return cell, h, F, ch, bof, m, kind, mode


def post_indexed(V, h, F, ch, bof, label="post"):
    st = V.st
    k = st.fresh("k", BytesS)
    for lab, f in U.idx_inv_at(U.toc_of(h), ch, ch.n, k):
        V.ensure(f"{label}/index-is-exactly-the-complete-records/{lab}", f)
    V.ensure(f"{label}/eof-is-end-of-last-complete-record", to_z3(h.fields["_eof"], "int") == ch.P[ch.n])
    V.ensure(f"{label}/last-is-listed", U.last_ok(h))


@P.unit(f"{UKV}.map_blocks")
def _map_blocks(V):
    I, st = V.I, V.st
    cell, h, F, ch, bof, m, kind, mode = pre_chain_file(V, tail="none")
    V.witness(lambda ev: {"op": "reopen", "n": ev(ch.n), "m": ev(m), "handle": kind, "mode": mode, "signature": "map_blocks"})
    V.cover()
    before = U.snapshot(h)
    out = V.method(h, "map_blocks", [], qual=f"{UKV}.map_blocks")
    V.ensure("post/no-exception", z3.BoolVal(out.returned))
    if out.returned:
        post_indexed(V, h, F, ch, bof)
        V.ensure("frame/file-unchanged", bz(cell.fields["content"]) == F)
        V.ensure("frame/headers-unchanged", I.and_(*[I.eq(before[f], h.fields[f]) for f in ("h1", "h2", "b0")]))


# =========================================================================================== backend / Collection
from contracts.ukv import BACKEND, BASE
from pyvc.filemodel import s_encode, b_decode, b_is_utf8

COLL = "molli.storage.collection:Collection"


@P.unit(f"{UKV}.open", name="reopen of a clean file: header fields and every record read back (any header sizes, incl. an empty comment / descriptor block)",
        functions=[f"{UKV}.open", f"{UKV}.read_header", f"{UKV}._unpack_read", f"{UKV}._bof", f"{UKV}.map_blocks"])
def _reopen(V):
    I, st = V.I, V.st
    FM.use_theory(st)
    U.install_open_hook(st)
    U.install_map_blocks_spec(I)
    cell = FM.new_file_cell(I, "F")
    F = bz(cell.fields["content"])
    H1, H2, B0, bof = U.file_with_header(V, cell)
    mode = V.choose(["r", "a"], "mode")
    empty = V.choose(["any", "empty-descriptor", "empty-comment", "both-empty"], "header")
    if empty in ("empty-descriptor", "both-empty"):
        V.assume(blen(B0) == 0)
    if empty in ("empty-comment", "both-empty"):
        V.assume(blen(H2) == 0)
    h = U.mk_handle(V, cell, mode=mode, closed=True, name="h")
    ch = Chain(st, "c")
    V.assume(ch.wf(F, bof))
    V.assume(ch.P[ch.n] == blen(F))
    h.fields["_toc"] = U.empty_toc(I)
    h.fields["_eof"] = None
    h.fields["_last"] = None
    st.ghost["mb"] = {"ch": ch, "F": F, "bof": bof, "m": z3.IntVal(0), "mode": "chain"}
    V.witness(lambda ev: {"op": "reopen-header", "h2len": ev(blen(H2)), "b0len": ev(blen(B0)), "n": ev(ch.n), "mode": mode, "signature": "reopen-header"})
    V.cover()
    out = V.method(h, "open", [mode], qual=f"{UKV}.open")
    V.ensure("reopen/no-exception", z3.BoolVal(out.returned))
    if not out.returned:
        return
    F2 = bz(cell.fields["content"])
    V.ensure("reopen/headers-read-back", z3.And(bz(h.fields["h2"]) == H2, bz(h.fields["b0"]) == B0, bz(h.fields["h1"]) == FM.pad16(H1)))
    V.ensure("reopen/file-unchanged", F2 == F)
    post_indexed(V, h, F2, ch, bof, label="reopen")


@P.unit(f"{UKV}.close", name="close, then open() again on the SAME handle (created with r / a / w / x): nothing of the file is lost, every record is still indexed",
        functions=[f"{UKV}.close", f"{UKV}.open", f"{UKV}.read_header", f"{UKV}._unpack_read", f"{UKV}._bof", f"{UKV}.map_blocks"])
def _close_reopen(V):
    I, st = V.I, V.st
    mode = V.choose(["r", "a", "w", "x"], "mode")
    cell, h, F, ch, bof = pre_sync(V, mode)
    U.install_map_blocks_spec(I)
    # the file on disk starts with this handle's header (it wrote or read it)
    H1, H2, B0 = bz(h.fields["h1"]), bz(h.fields["h2"]), bz(h.fields["b0"])
    V.assume(blen(F) >= bof)
    V.assume(bslice(F, 0, 32) == FM.pack_FH(H1, blen(H2), blen(B0)))
    V.assume(bslice(F, 32, blen(H2)) == H2)
    V.assume(bslice(F, 32 + blen(H2), blen(B0)) == B0)
    st.ghost["mb"] = {"ch": ch, "F": F, "bof": bof, "m": ch.n, "mode": "chain"}
    V.witness(lambda ev: {"op": "close-reopen", "mode": mode, "n": ev(ch.n), "h2len": ev(blen(H2)), "b0len": ev(blen(B0)), "signature": "close-reopen"})
    V.cover()
    out = V.method(h, "close", [], qual=f"{UKV}.close")
    V.ensure("close/no-exception", z3.BoolVal(out.returned))
    if not out.returned:
        return
    V.ensure("close/file-unchanged", bz(cell.fields["content"]) == F)
    V.ensure("close/a-handle-that-created-the-file-reopens-for-append", z3.BoolVal(h.fields["mode"] == ("a" if mode in ("w", "x") else mode)))
    out = V.method(h, "open", [], qual=f"{UKV}.open")
    V.ensure("reopen/no-exception", z3.BoolVal(out.returned))
    if not out.returned:
        return
    F2 = bz(cell.fields["content"])
    V.ensure("reopen/file-unchanged", F2 == F)
    post_indexed(V, h, F2, ch, bof, label="reopen")


def session_state(V, pending, bufsize_kind="sym", doomed=None):
    """a UkvCollectionBackend inside a writing() session: handle open for append and Sync, _keys = decode(dom toc) + queued keys"""
    I, st = V.I, V.st
    cell, h, F, ch, bof = pre_sync(V, "a", name="h")
    b, _, lock, items = U.mk_backend(V, cell, pending=pending, with_handle=False, readonly=False)
    b.fields["_ukvfile"] = h
    b.fields["_state"] = "writing"
    lock.fields["held"] = "write"
    t = U.toc_of(h)
    k = z3.Const("k!ss", BytesS)
    s = z3.Const("s!ss", z3.StringSort())
    V.assume(z3.ForAll([k], z3.Implies(t.has[k], b_is_utf8(k))))
    queued = lambda sz: z3.Or(*[sz == kv[0].z for kv in items]) if items else z3.BoolVal(False)
    S = b.fields["_keys"].has
    V.assume(z3.ForAll([s], S[s] == z3.Or(t.has[s_encode(s)], queued(s))))
    # queued writes are ones that will succeed: new, pairwise distinct keys of legal size -- except the `doomed` one
    # (doomed = (index, why): a duplicate of a key on file, a duplicate of the write queued before it, or an oversize key)
    for n, (qk, qv) in enumerate(items):
        if doomed is not None and doomed[0] == n:
            why = doomed[1]
            if why == "dup-file":
                V.assume(z3.And(t.has[s_encode(qk.z)], blen(s_encode(qk.z)) < 256, blen(qv.z) < 2 ** 32))
            elif why == "dup-queue":
                V.assume(z3.And(qk.z == items[n - 1][0].z, blen(qv.z) < 2 ** 32, qv.z != items[n - 1][1].z))
            else:
                V.assume(z3.And(z3.Not(t.has[s_encode(qk.z)]), blen(s_encode(qk.z)) >= 256, blen(qv.z) < 2 ** 32))
            continue
        V.assume(z3.And(z3.Not(t.has[s_encode(qk.z)]), blen(s_encode(qk.z)) < 256, blen(qv.z) < 2 ** 32))
        for m, (qk2, _) in enumerate(items[:n]):
            if doomed is not None and doomed[0] == m and doomed[1] == "dup-file":
                pass
            V.assume(qk.z != qk2.z)
    if bufsize_kind == "default":
        b.fields["_bufsize"] = 131072
    V.assume(to_z3(b.fields["_usedmem"], "int") >= 0)
    return cell, h, F, ch, bof, b, items


@P.unit(f"{BASE}.get", name="backend.get[every-listed-key-is-readable]",
        functions=[f"{BASE}.get", f"{BACKEND}._read", f"{BASE}.flush", f"{BACKEND}._write", f"{BASE}.keys"])
def _backend_get(V):
    I, st = V.I, V.st
    pending = V.choose([0, 1, 2], "pending")
    cell, h, F, ch, bof, b, items = session_state(V, pending)
    key = V.sym("key", "str")
    listed = I.contains(I.call(I.getattr_(b, "keys"), [], {}), key)
    V.assume(listed)
    V.witness(lambda ev: {"op": "session-get", "pending": pending, "key_is_queued": [bool(ev(key.z == kv[0].z)) for kv in items],
                          "n": ev(ch.n), "signature": "listed-key-unreadable"})
    V.cover()
    out = V.method(b, "get", [key], qual=f"{BASE}.get")
    V.ensure("post/listed-key-is-readable", z3.BoolVal(out.returned))
    if out.returned:
        kb = s_encode(key.z)
        expected = ch.Vv[ch.idx(kb)]
        for qk, qv in reversed(items):
            expected = z3.If(key.z == qk.z, qv.z, expected)
        V.ensure("post/returns-the-value-put", out.value.z == expected)


@P.unit(f"{BASE}.put", name="backend.put", functions=[f"{BASE}.put", f"{BASE}.flush", f"{BACKEND}._write", f"{BASE}.used_memory"])
def _backend_put(V):
    I, st = V.I, V.st
    pending = V.choose([0, 1], "pending")
    ro = V.choose([False, True], "readonly")
    cell, h, F, ch, bof, b, items = session_state(V, pending)
    b.fields["_readonly"] = ro
    key, value = V.sym("key", "str"), V.sym("value", "bytes")
    V.assume(z3.And(z3.Not(U.toc_of(h).has[s_encode(key.z)]), blen(s_encode(key.z)) < 256, blen(value.z) < 2 ** 32,
                    *[key.z != kv[0].z for kv in items]))
    keys0 = b.fields["_keys"].has
    used0 = to_z3(b.fields["_usedmem"], "int")
    bufsize = to_z3(b.fields["_bufsize"], "int")
    q0 = list(b.fields["_write_queue"].fields["items"])
    V.witness(lambda ev: {"op": "backend-put", "pending": pending, "readonly": ro, "bufsize": ev(bufsize), "used": ev(used0),
                          "signature": "backend-put"})
    V.cover()
    out = V.method(b, "put", [key, value], qual=f"{BASE}.put")
    q1 = list(b.fields["_write_queue"].fields["items"])
    if ro:
        V.ensure("post-exc/readonly-raises-and-changes-nothing",
                 z3.BoolVal(out.raised(I, "OSError") and q1 == q0 and b.fields["_keys"].has is keys0))
        return
    V.ensure("post/no-exception", z3.BoolVal(out.returned))
    s = st.fresh("s", z3.StringSort())
    V.ensure("post/key-listed", b.fields["_keys"].has[s] == z3.Or(keys0[s], s == key.z))
    newused = used0 + z3.Length(key.z) + blen(value.z)
    over = newused > bufsize
    flushed = len(q1) == 0
    V.ensure("post/flush-iff-over-bufsize", z3.BoolVal(flushed) == over if True else True)
    if flushed:
        t = U.toc_of(h)
        V.ensure("post/flushed:all-queued-writes-on-file", z3.And(t.has[s_encode(key.z)], *[t.has[s_encode(kv[0].z)] for kv in items]))
        V.ensure("post/flushed:usedmem-reset", to_z3(b.fields["_usedmem"], "int") == 0)
        g = V.method(h, "get", [SV(s_encode(key.z), "bytes")])
        V.ensure("post/flushed:value-on-file", z3.BoolVal(g.returned) if not g.returned else g.value.z == value.z)
    else:
        V.ensure("post/queued:in-order", z3.BoolVal(q1[:len(q0)] == q0 and len(q1) == len(q0) + 1 and q1[-1][0] is key and q1[-1][1] is value))
        V.ensure("post/queued:usedmem", to_z3(b.fields["_usedmem"], "int") == newused)


@P.unit(f"{BASE}.flush", name="backend.flush/get with a doomed queued write: the rejected write is dropped, nothing of it is visible, the queue is not poisoned",
        functions=[f"{BASE}.flush", f"{BASE}.get", f"{BACKEND}._write", f"{BACKEND}._read"])
def _backend_doomed(V):
    I, st = V.I, V.st
    doomed = V.choose([(0, "dup-file"), (1, "dup-file"), (1, "dup-queue"), (0, "oversize"), (1, "oversize")], "doomed")
    via = V.choose(["flush", "get"], "via")
    cell, h, F, ch, bof, b, items = session_state(V, 2, doomed=doomed)
    t0 = U.toc_of(h)
    had0 = t0.has
    q0 = list(b.fields["_write_queue"].fields["items"])
    di = doomed[0]
    V.witness(lambda ev: {"op": "doomed-write", "doomed": list(doomed), "via": via, "signature": f"doomed/{doomed[1]}"})
    V.cover()
    key = items[di][0] if doomed[1] != "oversize" else items[1 - di][0]
    if via == "flush":
        out = V.method(b, "flush", [], qual=f"{BASE}.flush")
    else:
        out = V.method(b, "get", [key], qual=f"{BASE}.get")
    q1 = list(b.fields["_write_queue"].fields["items"])
    t1 = U.toc_of(h)
    if via == "get" and out.returned:
        # a value came back: it is the bytes of the one put that can succeed for this key -- never the rejected write's
        kb = s_encode(key.z)
        if doomed[1] == "dup-file":
            exp = ch.Vv[ch.idx(kb)]
        elif doomed[1] == "dup-queue":
            exp = items[di - 1][1].z
        else:
            exp = items[1 - di][1].z
        V.ensure("doomed/get-returns-only-the-bytes-of-the-successful-put", out.value.z == exp)
    else:
        V.ensure("doomed/get-returns-only-the-bytes-of-the-successful-put", z3.BoolVal(True))
    V.ensure("doomed/the-rejected-write-raises", z3.BoolVal(not out.returned))
    if out.returned:
        return
    # the rejected write is gone from the queue, writes queued after it are still queued in order, earlier ones are on file
    V.ensure("doomed/rejected-write-dropped-later-writes-still-queued", z3.BoolVal(q1 == q0[di + 1:]))
    for j in range(di):
        V.ensure(f"doomed/earlier-write-{j}-is-on-file", t1.has[s_encode(items[j][0].z)])
    kd = s_encode(items[di][0].z)
    if doomed[1] == "oversize":
        V.ensure("doomed/nothing-of-the-rejected-write-on-file", z3.Not(t1.has[kd]))
    # the queue is not poisoned: flushing again succeeds and puts the remaining writes on file
    out2 = V.method(b, "flush", [], qual=f"{BASE}.flush")
    V.ensure("doomed/next-flush-succeeds", z3.BoolVal(out2.returned and len(b.fields["_write_queue"].fields["items"]) == 0))
    if out2.returned:
        t2 = U.toc_of(h)
        for j in range(di + 1, 2):
            V.ensure(f"doomed/later-write-{j}-reaches-the-file", t2.has[s_encode(items[j][0].z)])
        if doomed[1] in ("dup-file", "dup-queue"):
            g = V.method(h, "get", [SV(kd, "bytes")])
            first = ch.Vv[ch.idx(kd)] if doomed[1] == "dup-file" else items[di - 1][1].z
            V.ensure("doomed/the-key-still-reads-as-its-first-value", z3.BoolVal(False) if not g.returned else g.value.z == first)


@P.unit(f"{BACKEND}.update_keys", name="backend.update_keys")
def _update_keys(V):
    I, st = V.I, V.st
    cell, h, F, ch, bof, b, items = session_state(V, 0)
    # arbitrary (possibly stale) advertised key set before the refresh
    b.fields["_keys"] = SymSet(st.fresh("stale_keys", z3.ArraySort(z3.StringSort(), z3.BoolSort())), "str")
    st.ghost["comp_rules"] = {(f"{BACKEND}.update_keys", 0): U.install_update_keys_rule(I)}
    V.witness(lambda ev: {"op": "update_keys", "n": ev(ch.n), "signature": "stale-key-listing"})
    V.cover()
    out = V.method(b, "update_keys", [], qual=f"{BACKEND}.update_keys")
    V.ensure("post/no-exception-on-utf8-keys", z3.BoolVal(out.returned))
    if out.returned:
        s = st.fresh("s", z3.StringSort())
        ks = b.fields["_keys"]
        V.ensure("post/listing-is-exactly-the-keys-on-file", z3.BoolVal(isinstance(ks, SymSet)) if not isinstance(ks, SymSet)
                 else ks.has[s] == U.toc_of(h).has[s_encode(s)])


@P.unit(f"{COLL}.__setitem__", name="Collection.__setitem__/__getitem__",
        functions=[f"{COLL}.__setitem__", f"{COLL}.__getitem__", f"{COLL}.keys", f"{COLL}.__contains__"])
def _collection_items(V):
    I, st = V.I, V.st
    cell, h, F, ch, bof, b, items = session_state(V, 0)
    b.fields["_bufsize"] = V.choose([-1, 0, "sym"], "bufsize")
    if b.fields["_bufsize"] == "sym":
        b.fields["_bufsize"] = V.sym("bufsize", "int")
    enc = z3.Function("value_encoder", U.z3.DeclareSort("Val"), BytesS) if False else None
    # encoder / decoder: uninterpreted functions recorded in the trace
    calls = []

    def encoder(I_, a, k):
        calls.append(("enc", a[0]))
        return V.enc_out
    def decoder(I_, a, k):
        calls.append(("dec", a[0]))
        return Opaque("obj:decoded", (len(calls),))
    V.enc_out = V.sym("encoded", "bytes")
    V.assume(blen(V.enc_out.z) < 2 ** 32)
    c = Obj(V.cls(COLL), {"_path": b.fields["_path"], "_backend": b, "_value_encoder": Builtin("enc", encoder),
                          "_value_decoder": Builtin("dec", decoder), "_encoding": "utf8"}, tag="coll")
    key = V.sym("key", "str")
    value = Opaque("obj:value")
    V.assume(z3.And(z3.Not(U.toc_of(h).has[s_encode(key.z)]), blen(s_encode(key.z)) < 256))
    bs = b.fields["_bufsize"]
    V.witness(lambda ev: {"op": "collection-set-get", "bufsize": ev(bs), "used": ev(b.fields["_usedmem"]), "n": ev(ch.n),
                          "signature": "listed-key-unreadable"})
    V.cover()
    out = V.method(c, "__setitem__", [key, value], qual=f"{COLL}.__setitem__")
    V.ensure("post/setitem-returns", z3.BoolVal(out.returned))
    V.ensure("post/setitem-encodes-the-value-once", z3.BoolVal(calls == [("enc", value)]))
    V.ensure("post/key-listed-afterwards", I.contains(I.call(I.getattr_(c, "keys"), [], {}), key))
    V.ensure("post/contains-agrees", I.truth(I.call(I.getattr_(c, "__contains__"), [key], {})))
    del calls[:]
    g = V.method(c, "__getitem__", [key])
    V.ensure("post/getitem-readable-inside-the-session", z3.BoolVal(g.returned))
    if g.returned:
        V.ensure("post/getitem-decodes-exactly-the-stored-bytes",
                 z3.BoolVal(len(calls) == 1 and calls[0][0] == "dec" and isinstance(calls[0][1], SV)) if not (len(calls) == 1 and isinstance(calls[0][1], SV))
                 else calls[0][1].z == V.enc_out.z)
