"""C02 -- a library file is an insert-only key-value map over any operation history.

Representation invariant GInv (contracts/ukv.py): the file is header + well-formed record chain;
each handle is indexed up to some prefix m of the chain (Sync: m = n and P[n] = |F|).  Every
operation is shown to preserve it on every exit; the observable clauses (get = put value,
listing = put keys, failed operations change nothing) are postconditions over the chain.
Induction over the operation history is the standard meta-argument (DESIGN 3 C02).
"""
import z3
from pyvc.spec import *
from pyvc.values import *
from pyvc import filemodel as FM
from pyvc.filemodel import bslice, bwrite, pack_BI, bz
from pyvc.ops import blen, to_z3
from contracts import ukv as U
from contracts.ukv import UKV, Chain

P = Property("C02", "a library file is an insert-only map over any history")
P.trust("io: a file is a byte array + stream position; short reads only at EOF; bytes are written in program order")
P.trust("struct: pack/unpack of '>BI' and '>16sHI10x' are mutually inverse on their ranges and raise struct.error outside")
P.assume("a handle that appends is Sync: no other handle has appended since it was last indexed "
         "(the Collection layer guarantees this through the lock, C04)")
P.assume("history quantifier by induction on GInv; the induction step is what is proved, per operation and exit")


@P.setup
def _setup(I):
    pass


def pre_sync(V, mode="a", name="h"):
    """file cell + chain + handle with Sync(h,F)"""
    I, st = V.I, V.st
    FM.use_theory(st)
    U.install_open_hook(st)
    cell = FM.new_file_cell(I, "F")
    h = U.mk_handle(V, cell, mode=mode, name=name)
    F = bz(cell.fields["content"])
    ch = Chain(st, "c")
    bof = U.bof_of(h)
    V.assume(z3.And(blen(bz(h.fields["h2"])) < 65536, blen(bz(h.fields["b0"])) < 2 ** 32))
    V.assume(ch.wf(F, bof))
    V.assume(ch.P[ch.n] == blen(F))
    V.assume(U.idx_inv(h, F, ch, ch.n))
    return cell, h, F, ch, bof


# ------------------------------------------------------------------------------------------ put
@P.unit(f"{UKV}.put")
def _put(V):
    I, st = V.I, V.st
    mode = V.choose(["a", "r"], "mode")
    closed = V.choose([False, True], "closed")
    cell, h, F, ch, bof = pre_sync(V, mode)
    if closed:
        h.fields["_closed"] = True
        h.fields["_stream"].fields["closed"] = True
    key, value = V.sym("key", "bytes"), V.sym("value", "bytes")
    before = U.snapshot(h)
    V.witness(lambda ev: {"op": "put", "mode": mode, "closed": closed, "klen": ev(blen(key.z)), "vlen": ev(blen(value.z)),
                          "dup": ev(U.toc_of(h).has[key.z]) if False else None, "n": ev(ch.n),
                          "signature": "put"})
    V.cover()
    dup = z3.Select(before["toc"][1], key.z)
    kl, vl = blen(key.z), blen(value.z)
    out = V.method(h, "put", [key, value], qual=f"{UKV}.put"); V.dbg = (out, out.exc and out.exc.fields)
    F2 = bz(cell.fields["content"])
    after = U.snapshot(h)
    oversize = z3.Or(kl >= 256, vl >= 2 ** 32)
    if out.returned:
        # success only when legal
        V.ensure("post/success-only-when-legal", z3.And(z3.Not(dup), z3.Not(oversize), z3.BoolVal(mode == "a" and not closed)))
        ch2 = ch.extended(key.z, value.z)
        V.ensure("post/file-is-append", F2 == bwrite(bwrite(bwrite(F, ch.P[ch.n], pack_BI(kl, vl)), ch.P[ch.n] + 5, key.z),
                                                     ch.P[ch.n] + 5 + kl, value.z))
        o, l = st.fresh("o", z3.IntSort()), st.fresh("l", z3.IntSort())
        V.ensure("post/committed-bytes-untouched",
                 z3.Implies(z3.And(o >= 0, l >= 0, o + l <= blen(F)), bslice(F2, o, l) == bslice(F, o, l)))
        j = st.fresh("j", z3.IntSort())
        for lab, f in ch2.wf_at(F2, bof, j):
            V.ensure(f"post/chain-extended/{lab}", z3.Implies(z3.And(j >= 0, j < ch2.n), f))
        V.ensure("post/chain-extended/head", z3.And(ch2.wf_head(F2, bof), ch2.P[ch2.n] == blen(F2)))
        k = st.fresh("k", BytesS)
        for lab, f in U.idx_inv_at(U.toc_of(h), ch2, ch2.n, k):
            V.ensure(f"post/index-sync/{lab}", f)
        V.ensure("post/index-sync/eof-last", z3.And(to_z3(h.fields["_eof"], "int") == ch2.P[ch2.n],
                                                    z3.BoolVal(h.fields["_last"] is not None) if False else z3.BoolVal(True)))
        V.ensure("post/headers-unchanged", I.and_(*[I.eq(before[f], after[f]) for f in ("h1", "h2", "b0", "mode", "closed")]))
        # get(key) now returns exactly the value put
        g = V.method(h, "get", [key], qual=None)
        V.ensure("post/get-returns-put-value", z3.BoolVal(g.returned) if not g.returned else g.value.z == value.z)
    else:
        exc = out.exc
        legal_exc = (out.raised(I, "KeyError") or out.raised(I, "struct.error") or out.raised(I, "UnsupportedOperation"))
        V.ensure("post-exc/only-documented-exceptions", z3.BoolVal(bool(legal_exc)))
        if out.raised(I, "KeyError"):
            V.ensure("post-exc/KeyError-iff-duplicate", dup)
        if out.raised(I, "struct.error"):
            V.ensure("post-exc/struct.error-iff-oversize", oversize)
        if out.raised(I, "UnsupportedOperation"):
            V.ensure("post-exc/UnsupportedOperation-iff-not-writable", z3.BoolVal(mode != "a" or closed))
        V.ensure("post-exc/file-unchanged", F2 == F)
        V.ensure("post-exc/view-unchanged", U.same_view(I, before, after))


# ------------------------------------------------------------------------------------------ get
@P.unit(f"{UKV}.get")
def _get(V):
    I, st = V.I, V.st
    mode = V.choose(["a", "r"], "mode")
    closed = V.choose([False, True], "closed")
    cell, h, F, ch, bof = pre_sync(V, mode)
    # a *stale* handle: indexed up to m <= n (other handles may have appended since)
    m = st.fresh("m", z3.IntSort())
    h.fields["_toc"] = U.fresh_toc(I, "stale_toc")
    h.fields["_eof"] = V.sym("stale_eof", "int")
    V.assume(U.idx_inv(h, F, ch, m, last=False))
    if closed:
        h.fields["_closed"] = True
        h.fields["_stream"].fields["closed"] = True
    key = V.sym("key", "bytes")
    before = U.snapshot(h)
    V.witness(lambda ev: {"op": "get", "mode": mode, "closed": closed, "n": ev(ch.n), "m": ev(m), "signature": "get"})
    V.cover()
    out = V.method(h, "get", [key], qual=f"{UKV}.get")
    F2 = bz(cell.fields["content"])
    present = z3.Select(before["toc"][1], key.z)
    if out.returned:
        V.ensure("post/returns-the-put-value", z3.And(present, out.value.z == ch.Vv[ch.idx(key.z)], z3.BoolVal(not closed)))
    else:
        V.ensure("post-exc/KeyError-iff-absent-or-closed",
                 z3.BoolVal(out.raised(I, "KeyError") or out.raised(I, "UnsupportedOperation")))
        if out.raised(I, "KeyError"):
            V.ensure("post-exc/KeyError-iff-absent", z3.Not(present))
        else:
            V.ensure("post-exc/Unsupported-iff-closed", z3.BoolVal(closed))
    V.ensure("frame/file-unchanged", F2 == F)
    V.ensure("frame/view-unchanged", U.same_view(I, before, U.snapshot(h)))


# ------------------------------------------------------------------------------------------ keys
@P.unit(f"{UKV}.keys")
def _keys(V):
    I, st = V.I, V.st
    cell, h, F, ch, bof = pre_sync(V, "a")
    V.cover()
    out = V.method(h, "keys", [], qual=f"{UKV}.keys")
    ok = out.returned and isinstance(out.value, Obj) and out.value.tag == "symmap_keys" and out.value.fields["m"] is h.fields["_toc"]
    V.ensure("post/listing-is-the-index", z3.BoolVal(bool(ok)))
    k = st.fresh("k", BytesS)
    j = ch.idx(k)
    V.ensure("post/listing-is-exactly-the-put-keys",
             U.toc_of(h).has[k] == z3.And(j >= 0, j < ch.n, ch.K[j] == k))


# ------------------------------------------------------------------------------------------ map_blocks
@P.setup
def _mb_setup(I):
    U.install_map_blocks_spec(I)


def pre_chain_file(V, name="h", tail="none"):
    """file = header + well-formed chain (+ optional torn tail); handle stale at m <= n or fresh"""
    I, st = V.I, V.st
    FM.use_theory(st)
    U.install_open_hook(st)
    cell = FM.new_file_cell(I, "F")
    kind = V.choose(["stale", "fresh"], "handle")
    mode = V.choose(["a", "r"], "mode")
    h = U.mk_handle(V, cell, mode=mode, name=name)
    F = bz(cell.fields["content"])
    ch = Chain(st, "c")
    bof = U.bof_of(h)
    V.assume(z3.And(blen(bz(h.fields["h2"])) < 65536, blen(bz(h.fields["b0"])) < 2 ** 32))
    V.assume(ch.wf(F, bof))
    if tail == "none":
        V.assume(ch.P[ch.n] == blen(F))
    else:
        # torn tail: the bytes after the last complete record are a proper prefix of one record encoding
        T = blen(F) - ch.P[ch.n]
        hdr = bslice(F, ch.P[ch.n], 5)
        V.assume(z3.And(T > 0, z3.Or(T < 5, ch.P[ch.n] + 5 + FM.unp_B(hdr) + FM.unp_I(hdr) > blen(F))))
    if kind == "fresh":
        m = z3.IntVal(0)
        h.fields["_toc"] = U.empty_toc(I)
        h.fields["_eof"] = None
        h.fields["_last"] = None
    else:
        m = st.fresh("m", z3.IntSort())
        V.assume(U.idx_inv(h, F, ch, m, last=False))
        V.assume(U.last_ok(h))
    st.ghost["mb"] = {"ch": ch, "F": F, "bof": bof, "m": m, "mode": "chain"}
    return cell, h, F, ch, bof, m, kind, mode


def post_indexed(V, h, F, ch, bof, label="post"):
    st = V.st
    k = st.fresh("k", BytesS)
    for lab, f in U.idx_inv_at(U.toc_of(h), ch, ch.n, k):
        V.ensure(f"{label}/index-is-exactly-the-complete-records/{lab}", f)
    V.ensure(f"{label}/eof-is-end-of-last-complete-record", to_z3(h.fields["_eof"], "int") == ch.P[ch.n])
    V.ensure(f"{label}/last-is-listed", U.last_ok(h))


@P.unit(f"{UKV}.map_blocks")
def _map_blocks(V):
    I, st = V.I, V.st
    cell, h, F, ch, bof, m, kind, mode = pre_chain_file(V, tail="none")
    V.witness(lambda ev: {"op": "reopen", "n": ev(ch.n), "m": ev(m), "handle": kind, "mode": mode, "signature": "map_blocks"})
    V.cover()
    before = U.snapshot(h)
    out = V.method(h, "map_blocks", [], qual=f"{UKV}.map_blocks")
    V.ensure("post/no-exception", z3.BoolVal(out.returned))
    if out.returned:
        post_indexed(V, h, F, ch, bof)
        V.ensure("frame/file-unchanged", bz(cell.fields["content"]) == F)
        V.ensure("frame/headers-unchanged", I.and_(*[I.eq(before[f], h.fields[f]) for f in ("h1", "h2", "b0")]))
