"""C07 -- mol2 written by molli reads back as the same molecule.

Layer 3 (type vocabulary, finite and complete): Atom.get_mol2_type / set_mol2_type and Bond.get/set_mol2_type are
executed for every element (enumerated) with symbolic atom type and geometry (finite enums: the match statements
are explored path-completely, so all 119 x 22 x 17 combinations are covered without sampling) and every bond type.
Layers 1-2 (token stream of writer and reader) use the structured-string model (pyvc.textmodel).
"""
import z3
from pyvc.spec import *
from pyvc.values import *
from pyvc.ops import to_z3
from contracts import mol as M

P = Property("C07", "mol2 written by molli reads back as the same molecule")
P.trust("text codecs: float(format(x,'12.6f')) within 5e-7 of x, float(format(c,'0.3f')) within 5e-4, int(str(i)) = i")
P.assume("labels are whitespace-free and non-empty, the name is one line without leading/trailing blanks (the property's quantifier)")
ATOM = M.ATOM


def fresh_default_atom(V):
    I = V.I
    a = M.mk_atom(V, "r", label=None)
    a.fields["element"] = I.getattr_(V.cls("molli.chem.atom:Element"), "Unknown")
    return a


@P.unit(f"{ATOM}.get_mol2_type", name="atom type vocabulary: every emitted token is accepted, keeps the element, and is a fixed point",
        functions=[f"{ATOM}.get_mol2_type", f"{ATOM}.set_mol2_type"])
def _atom_vocab(V):
    I, st = V.I, V.st
    E = V.cls("molli.chem.atom:Element")
    AT, AG = V.cls("molli.chem.atom:AtomType"), V.cls("molli.chem.atom:AtomGeom")
    members = []
    for m_ in E.members.values():
        if m_ not in members:
            members.append(m_)
    e = V.choose(members, "element")
    a = M.mk_atom(V, "w", label=None)
    a.fields["element"] = e
    a.fields["atype"] = V.sym_enum("atype", AT)
    a.fields["geom"] = V.sym_enum("geom", AG)
    t0, g0 = a.fields["atype"], a.fields["geom"]
    V.witness(lambda ev: {"op": "atom-type", "element": e.name, "atype": ev(t0), "geom": ev(g0), "signature": f"atom-type"})
    V.cover()
    out = V.method(a, "get_mol2_type", [], qual=f"{ATOM}.get_mol2_type")
    V.ensure("writer/returns-a-token", z3.BoolVal(out.returned and isinstance(out.value, str) and out.value != "" and not any(c.isspace() for c in out.value)))
    if not (out.returned and isinstance(out.value, str)):
        return
    tok = out.value
    r = fresh_default_atom(V)
    rd = V.method(r, "set_mol2_type", [tok], qual=f"{ATOM}.set_mol2_type")
    V.ensure("reader/accepts-every-token-the-writer-emits", z3.BoolVal(rd.returned))
    if not rd.returned:
        return
    dummy = I.eq(t0, I.getattr_(AT, "Dummy"))
    V.ensure("reader/element-preserved", I.eq(r.fields["element"], e))
    # second cycle: what the reader understood is written as the same token again
    out2 = V.method(r, "get_mol2_type", [])
    tok2 = out2.value if out2.returned else None
    sig = f"{tok}->{tok2}"
    V.witness(lambda ev: {"op": "atom-type", "element": e.name, "atype": ev(t0), "geom": ev(g0), "token": tok, "token2": tok2,
                          "signature": "token-not-a-fixed-point:geometry-only-token" if isinstance(tok, str) and tok.split(".")[-1] in ("oh", "th", "pl3") else "token-not-a-fixed-point"})
    V.ensure("fixed-point/second-write-emits-the-same-token", z3.BoolVal(tok2 == tok))


BOND = M.BOND


@P.unit(f"{BOND}.get_mol2_type", name="bond type vocabulary", functions=[f"{BOND}.get_mol2_type", f"{BOND}.set_mol2_type"])
def _bond_vocab(V):
    I, st = V.I, V.st
    BT = V.cls("molli.chem.bond:BondType")
    members = []
    for m_ in BT.members.values():
        if m_ not in members:
            members.append(m_)
    bt = V.choose(members, "btype")
    a1, a2 = M.mk_atom(V, "x"), M.mk_atom(V, "y")
    b = M.mk_bond(V, "b", a1, a2)
    b.fields["btype"] = bt
    V.witness(lambda ev: {"op": "bond-type", "btype": bt.name, "signature": "bond-type"})
    V.cover()
    out = V.method(b, "get_mol2_type", [], qual=f"{BOND}.get_mol2_type")
    V.ensure("writer/returns-a-token", z3.BoolVal(out.returned and isinstance(out.value, str) and out.value != ""))
    if not out.returned:
        return
    tok = out.value
    r = M.mk_bond(V, "rb", a1, a2)
    rd = V.method(r, "set_mol2_type", [tok], qual=f"{BOND}.set_mol2_type")
    V.ensure("reader/accepts-every-token-the-writer-emits", z3.BoolVal(rd.returned))
    if not rd.returned:
        return
    # the Tripos mol2 bond vocabulary: 1 2 3 am ar du un nc (quadruple..sextuple are not mol2 types)
    expressible = {"Single", "Double", "Triple", "Aromatic", "Amide", "Dummy", "Unknown", "NotConnected"}
    if bt.name in expressible:
        V.ensure("reader/every-type-mol2-can-express-is-preserved", I.eq(r.fields["btype"], bt))
    else:
        V.ensure("reader/inexpressible-types-read-as-Unknown", I.eq(r.fields["btype"], I.getattr_(BT, "Unknown")))
    out2 = V.method(r, "get_mol2_type", [])
    V.ensure("fixed-point/second-write-emits-the-same-token", z3.BoolVal(out2.returned and out2.value == tok))
    # the cache on set_mol2_type must not leak between bonds: a second bond read with another token gets its own type
    r2 = M.mk_bond(V, "rb2", a1, a2)
    other = "2" if tok != "2" else "1"
    V.method(r2, "set_mol2_type", [other])
    V.ensure("reader/type-is-per-bond", z3.BoolVal(I.eq(r2.fields["btype"], I.getattr_(BT, "Double" if other == "2" else "Single")) is True))


# =========================================================================================== writer -> reader (token level)
from pyvc import textmodel as T
from pyvc import npmodel as NP

MOLQ = M.CLS["Molecule"]


def text_molecule(V, kind="Molecule"):
    """3 atoms C, N, O (types fixed: the vocabulary is the other unit's subject), symbolic labels / coordinates / charges / name"""
    I, st = V.I, V.st
    E = V.cls("molli.chem.atom:Element")
    AT = V.cls("molli.chem.atom:AtomType")
    m = M.mk_mol(V, kind, 3, ((0, 1), (2, 1)), name="m")
    for a, el, ty in zip(m.fields["_atoms"].items, ("C", "N", "O"), ("sp3", "Regular", "sp2")):
        a.fields["element"] = I.getattr_(E, el)
        a.fields["atype"] = I.getattr_(AT, ty)
        # labels: whitespace-free, non-empty (precondition of the property); the third atom has no label
        V.assume(z3.Length(a.fields["label"].z) > 0)
    m.fields["_atoms"].items[2].fields["label"] = None
    # charges that are non-zero but print as -0.000 are excluded (the sign of a printed zero is not modelled)
    R3 = T.rounding(3)
    for q in m.fields["_atomic_charges"].data:
        V.assume(z3.Or(q.z == 0, R3(q.z) != 0))
    BT = V.cls("molli.chem.bond:BondType")
    m.fields["_bonds"].items[0].fields["btype"] = I.getattr_(BT, "Double")
    m.fields["_bonds"].items[1].fields["btype"] = I.getattr_(BT, "Aromatic")
    return m


@P.unit(f"{MOLQ}.dump_mol2", name="mol2 text: what dump_mol2 writes is what yield_from_mol2 reads, and the text is a fixed point",
        functions=[f"{MOLQ}.dump_mol2", f"{MOLQ}.dumps_mol2", f"{M.CLS['Structure']}.yield_from_mol2", f"{M.CLS['Structure']}.loads_mol2",
                   "molli.parsing.mol2:read_mol2", "molli.parsing._reader:LineReader.__next__"])
def _mol2_text(V):
    I, st = V.I, V.st
    T.use(st)
    m = text_molecule(V)
    # the atoms' back-references: to this molecule, or (history: two of the atoms were also handed to another non-copying container,
    # e.g. Promolecule(mol.atoms[1:3])) to an object in which they sit at other positions -- they are still atoms 1 and 2 of THIS molecule
    # the name is a whole line of the file: it may contain blanks (the symbolic name stands for any blank-free token)
    if V.choose([False, True], "name-contains-a-blank"):
        m.fields["_name"] = "ligand 7"
    shared = V.choose([False, True], "atoms-shared-with-another-container")
    if shared:
        other = M.mk_mol(V, "Molecule", 0, (), name="other")
        ats = m.fields["_atoms"].items
        other.fields["_atoms"].items.extend([ats[1], ats[2]])
        for a_ in (ats[1], ats[2]):
            a_.fields["_parent"] = Obj(I.WeakrefCls, {"ref": other}, tag="weakref")
    V.witness(lambda ev: {"op": "mol2-roundtrip", "shared": shared, "signature": "mol2-roundtrip" + ("/shared-atoms" if shared else "")})
    V.cover()
    w = V.method(m, "dumps_mol2", [], qual=f"{MOLQ}.dumps_mol2")
    V.ensure("writer/returns-text", z3.BoolVal(w.returned and isinstance(w.value, (T.SStr, str))))
    if not w.returned:
        return
    text = w.value
    cls = V.cls(MOLQ)
    I.target = f"{M.CLS['Structure']}.loads_mol2"
    try:
        r = I.call(I.getattr_(cls, "loads_mol2"), [text], {})
        rd = Outcome("return", r)
    except PyExc as e:
        rd = Outcome("raise", exc=e.value)
        V.dbg = (e.value, e.value.fields)
    V.ensure("reader/accepts-the-written-text", z3.BoolVal(rd.returned))
    if not rd.returned:
        return
    sa, ra = m.fields["_atoms"].items, r.fields["_atoms"].items
    V.ensure("roundtrip/name", I.eq(r.fields["_name"], m.fields["_name"]))
    V.ensure("roundtrip/atom-count-and-order", z3.BoolVal(len(ra) == len(sa)))
    if len(ra) == len(sa):
        V.ensure("roundtrip/elements", I.and_(*[I.eq(x.fields["element"], y.fields["element"]) for x, y in zip(sa, ra)]))
        V.ensure("roundtrip/non-empty-labels", I.and_(*[I.eq(x.fields["label"], y.fields["label"]) for x, y in zip(sa, ra) if x.fields["label"] is not None]))
        V.ensure("roundtrip/atom-types", I.and_(*[I.eq(x.fields["atype"], y.fields["atype"]) for x, y in zip(sa, ra)]))
        R6, R3 = T.rounding(6), T.rounding(3)
        cs, cr = m.fields["_coords"].data, r.fields["_coords"].data
        V.ensure("roundtrip/coordinates-to-the-written-precision",
                 z3.And(*[to_z3(cr[i][k], "real") == R6(to_z3(cs[i][k], "real")) for i in range(3) for k in range(3)]))
        qs, qr = m.fields["_atomic_charges"].data, r.fields["_atomic_charges"].data
        V.ensure("roundtrip/partial-charges-to-the-written-precision",
                 z3.And(*[to_z3(qr[i], "real") == R3(to_z3(qs[i], "real")) for i in range(3)]))
        sb, rb = m.fields["_bonds"].items, r.fields["_bonds"].items
        ends = len(sb) == len(rb) and all(sa.index(x.fields["a1"]) == ra.index(y.fields["a1"]) and sa.index(x.fields["a2"]) == ra.index(y.fields["a2"]) for x, y in zip(sb, rb))
        V.ensure("roundtrip/bond-list-with-endpoints", z3.BoolVal(bool(ends)))
        if ends:
            V.ensure("roundtrip/bond-types", I.and_(*[I.eq(x.fields["btype"], y.fields["btype"]) for x, y in zip(sb, rb)]))
    w2 = V.method(r, "dumps_mol2", [])
    V.ensure("fixed-point/second-write-produces-the-same-text", T.same_text(I, text, w2.value) if w2.returned else z3.BoolVal(False))


@P.unit(f"{M.CLS['Structure']}.yield_from_mol2", name="mol2 text of a molecule without atoms reads back as a molecule without atoms",
        functions=[f"{MOLQ}.dump_mol2", f"{M.CLS['Structure']}.dump_mol2", f"{M.CLS['Structure']}.yield_from_mol2", f"{M.CLS['Structure']}.loads_mol2",
                   "molli.parsing.mol2:read_mol2"])
def _mol2_empty(V):
    I, st = V.I, V.st
    T.use(st)
    kind = V.choose(["Molecule", "Structure"], "class")
    m = M.mk_mol(V, kind, 0, (), name="m")
    V.witness(lambda ev: {"op": "mol2-empty", "kind": kind, "signature": "mol2-empty"})
    V.cover()
    w = V.method(m, "dumps_mol2", [])
    if not w.returned:
        return                      # nothing written: nothing to read back
    cls = V.cls(M.CLS[kind])
    I.target = f"{M.CLS['Structure']}.loads_mol2"
    try:
        r = I.call(I.getattr_(cls, "loads_mol2"), [w.value], {})
    except PyExc as e:
        V.dbg = (e.value, e.value.fields)
        V.ensure("empty/reader-accepts-the-written-text", z3.BoolVal(False))
        return
    V.ensure("empty/reader-accepts-the-written-text", z3.BoolVal(True))
    V.ensure("empty/no-atoms-no-bonds-same-name", I.and_(len(r.fields["_atoms"].items) == 0, len(r.fields["_bonds"].items) == 0,
                                                          I.eq(r.fields["_name"], m.fields["_name"])))
    V.ensure("empty/coordinates-are-0x3", z3.BoolVal(tuple(r.fields["_coords"].tail) == (0, 3)))


@P.unit(f"{M.CLS['Structure']}.dump_mol2", name="mol2 text of a Structure (no partial charges)",
        functions=[f"{M.CLS['Structure']}.dump_mol2", f"{M.CLS['Structure']}.dumps_mol2"])
def _mol2_text_structure(V):
    I, st = V.I, V.st
    T.use(st)
    m = text_molecule(V, "Structure") if False else None
    E = V.cls("molli.chem.atom:Element")
    AT = V.cls("molli.chem.atom:AtomType")
    m = M.mk_mol(V, "Structure", 2, ((1, 0),), name="s")
    for a, el in zip(m.fields["_atoms"].items, ("C", "Cl")):
        a.fields["element"] = I.getattr_(E, el)
        V.assume(z3.Length(a.fields["label"].z) > 0)
    V.witness(lambda ev: {"op": "mol2-roundtrip", "signature": "mol2-roundtrip"})
    V.cover()
    w = V.method(m, "dumps_mol2", [], qual=f"{M.CLS['Structure']}.dumps_mol2")
    V.ensure("writer/returns-text", z3.BoolVal(w.returned and isinstance(w.value, (T.SStr, str))))
    if not w.returned:
        return
    cls = V.cls(M.CLS["Structure"])
    try:
        r = I.call(I.getattr_(cls, "loads_mol2"), [w.value], {})
    except PyExc:
        V.ensure("reader/accepts-the-written-text", z3.BoolVal(False))
        return
    V.ensure("reader/accepts-the-written-text", z3.BoolVal(True))
    sa, ra = m.fields["_atoms"].items, r.fields["_atoms"].items
    V.ensure("roundtrip/name-elements-labels", I.and_(I.eq(r.fields["_name"], m.fields["_name"]), len(sa) == len(ra),
                                                      *[I.eq(x.fields["element"], y.fields["element"]) for x, y in zip(sa, ra)],
                                                      *[I.eq(x.fields["label"], y.fields["label"]) for x, y in zip(sa, ra)]))
    R6 = T.rounding(6)
    V.ensure("roundtrip/coordinates", z3.And(*[to_z3(r.fields["_coords"].data[i][k], "real") == R6(to_z3(m.fields["_coords"].data[i][k], "real")) for i in range(2) for k in range(3)]))
    rb = r.fields["_bonds"].items
    V.ensure("roundtrip/bond-endpoints-in-written-order", z3.BoolVal(len(rb) == 1 and ra.index(rb[0].fields["a1"]) == 1 and ra.index(rb[0].fields["a2"]) == 0))
    w2 = V.method(r, "dumps_mol2", [])
    V.ensure("fixed-point/second-write-produces-the-same-text", T.same_text(I, w.value, w2.value) if w2.returned else z3.BoolVal(False))


ENSQ = M.CLS["ConformerEnsemble"]


@P.unit(f"{ENSQ}.dump_mol2", name="mol2 text of an ensemble: conformer count and order",
        functions=[f"{ENSQ}.dump_mol2", f"{ENSQ}.dumps_mol2", f"{ENSQ}.load_mol2", f"{ENSQ}.loads_mol2", f"{M.CLS['Structure']}.load_all_mol2"])
def _mol2_text_ensemble(V):
    I, st = V.I, V.st
    T.use(st)
    E = V.cls("molli.chem.atom:Element")
    e = M.mk_ens(V, 2, 2, bonds=((0, 1),))
    for a, el in zip(e.fields["_atoms"].items, ("C", "O")):
        a.fields["element"] = I.getattr_(E, el)
        V.assume(z3.Length(a.fields["label"].z) > 0)
    R3 = T.rounding(3)
    for row in e.fields["_atomic_charges"].data:
        for q in row:
            V.assume(z3.Or(q.z == 0, R3(q.z) != 0))
    V.witness(lambda ev: {"op": "mol2-roundtrip", "signature": "mol2-roundtrip-ensemble"})
    V.cover()
    w = V.method(e, "dumps_mol2", [], qual=f"{ENSQ}.dumps_mol2")
    V.ensure("writer/returns-text", z3.BoolVal(w.returned))
    if not w.returned:
        return
    cls = V.cls(ENSQ)
    try:
        r = I.call(I.getattr_(cls, "loads_mol2"), [w.value], {})
    except PyExc:
        V.ensure("reader/accepts-the-written-text", z3.BoolVal(False))
        return
    V.ensure("reader/accepts-the-written-text", z3.BoolVal(True))
    cr, cs = r.fields["_coords"], e.fields["_coords"]
    V.ensure("roundtrip/conformer-and-atom-count", z3.BoolVal(isinstance(cr, NdArr) and tuple(cr.tail) == (2, 2, 3)))
    if tuple(cr.tail) == (2, 2, 3):
        R6 = T.rounding(6)
        V.ensure("roundtrip/conformer-order-and-coordinates",
                 z3.And(*[to_z3(cr.data[c][i][k], "real") == R6(to_z3(cs.data[c][i][k], "real")) for c in range(2) for i in range(2) for k in range(3)]))
        V.ensure("roundtrip/charges-per-conformer",
                 z3.And(*[to_z3(r.fields["_atomic_charges"].data[c][i], "real") == R3(to_z3(e.fields["_atomic_charges"].data[c][i], "real")) for c in range(2) for i in range(2)]))
    V.ensure("roundtrip/name-and-elements", I.and_(I.eq(r.fields["_name"], e.fields["_name"]),
                                                   *[I.eq(x.fields["element"], y.fields["element"]) for x, y in zip(e.fields["_atoms"].items, r.fields["_atoms"].items)]))


# ------------------------------------------------------------------------------------------ a molecule that was itself read from a file
@P.unit(f"{MOLQ}.dump_mol2", name="a molecule read from a foreign mol2 text (NO_CHARGES / BIOPOLYMER header), then given charges, writes text that reads back with those charges",
        functions=[f"{MOLQ}.dump_mol2", f"{M.CLS['Structure']}.yield_from_mol2", "molli.parsing.mol2:read_mol2"])
def _mol2_after_foreign_read(V):
    """whatever the reader keeps from the header of the file a molecule came from must not make the writer produce text that molli
    reads back differently (the charge model line decides whether the charge column is used at all)"""
    I, st = V.I, V.st
    T.use(st)
    x = [V.sym(f"x{i}", "real") for i in range(6)]
    ft = lambda v: T.Tok("float", v, ".4f")
    hdr = V.choose([("SMALL", "NO_CHARGES"), ("BIOPOLYMER", "NO_CHARGES"), ("SMALL", "GASTEIGER")], "header-of-the-source-file")
    text = T.SStr(["@<TRIPOS>MOLECULE\n", "foreign\n", "2 1 0 0 0\n", hdr[0] + "\n", hdr[1] + "\n", "\n", "@<TRIPOS>ATOM\n",
                   T.SStr(["1 C1 ", ft(x[0]), " ", ft(x[1]), " ", ft(x[2]), " C.3 1 UNL 0.0000\n"]),
                   T.SStr(["2 O1 ", ft(x[3]), " ", ft(x[4]), " ", ft(x[5]), " O.3 1 UNL 0.0000\n"]),
                   "@<TRIPOS>BOND\n", "1 1 2 1\n"])
    cls = V.cls(MOLQ)
    V.witness(lambda ev: {"op": "mol2-after-foreign-read", "header": list(hdr), "signature": "mol2-after-foreign-read"})
    V.cover()
    try:
        m = I.call(I.getattr_(cls, "loads_mol2"), [text], {})
    except PyExc:
        V.ensure("foreign/source-text-is-readable", z3.BoolVal(False))
        return
    V.ensure("foreign/source-text-is-readable", z3.BoolVal(True))
    q = [V.sym("q0", "real"), V.sym("q1", "real")]
    I.setattr_(m, "atomic_charges", NP.mk(list(q), "float"))
    w = V.method(m, "dumps_mol2", [])
    V.ensure("foreign/writer-returns-text", z3.BoolVal(w.returned))
    if not w.returned:
        return
    try:
        r = I.call(I.getattr_(cls, "loads_mol2"), [w.value], {})
    except PyExc:
        V.ensure("foreign/reader-accepts-the-written-text", z3.BoolVal(False))
        return
    V.ensure("foreign/reader-accepts-the-written-text", z3.BoolVal(True))
    R3 = T.rounding(3)
    qr = r.fields["_atomic_charges"].data
    V.ensure("foreign/partial-charges-survive", z3.BoolVal(len(qr) == 2) if len(qr) != 2 else z3.And(*[to_z3(qr[i], "real") == R3(q[i].z) for i in range(2)]))
    w2 = V.method(r, "dumps_mol2", [])
    V.ensure("foreign/second-write-is-a-fixed-point", T.same_text(I, w.value, w2.value) if w2.returned else z3.BoolVal(False))
