#!/bin/sh
# Offline setup: the engine runs under python3-vt (z3-solver, sympy, cvc5 pre-installed); replay
# scripts run under /venv/bin/python (molli installed editable from /repo).  Nothing to build.
set -e
cd "$(dirname "$0")"
python3-vt -c "import z3, sympy; print('z3', z3.get_version_string(), 'sympy', sympy.__version__)"
/venv/bin/python -c "import molli; print('molli from', molli.__file__)"
mkdir -p evidence replays
