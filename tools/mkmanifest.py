#!/usr/bin/env python3
"""Regenerates /verif/MANIFEST.json from the table below (keeps the manifest valid at all times)."""
import json, os, sys

VERIF = os.path.dirname(os.path.dirname(os.path.abspath(__file__)))
BASE = "cd /repo && /venv/bin/python -m pytest -ra -q -p no:cacheprovider --timeout=900 --continue-on-collection-errors"

TECH = "contract-based deductive verification: VCs generated from the real AST by pyvc (symbolic execution), discharged by z3/cvc5"

CLAIMED = {
    "C09": dict(
        text="Proof: the six entry points are executed symbolically on the real AST, path-completely, with a symbolic "
             "format string and all (source kind x otype x name x key) cells; each clause of the dispatch table is a VC "
             "discharged by z3 for all format strings. Right level because the property is a finite dispatch matrix "
             "over an unbounded string argument, decided exactly by path-complete symbolic execution.",
        ref="DESIGN.md section 3 C09",
        note="Class-level codecs (load_*/dump_* of Molecule/Structure/ConformerEnsemble, CDXMLFile) uninterpreted: may return "
             "anything or raise; open()/Path.suffix modelled (trusted); parser/writer fixed to 'molli'; pyvc's encoding of "
             "python semantics (match, try/finally, unbound locals, truthiness).",
    ),
}

CLAIMED.update({
    "C02": dict(
        text="Proof (per operation, induction over the history): the representation invariant 'file = header + well-formed record "
             "chain; each handle's index = a prefix of the chain' is shown to be established/preserved by put, get, keys and "
             "map_blocks (loop invariant over the unbounded scan) for every key/value size and any number of records, on normal and "
             "exceptional exits; get(k) = the put value, listing = put keys, failed operations change neither file nor view.",
        ref="DESIGN.md section 3 C02",
        note="Byte store abstracted by Bytes/file axioms (read-over-write) and struct pack/unpack axioms (trusted); a handle that "
             "appends is Sync (no foreign append since its last scan: guaranteed by the Collection lock, C04); recreating a file "
             "(mode w/x) while stale handles exist is outside the insert-only claim; history quantifier by induction on the invariant.",
    ),
    "C03": dict(
        text="Proof: for every crash image (header + n complete records + any proper prefix of one record encoding, all sizes, all "
             "offsets) map_blocks indexes exactly the complete records and never the torn one; for every byte string at all no "
             "indexed record extends past EOF; open('a') re-establishes Sync (torn tail dropped), i.e. put's precondition of C02.",
        ref="DESIGN.md section 3 C03",
        note="Assumes a killed process leaves a prefix of the bytes written in program order (OS/BufferedRandom); byte-store and "
             "struct axioms as in C02; a bounded witness search on the real code is used only to produce replay inputs.",
    ),
    "C04": dict(
        text="Proof of the sequential part: every control-flow path through reading()/writing() with an exception possible at lock "
             "acquisition, begin_*, update_keys, the body, each flushed write and end_* ends with the lock released, every stream "
             "closed, state idle, and all file access inside the lock bracket. Modular: UKVFile.open/__init__/put/close exit "
             "contracts are proved against their bodies (fault injected at every I/O call) and used at the call sites.",
        ref="DESIGN.md section 3 C04, section 4",
        note="Mutual exclusion of fasteners' locks and real multi-process schedules are NOT decided (assumed lock contract); "
             "single-fault enumeration per path; write queue 0..2 items in the session units.",
    ),
})

CLAIMED["C05"] = dict(
    text="Proof per edit operation (induction over the edit history): add_atom/new_atom/del_atom (all AtomLike alternatives: atom, "
         "foreign atom, symbolic index, label, element), connect, append_bond(s)/extend_bonds (own and foreign end atoms), del_bond "
         "are executed symbolically through the whole cooperative class chain; the class invariant (one coordinate row and one "
         "numeric charge per atom keyed by atom identity, bonds inside the molecule, parents, indices) is proved on every normal and "
         "exceptional exit, and failed edits change nothing.",
    ref="DESIGN.md section 3 C05",
    note="Values (elements, labels, coordinates, charges, indices, enum alternatives) are symbolic; container sizes are fixed per unit "
         "(0, 1, 3 atoms; 0..3 bonds incl. parallel bonds) -- bounded in size, unbounded in values; numpy row operations are a trusted "
         "model; remove_substituent/add_implicit_hydrogens are covered through C16/C15 contracts, Substructure/Conformer views in C14.",
)

CLAIMED["C14"] = dict(
    text="Proof per constructor branch and per operation (induction on the rectangularity invariant): all ConformerEnsemble "
         "constructor branches, append, extend, scale/invert/translate/rotate keep coords (nc,na,3), charges (nc,na), weights (nc,) "
         "with existing rows unchanged; Conformer(e,i) reads row i and writes go through to row i only (symbolic i); plain, nested "
         "and interleaved iteration visit each conformer exactly once in order.",
    ref="DESIGN.md section 3 C14",
    note="Array shapes are concrete per unit (0..2 conformers x 0..2 atoms), values and the conformer index symbolic; numpy "
         "allocation/append/broadcast/view semantics are a trusted model; dump/serialise of a view is covered by C01/C07; an ensemble "
         "without any atoms adopting its first geometry is outside the claim.",
)

CLAIMED["C01"] = dict(
    text="Proof of positional-schema agreement: the real serializer and deserializer (v2 and v1, molecule and ensemble) are executed "
         "symbolically back to back on objects whose every stored value is symbolic (all 9 atom fields, bond fields, endpoints, name, "
         "charge, multiplicity, attributes, coordinates, charges, weights); each field of the result is proved equal to the source's "
         "and array shapes/atom order unchanged; the library classes' version switch (never a mixed codec pair) and encoder/decoder "
         "plumbing are proved path-completely for any header bytes.",
    ref="DESIGN.md section 3 C01",
    note="msgpack and the numpy byte codec are assumed contracts (lists->tuples, IntEnum->int, binary32 rounding = the precision of "
         "the claim); container sizes fixed per unit (0 or 2 atoms, 1 bond, 0..2 conformers); mult=0 is not storable (constructors "
         "canonicalise it) and excluded by stated precondition; the byte store under the library is C02's subject.",
)

CLAIMED["C11"] = dict(
    text="Proof over the reals: rotation_matrix_from_vectors (general branch) maps the direction of v1 to that of v2, is orthogonal with "
         "det +1; rotation_matrix_from_axis is orthogonal, det +1, fixes the axis, has trace 1+2cos and the right-handed sense; "
         "translate/transform (and the ensemble variants, center_at_atom) preserve all pairwise distances and the signed volume; "
         "rotate_dihedral moves only the far side, by exactly the right-handed rotation about the central bond by target-current, and a "
         "lemma on the real dihedral() formula shows such a rotation adds the angle. Polynomial identities by sympy ideal membership.",
    ref="DESIGN.md section 3 C11, section 4",
    technique="contract-based deductive verification: VCs from the real AST by pyvc, polynomial identities discharged by sympy (Groebner reduction), branch logic by z3",
    note="Floats treated as reals; numpy linear algebra modelled (trusted); dihedral invariance under rigid motion assumed (textbook); NOT "
         "decided: the antiparallel branch of rotation_matrix_from_vectors (np.random, loop) beyond reachability, alignment RMSD/pose "
         "independence (caller-supplied SVD), behaviour within rounding distance of degenerate inputs.",
)

CLAIMED["C12"] = dict(
    text="Proof: Structure.join is executed symbolically on two 3-atom fragments with every value symbolic: the product holds fresh "
         "copies of all atoms but the two attachment points (all 8 scalar fields), the internal bonds plus exactly one new bond between "
         "the former neighbours with the requested type/stereo/order, charge qA+qB and multiplicity mA+mB-1 unless overridden (including "
         "0), the sources are untouched; fragment A is translated, fragment B keeps its internal distances, the new bond vector is "
         "dist*v1/|v1|; no path reads a hidden-state source (RNG). rotation_matrix_from_vectors is used through its C11 contract.",
    ref="DESIGN.md section 3 C12",
    technique="contract-based deductive verification: VCs from the real AST by pyvc (modular use of the C11 rotation contract), z3 + sympy",
    note="Fragment sizes fixed; floats as reals; NOT decided: which rotamer _optimize_rotation picks (argmin over the compiled kernel), "
         "iterated joins of `molli combine` (index shift).",
)

CLAIMED["C17"] = dict(
    text="Proof: (1) Job.__get__ bound through two driver instances in sequence (and back) returns, each time, a job carrying that "
         "instance's executable, nprocs, memory and environment (job's own explicit values win), vectorized jobs prepare through the "
         "bound job, and the shared descriptor object is not modified (so any creation/use order is covered by the frame); "
         "DriverBase.__init__ for every flag combination. (2) run_local, path-complete over 1..3 commands with symbolic return codes, "
         "named/unnamed commands and file existence: input files materialised (text/binary), commands run in order in the scratch "
         "directory with the merged environment, stop at the first failure, stdout/stderr of exactly the executed named commands, "
         "returned files byte-identical iff they exist, input hash, exit 0 iff all succeeded and all requested files exist, scratch "
         "directory removed, cwd restored, every stream closed.",
    ref="DESIGN.md section 3 C17",
    note="subprocess/tempfile/os/filesystem are a ghost trace model (trusted): child return codes and produced files are unconstrained "
         "inputs; command list length 1..3 (bounded), names of named commands pairwise distinct; msgpack dump/load of JobInput/JobOutput "
         "is the assumed msgpack contract.",
)

CLAIMED["C18"] = dict(
    text="Proof, path-complete over a two-key universe where per key (and per sub-job for vectorized jobs) membership in source and "
         "destination, the cached output (exists / loadable / hash / exit code), the outcome of a fresh run and whether process() "
         "raises are symbolic: only source items missing from the destination are touched; an item (sub-job) is executed iff it has no "
         "valid cached output, at most once; the destination receives exactly the processed results of items whose outputs are all "
         "valid (exit 0, same input hash); destination-only keys are left alone; no exception escapes.",
    ref="DESIGN.md section 3 C18",
    note="Collections through ghost maps with reading()/writing() sessions (their real behaviour is C02/C04), thread pool = sequential "
         "calls, cache directory as ghost file map, job.prepare/process uninterpreted; key universe of two keys (bounded); jobmap_sge shares "
         "the preparation/finalisation text and received the same repairs but is not separately verified.",
)

CLAIMED["C16"] = dict(
    text="Proof: add_implicit_hydrogens on a centre of symbolic group 13-16, formal charge, spin and bond types with 0..3 neighbours "
         "adds exactly the hinted number or max(0, 4-|4-(ve-fc-|spin|)|-ceil(bonded valence)) hydrogens for every value, only hydrogens, "
         "each bonded once to the centre, leaving existing atoms, bonds, coordinates and charges unchanged; a lemma shows a second call "
         "adds nothing; over the reals each new H lies at (constant within 1e-3 of 1) x (sum of covalent radii) from the centre and every "
         "division is defined outside degenerate geometries (neighbour centroid on the centre, collinear neighbours).",
    ref="DESIGN.md section 3 C16",
    technique="contract-based deductive verification: VCs from the real AST by pyvc, z3 (integer/real arithmetic) + sympy (length identities)",
    note="Element tables (group, covalent radius) uninterpreted with positive radii; mean_plane (SVD) assumed to return a unit vector; "
         "rotation_matrix_from_vectors through its C11 contract; bond types restricted to Single/Double/Triple/Aromatic/Dummy in the "
         "count unit; NOT decided: bond length for 2 hydrogens on a centre with 1 or 3 neighbours, the 'pointing away' sign clause "
         "(both only checked numerically by the replay harness).",
)

CLAIMED["C07"] = dict(
    text="Proof in three layers: (1) token level -- the real writers (Molecule/Structure/ConformerEnsemble dump_mol2) are executed on "
         "structures with symbolic name, labels, coordinates and charges, their output (a structured string of literals and formatted "
         "tokens) is fed to the real reader (read_mol2, LineReader, yield_from_mol2, loads_mol2/load_all_mol2): name, atom order, "
         "elements, labels, types, coordinates (1e-6) and charges (1e-3), bond list with endpoints and types, conformer count and order "
         "agree, and a second write gives the same text; (2) numeric text codecs are stated assumptions; (3) the atom-type vocabulary is "
         "covered completely: all 119 elements enumerated x symbolic type x geometry (path-complete over the finite enums), all bond types.",
    ref="DESIGN.md section 3 C07",
    note="Known finding (not repaired, printed as KNOWN-FINDING): geometry-only type tokens (X.pl3/X.th/X.oh) are not fixed points. "
         "Structured-string model: tokens are non-empty and whitespace-free (labels/name precondition of the property), padding is not "
         "tracked, float/int text codecs assumed with their error bounds, the sign of a printed zero is not modelled; sizes fixed "
         "(3 atoms / 2 bonds; 2 conformers x 2 atoms).",
)

CLAIMED["C08"] = dict(
    text="Proof: dump_xyz/dumps_xyz output (structured string) fed to read_xyz/yield_from_xyz/loads_xyz gives the same atom count, "
         "order, elements (incl. the Unknown element) and coordinates to the written precision, frame by frame for ensembles, and the "
         "atom records are a fixed point; for every member of DistanceUnit (and aliases) the xyz and the mol2 reader return the file's "
         "numbers times Angstrom-per-unit from the physical table (relative tolerance 1e-5 for the Bohr constant).",
    ref="DESIGN.md section 3 C08",
    note="Float text codec assumed (|float(format(x,'12.6f')) - x| <= 5e-7, idempotent); structured-string model as in C07; sizes fixed "
         "(3 atoms; 2 frames x 2 atoms); the xyz comment line (name) is not restored by the reader and is outside the statement.",
)

CLAIMED["C10"] = dict(
    text="Proof per member of an enumerated damage family (fault enumeration over symbolic content): the real writers produce a 2-molecule mol2 / 2-frame "
         "xyz text with symbolic name, labels, coordinates and charges; for every line-level damage (truncation at each line boundary, "
         "deletion or duplication of each single line) the real readers either raise or return complete molecules, each with the "
         "declared atom and bond counts and the content of the corresponding undamaged molecule -- proved for all contents. "
         "Same for every single-token corruption of the first molecule's lines (each whitespace-separated token replaced by a foreign "
         "symbol, by a bare integer where the field is not numeric, and by a malformed number), mol2 and xyz.",
    ref="DESIGN.md section 3 C10, section 4",
    note="Damage family at line granularity over one file shape; structured-string model and text codecs as in C07/C08; names/labels "
         "that are themselves numbers or start with '#'/'@' are excluded by precondition; NOT decided: termination on arbitrary text, "
         "truncation inside a record line (a cut number is a shorter valid number: the formats carry no terminator/checksum).",
)

CLAIMED["C06"] = dict(
    text="Proof per copy route (copy constructors of Promolecule/Connectivity/CartesianGeometry/Structure/Molecule/ConformerEnsemble, "
         "Atom.evolve/Bond.evolve, pickle/deepcopy through the real __getstate__/__setstate__, concatenate and `|`): every observable "
         "field of the result equals the source's (all atom and bond fields, attributes, coordinates, charges, weights), parents and "
         "indices are defined and right, and the footprints (every mutable object reachable through atoms, bonds, attribute "
         "dictionaries and arrays) of result and source are disjoint by object identity -- hence no mutation of one side can change the other.",
    ref="DESIGN.md section 3 C06",
    note="pickle/deepcopy via an explicit protocol model (trusted); sizes fixed (3 atoms, 2 bonds, 2 conformers), values symbolic; "
         "mutation-after-copy follows from footprint disjointness plus the mutators' frames (C05/C14/C16), not re-executed per mutation; "
         "objects stored *inside* attrib dictionaries are out of scope; join's footprint is covered in C12 (sources untouched).",
)

CLAIMED["C15"] = dict(
    text="Mixed level, stated per clause. Proved with symbolic values: bonds_with_atom / connected_atoms / n_bonds_with_atom / "
         "bonded_valence (= sum of Bond.order over symbolic bond types) / lookup_bond agree with the bond list; _node_match is exactly "
         "element compatibility (Unknown matches any) for an unconstrained pattern atom, _edge_match accepts every bond for an "
         "unconstrained pattern bond; match passes (molecule, pattern) and both predicates to the matcher, inverts each mapping, and "
         "get_substr_indices lists images in pattern-atom order. Exhaustive through the VC engine over every labelled graph on 4 atoms and on six named graphs of 5-8 atoms (5- and 6-rings, chorded ring with tail, fused rings, spiro rings with a path, branched tree of depth 3; every start, direction and bond): "
         "yield_bfsd/yield_bfs yield exactly the reachable atoms once each with true shortest distances in non-decreasing order (with and "
         "without direction), is_bond_in_ring iff the bond is not a bridge. Bounded stand-in (NOT counted as proved): all graphs on <= 5 "
         "atoms and brute-force induced-embedding search on the real code under CPython.",
    ref="DESIGN.md section 3 C15, section 4",
    category="proof",
    note="No unbounded inductive proof of the BFS distance invariant (traversal clauses are bounded: 4 atoms via the VC engine, 5 atoms "
         "via the stand-in that also runs in the quick tier); networkx GraphMatcher semantics assumed; _edge_match is stricter than plain "
         "adjacency when the pattern bond carries a type/stereo/label (documented behaviour, outside the statement's notion).",
)

CLAIMED["C19"] = dict(
    text="Python layer only, and split by level. Proved over the reals (z3, all inputs with spacing > 0, padding >= 0, hi >= lo): "
         "rectangular_grid builds the full cartesian product of three axes, each with floor(extent/spacing)+1 >= 1 points, end points "
         "included, step exactly the requested spacing, centred in and contained in the padded box (offset < spacing/2). Proved "
         "structurally on every path (geometry / ensemble argument): nearest_atom_index and prune build the KD-tree over exactly the "
         "structure's (conformer's / all conformers') coordinates, pass the caller's max_dist as search bound AND as threshold, eps as the "
         "approximation factor, put -1 elsewhere, row i = conformer i; the nearest-within-cut-off meaning then follows from the ASSUMED "
         "contract of scipy's KDTree.query. NOT proved -- bounded stand-in on the real extension under CPython, labelled bounded: the "
         "compiled cdist22/cdist32 kernels (C++; shapes 0..5 x 0..5, 1..3 conformers, float32/float64, C-contiguous / Fortran / strided) "
         "and aso / aeif / nearest_atom_index / prune / rectangular_grid against an independent float64 numpy reference on random inputs.",
    ref="DESIGN.md section 3 C19, section 4",
    category="proof",
    note="The kernel clause of the statement is NOT decided deductively (no C++ verifier installed, no Python AST): only the bounded "
         "differential stand-in covers it, and it also runs in the quick tier. Floats are reals in the grid proof; the float32 cast is "
         "not modelled. aso/aeif array algebra is covered by the stand-in only (grids with >= 1 point).",
)

CLAIMED["C13"] = dict(
    text="Constitution part under contract, handedness only bounded. Proved with a symbolic element tree (tree spine concrete per case: "
         "<= 3 nodes / 2 bonds per fragment, every combination of present/absent attributes; attribute VALUES symbolic): position = centre "
         "of BoundingBox else p else ValueError; _parse_atom_node gives the drawn element (carbon when omitted), isotope, formal charge, "
         "radical-electron count (Doublet 1, Singlet/Triplet 2), AtomNumber label, hydrogen hint, and attachment points of unknown element "
         "with the documented label for the five special node types; _parse_bond maps Order (omitted/1/2/3/4/1.5) and end points by node id, "
         "Dash -> ligand bond; _parse_fragment builds one atom per drawn node in document order, one bond per drawn bond between the drawn "
         "nodes, total charge = sum of formal charges, multiplicity = radical electrons + 1, name = label, non-chemical children ignored, "
         "stereo marks dispatched from the narrow end with the drawn sense, and the mirrored drawing (wedge<->hash, bold<->hash) has the same "
         "constitution with every out-of-plane request negated; _cdxml_3dify_ touches coordinates only, is odd in the sign on the ring and "
         "bold/hash branches and rotates only the substituent beyond the wide end about the narrow end; __getitem__ picks the first KD-tree "
         "candidate above the label (KeyError if none), passes the label as name, and a label (or its integer position) resolves to the same "
         "fragment on every call even if the KD-tree answers differently. NOT proved -- bounded stand-in on the real reader, labelled "
         "bounded: handedness inversion of every non-planar centre, determinism of the 3-D model and an independent ElementTree constitution "
         "oracle on the 116 labelled fragments of the 7 bundled drawings and their mirrored variants.",
    ref="DESIGN.md section 3 C13, section 4",
    category="proof",
    note="The handedness clause is NOT decided deductively (mean_plane uses an SVD whose sign convention is outside any contract here; "
         "rotation numerics; join with rotation optimisation for nested fragments): only the bounded stand-in on bundled drawings covers it, "
         "and it also runs in the quick tier. Hapto centres excluded as in the statement. KD-tree query and xml.etree are assumed "
         "(ElementPath subset modelled, including that '..' has no meaning at the context node).",
)


# ---- additions after the second round of seeded changes (units added / shared; see DESIGN 10.2)
EXTRA = {
 "C01": " Also: Collection.__getitem__/__setitem__/values/items decode the backend's bytes afresh on every read (no cached result object is handed out twice) and store exactly the encoder's output.",
 "C02": " Also: a buffered write that must be rejected (duplicate of a stored or of an earlier buffered key, oversize key) raises, is dropped from the queue, leaves nothing visible and does not poison later flushes, and get never returns its bytes; reopening a clean file reads back the header fields and every record for all header sizes, including an empty comment or descriptor block.",
 "C03": " The C02 contracts of UKVFile.put/get are part of this check (shared units): appends after recovery read back.",
 "C04": " Also: rwlock maps every name of one file (same Path.resolve()) to the same lock file; the C02 units for a rejected buffered write, update_keys and backend.get are part of this check (shared units).",
 "C05": " Coordinates of three numbers in a non-vector shape ((1,3), (3,1)) are rejected without side effect; an atom deleted earlier in the history (stale parent pointer) is adopted again when bonded.",
 "C06": " Empty attribute dictionaries are covered (never shared); atoms and bonds of a concatenation belong to the product; copy.deepcopy (through the class's own __deepcopy__ when it has one) shares nothing, nested attribute values included.",
 "C08": " The unit clause holds for every text/stream entry point (loads_, load_, loads_all_, load_all_); a multi-molecule xyz text keeps each frame's own elements, order and dummy flags.",
 "C10": " Bond end points and types are part of 'same content'. A hand-written mol2 text with UNITY_ATOM_ATTR/UNITY_BOND_ATTR records truncated at every line is rejected or complete and the reader terminates (a spec-less loop exceeding 3000 iterations on the 20-line text fails the obligation: bounded termination evidence, not a variant proof).",
 "C11": " rotate_dihedral is checked on three shapes (equal sides, heavier far side, heavier near side).",
 "C12": " The C11 contract of rotation_matrix_from_vectors is part of this check (shared unit). molli combine's _ml_assemble (iterated join with index shift, real join executed, rotation helpers stubbed) bonds substituent k where attachment point k was, for ascending attachment indices.",
 "C13": " CDXMLFile(path) discovers labels (bold single-run text boxes, first occurrence of a duplicated text kept) and fragments per file, and two open files with the same label resolve independently; the out-of-plane angle is odd in the sign with the documented magnitude (60/90 degrees); mean_plane (shared with C16) returns the singular vector of the smallest singular value of the centred points.",
 "C14": " A Conformer handle taken before append/extend still reads and writes the ensemble's current row afterwards.",
 "C15": " Atoms may be given by index (index 0 included) in the traversal units; get_substr_indices lists images in pattern-atom order whatever order the matcher reports.",
 "C16": " mean_plane is verified (SVD assumed): decomposes the centred points and returns the singular vector of the smallest singular value; the C11 contract of rotation_matrix_from_vectors is part of this check (shared unit).",
 "C17": " Class-level envars of a driver class are merged, never modified; JobInput.hash covers every field and JobInput.load(dump(x)) has the same content and hash (msgpack modelled as keeping maps, arrays and leaves).",
 "C18": " The C17 contracts of run_local and JobInput (hash covers every field; dump/load keeps it) are part of this check (shared units).",
 "C19": " Proved in addition for 2 conformers x 2 atoms x 2 grid points with all values symbolic (kernels replaced by their mathematical definition, boolean masks by path splitting): aso = (weighted) conformer average of the van der Waals occupancy, aeif = (weighted) average of the nearest-atom charge inside the spheres, nearest atoms looked up within the largest radius; nearest_atom_index asks for the exact nearest neighbour (no eps).",
}
for _k, _v in EXTRA.items():
    CLAIMED[_k]["text"] = CLAIMED[_k]["text"] + _v
CLAIMED["C19"]["note"] = CLAIMED["C19"]["note"].replace("aso/aeif array algebra is covered by the stand-in only (grids with >= 1 point).", "aso/aeif are proved for one small shape only (2x2x2); other shapes and the float32 path are covered by the stand-in (grids with >= 1 point).")

# ---- additions after rounds 3 and 4 (see DESIGN 10.3, 10.4)
EXTRA2 = {
 "C01": " Round trips also cover a single atom and two parallel bonds between the same atoms; the codec version is chosen from the file header only when the file is NOT about to be overwritten (overwrite recreates it in the current format).",
 "C04": " UkvCollectionBackend(path): the existence test and the (re)initialisation of the file happen inside one write-lock bracket, a missing file is created, an existing one truncated only on overwrite; C02's map_blocks and clean-reopen units are part of this check (no record lost, including a last record with an empty value).",
 "C05": " extend_bonds accepts one-shot iterators; an explicit charge=None still yields a numeric row; own atoms whose parent pointer was re-pointed elsewhere are not adopted a second time.",
 "C06": " A Conformer (view) can be pickled / deep-copied into a conformer of an independent copy of its ensemble; Molecule.concatenate is covered like Structure.concatenate.",
 "C07": " A molecule read from a foreign mol2 text (NO_CHARGES / BIOPOLYMER / GASTEIGER header) and then given charges writes text that reads back with those charges and is a fixed point.",
 "C08": " A molecule without atoms round-trips; dummy-typed atoms keep their element; units are honoured also when a file NAME is given (load / load_all) and by the ensemble loaders (loads_/load_, with the name override); float32-allocated coordinate blocks are detected (stores into them are not provably exact).",
 "C09": " For cdxml, load without a key parses the first drawn fragment under the caller's name and with a key the labelled one; a second load reads the source again (no state between calls); any object with write() is a valid dump target; the ensemble loaders' name/unit clauses (shared with C08) are part of this check.",
 "C10": " The atom-id token of mol2 atom records may be replaced by any other id (records are positional): same molecule or an exception; attribute records are content once their section header is present.",
 "C11": " rotate_dihedral also with the central bond stored in the reverse orientation; a Substructure created before a del_atom on its parent still moves exactly its own atoms; each alignment fit sees the mapped atoms in the caller's order; a restructured special branch of rotation_matrix_from_vectors is reported.",
 "C12": " Attachment bonds stored in either orientation; the rotation contract is applied to (B's attachment direction, minus A's), i.e. B is attached the right way round.",
 "C13": " The resolution of a label does not depend on which labels were looked up before.",
 "C14": " After append/extend no array buffer is shared with the structures that were appended.",
 "C15": " Adjacency queries with the atom given by index; Bond.order of every bond type; is_bond_in_ring through a model of networkx.bridges; bonds stored in either orientation; ConformerEnsemble.get_substr_indices like Connectivity's.",
 "C16": " The C05 append_bond units and C15's Bond.order table are part of this check (shared units); mean_plane does not modify its argument.",
 "C17": " The driver class is a subclass of the real DriverBase (class-level declarations visible); a driver reconfigured between two uses is honoured; run_local: the job's environment wins over the runner's own, a command killed by its time limit is a failed command.",
 "C18": " strict_hash=False relaxes only the hash comparison (a failed run is never a result); process() receives every loaded output record in order; DirCollectionBackend maps each key to its own file dir/key+ext (different keys never share a file).",
 "C19": " (aeif: a nearest-atom lookup with any other cut-off than the largest radius is reported.)",
}
for _k, _v in EXTRA2.items():
    CLAIMED[_k]["text"] = CLAIMED[_k]["text"] + _v

# ---- additions after round 5 (see DESIGN 10.5)
EXTRA3 = {
 "C01": " The codec version follows the file header also when a legacy library is opened for writing without overwrite.",
 "C02": " put is checked on handles still in their creating mode (w/x); a handle closed and opened again (created with r/a/w/x) loses nothing: a creating handle reopens for append.",
 "C04": " C03's crash-image units (map_blocks / open[recover]) are part of this check: a session that begins after an interrupted writer lists only the complete records.",
 "C07": " The bond list is written from the molecule's own atom order also when some atoms were handed to another non-copying container; a molecule without atoms round-trips.",
 "C08": " Every one of the 118 elements is written with a symbol that reads back as the same element as a regular atom; single-frame ensemble files round-trip.",
 "C10": " Damage also includes a cut inside a record at every token boundary; and at the parser level (read_xyz / read_mol2) every block handed out has exactly the atom (and bond) records its count line declares.",
 "C12": " The fragments' coordinate arrays hold the same numbers after the call (also the attachment-point rows, read through views).",
 "C14": " An append/extend of a geometry with another atom count is refused and leaves the ensemble exactly as it was; rotate with a 3x3 matrix, a stack of matrices or a 3x4 matrix leaves the ensemble rectangular with its conformer and atom count.",
 "C16": " Called without atoms, only hint-free atoms of groups 13-16 receive hydrogens (centre of any group 1-18); the bonded valence counts the orders of the centre's bonds whatever type of atom is at the other end.",
 "C17": " prepare/process hand the caller's arguments to the user's functions as f(job, item, *args, **kwargs), item by item in order, for single and vectorised jobs (through the real Job.vectorize); run_local executes the job whatever earlier output record lies in the output directory.",
 "C18": " (run_local, shared with C17: an earlier output record of the same input in the output directory does not replace execution.)",
}
for _k, _v in EXTRA3.items():
    CLAIMED[_k]["text"] = CLAIMED[_k]["text"] + _v

# ---- additions after round 6 (see DESIGN 10.6)
EXTRA4 = {
 "C01": " Bond end points are positions in the object's own atom list also when its atoms were handed to another non-copying container; the decoder accepts every map the encoder can write (non-string keys); C02's rejected-write unit is part of this check (a refused write does not keep later records from being stored).",
 "C02": " put writes the record front to back, each write starting at the then end of file, and cuts nothing (what makes a crash image a prefix).",
 "C04": " The session body may also be left by an exception that is not an Exception (KeyboardInterrupt): the session still flushes what it can, closes the file and releases the lock.",
 "C06": " Copy constructors are faithful also for a source whose atoms were handed to another non-copying container; concatenate / | with a single part and with a Conformer as the left operand.",
 "C07": " Names containing a blank round-trip (partial charges stay in their column).",
 "C08": " An empty name (empty comment line) round-trips.",
 "C09": " A writer option given to dump / dumps (e.g. write_header) reaches the class writer unchanged.",
 "C10": " Every bond-type token yields a bond (declared counts hold on undamaged text); files are opened with strict text decoding (an undecodable byte is an error, never dropped). Bounded stand-in (also in the quick tier): the real readers on a bundled 7-conformer file damaged at every line and with tokens of up to 5000 characters, under a 20 s limit per call (termination).",
 "C11": " A Substructure moves its own rows also when the parent's atoms were handed to another container. Bounded stand-in (also in the quick tier): dihedral / rotate_dihedral / rotation_matrix_from_vectors on exactly degenerate geometries (coplanar anti / syn chains, exactly and nearly (anti)parallel vectors) and random ones, on the real code.",
 "C12": " _ml_assemble with a subset of the attachment points (the selected ones are used, the others stay).",
 "C14": " 'Can be written and serialised': the C07 ensemble writer unit, the C01 ensemble codec unit and the C06 pickle / deepcopy units of ensembles and conformer views are part of this check (shared units).",
 "C16": " The module-level reference tetrahedron is not modified by a call. Bounded stand-in (also in the quick tier): placement on C / N / O centres with 0-3 neighbours incl. exactly axis-aligned bonds, one call after another in one process (count, finite coordinates, bond length, every new hydrogen away from the neighbours, frame, idempotence).",
 "C17": " The executable is the path that was given / found (no rewriting through os.path functions, which are uninterpreted); an environment value reaches the command unchanged; the job record is packed without float narrowing (timeouts hash the same in the runner).",
 "C18": " The thread pool is explored under both schedules (a task runs when submitted / when awaited), so every submitted task must carry its own arguments.",
 "C19": " The stand-in turns an exception escaping from the library on a valid input into a violation; a stand-in that does not complete is reported undecided.",
}
for _k, _v in EXTRA4.items():
    CLAIMED[_k]["text"] = CLAIMED[_k]["text"] + _v

NOT_APPLICABLE = {
}

PENDING_REASON = "check not yet built in this round (planned in DESIGN.md section 3); not claimed until its obligations discharge"


def main():
    props = [json.loads(l)["id"] for l in open(os.path.join(VERIF, "properties.jsonl"))]
    checks = []
    for pid in props:
        if pid in CLAIMED:
            c = CLAIMED[pid]
            checks.append({
                "property_id": pid,
                "quick_cmd": f"./check {pid} --tier quick",
                "thorough_cmd": f"./check {pid} --tier thorough",
                "evidence_file": f"evidence/{pid}.json",
                "replay_cmd_template": f"./check {pid} --replay {{path}}",
                "engine": "pyvc",
                "level_claimed": {"category": c.get("category", "proof"), "text": c["text"], "design_ref": c["ref"]},
                "level_note": c["note"],
                "technique": c.get("technique", TECH),
            })
    na = []
    for pid in props:
        if pid not in CLAIMED:
            na.append({"property_id": pid, "reason": NOT_APPLICABLE.get(pid, PENDING_REASON)})
    man = {
        "version": 1,
        "setup_cmd": "./setup.sh",
        "hooks": {
            "guard": "SEDENMARKLAB_MOLLI_VERIF",
            "enable": "no hooks: contracts are sidecar files under /verif/contracts; /repo is only read (ast.parse) and, for replay, imported",
            "baseline_off_cmd": BASE,
            "source_commits": [],
            "add_only": True,
        },
        "engines": [{
            "name": "pyvc", "path": "pyvc/",
            "serves_properties": sorted(CLAIMED),
            "kind_free_text": "purpose-built VC generator for Python: symbolic executor over the real AST of /repo (re-read every run), "
                              "sidecar contracts, z3 (primary) / cvc5 (takes z3 unknowns) / sympy (polynomial identities) back ends, "
                              "counterexample replay on the real code under /venv/bin/python",
        }],
        "checks": checks,
        "not_applicable": na,
        "notes": "Exit codes: 0 all obligations discharged; 1 VIOLATION (refuted obligation, replayed on the real code where a witness "
                 "exists); 2 undecided (ungenerable / solver unknown) -- never printed as a violation; 3 checker error. "
                 "Repairs of genuine defects are `fix:` commits in /repo listed in known_findings.json.",
    }
    json.dump(man, open(os.path.join(VERIF, "MANIFEST.json"), "w"), indent=1)
    try:
        import jsonschema
        jsonschema.validate(man, json.load(open("/root/.vp/MANIFEST.schema.json")))
        print("MANIFEST.json valid;", len(checks), "checks,", len(na), "not_applicable")
    except ImportError:
        print("MANIFEST.json written (jsonschema not available)")


if __name__ == "__main__":
    main()
