#!/bin/sh
# run every claimed check on the current tree (refreshes evidence/*.json); prints one summary line per property
cd "$(dirname "$0")/.."
git -C /repo status --short | grep -q . && echo "WARNING: /repo has uncommitted changes"
for id in $(python3 -c "import json;print(' '.join(c['property_id'] for c in json.load(open('MANIFEST.json'))['checks']))"); do
  ./check $id --tier ${1:-quick} 2>&1 | grep -E "^VIOLATION|^UNDECIDED|^CHECKER|^KNOWN|^$id:" | tail -5
done
