#!/bin/sh
# tools/seedall.sh [name-prefix] : regression over every stored seeded change.  Works on a scratch worktree (PYVC_REPO), never on /repo:
# applies seeded/<name>/patch.diff there, runs ./check <PROP> with scratch evidence, reverts, and records the verdict in meta.json
# ("our_check" = current verdict; the first recorded verdict is kept as "our_check_initial" when it differs).
# SEEDLIST=<file with seed names, one per line> restricts the run to those (used by tools/seedall_par.sh to run shards in parallel).
cd "$(dirname "$0")/.."
WT=/tmp/seedall_wt_$$
git -C /repo worktree add --detach $WT HEAD >/dev/null 2>&1 || exit 9
cp /repo/molli_xt*.so $WT/
export PYVC_REPO=$WT PYVC_SCRATCH_EVIDENCE=1
if [ -n "$SEEDLIST" ]; then DIRS=$(sed 's|^|seeded/|; s|$|/|' "$SEEDLIST"); else DIRS=$(ls -d seeded/${1:-}*/); fi
for d in $DIRS; do
  n=$(basename $d); prop=${n%%_*}
  git -C $WT apply $(pwd)/$d/patch.diff 2>/dev/null || { echo "$n: patch does not apply to the current tree"; continue; }
  ./check $prop > /tmp/seedall_out_$$ 2>&1; c=$?
  git -C $WT checkout -- .
  python3 - "$d/meta.json" "$c" /tmp/seedall_out_$$ <<'PY'
import json,sys
p,c,out=sys.argv[1:]
m=json.load(open(p))
new={"exit":int(c),"lines":[l.strip() for l in open(out) if l.startswith(("VIOLATION","UNDECIDED","CHECKER"))][:6]}
old=m.get("our_check")
if old and old.get("exit")!=new["exit"] and "our_check_initial" not in m:
    m["our_check_initial"]=old
m["our_check"]=new
json.dump(m,open(p,"w"),indent=1)
PY
  v=$(grep -c "^VIOLATION" /tmp/seedall_out_$$); rp=$(grep "^VIOLATION" /tmp/seedall_out_$$ | grep -vc "no-failing-input-found")
  echo "$n: exit=$c violations=$v replayed=$rp"
done
rm -f /tmp/seedall_out_$$
git -C /repo worktree remove --force $WT
