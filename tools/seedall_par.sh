#!/bin/sh
# tools/seedall_par.sh [shards=4] [name-prefix] : tools/seedall.sh over all stored seeds in parallel shards (one scratch worktree each).
# All seeds of one property stay in one shard (replay files under replays/<id>/ are per property, two concurrent runs of the same
# property would race on them); properties are dealt round-robin over the shards.  Output: one line per seed (as seedall.sh).
cd "$(dirname "$0")/.."
N=${1:-4}; PFX=${2:-}
T=$(mktemp -d)
for d in seeded/${PFX}*/; do n=$(basename $d); p=${n%%_*}; k=$(( $(echo $p | tr -dc 0-9 | sed 's/^0*//') % N )); echo $n >> $T/shard_$k; done
for f in $T/shard_*; do SEEDLIST=$f tools/seedall.sh > $f.out 2>&1 & done
wait
cat $T/shard_*.out | sort
rm -rf $T
