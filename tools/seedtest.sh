#!/bin/sh
# tools/seedtest.sh <PROP> <seed_dir> <name> : confirm a seeded change in a scratch worktree, then run our check against it on /repo
# (the check reads the scratch worktree through PYVC_REPO; /repo is not touched).
PROP=$1; SD=$2; NAME=$3
WT=/tmp/wt_confirm_$$
cd /verif
git -C /repo worktree add --detach $WT HEAD >/dev/null 2>&1 || exit 9
cp /repo/molli_xt*.so $WT/
export MOLLI_HOME=$(mktemp -d)
echo "== demo on clean tree"; (cd $WT && PYTHONPATH=$WT timeout 300 /venv/bin/python $SD/demo.py >/dev/null 2>&1); D0=$?
git -C $WT apply $SD/patch.diff || { echo "patch does not apply"; git -C /repo worktree remove --force $WT; exit 8; }
echo "== demo with change"; (cd $WT && PYTHONPATH=$WT timeout 300 /venv/bin/python $SD/demo.py >/tmp/demo_out_$$ 2>&1); D1=$?
echo "== tests with change"; T=$(cd $WT && PYTHONPATH=$WT /venv/bin/python -m pytest -q -p no:cacheprovider molli_test 2>&1 | tail -1)
echo "demo clean=$D0 changed=$D1 tests: $T"
# the check runs against the scratch worktree (PYVC_REPO), /repo itself is never modified
echo "== our check"; PYVC_REPO=$WT PYVC_SCRATCH_EVIDENCE=1 ./check $PROP > /tmp/check_out_$$ 2>&1; C=$?
git -C /repo worktree remove --force $WT
grep -E "^VIOLATION|^UNDECIDED|^CHECKER|^$PROP:" /tmp/check_out_$$ | head -8
echo "check exit=$C"
mkdir -p seeded/$NAME
cp $SD/patch.diff $SD/demo.py seeded/$NAME/
python3 - "$SD/meta.json" "seeded/$NAME/meta.json" "$D0" "$D1" "$T" "$C" "$PROP" /tmp/check_out_$$ <<'PY'
import json,sys
src,dst,d0,d1,t,c,prop,out=sys.argv[1:]
m=json.load(open(src)) if __import__('os').path.exists(src) else {}
m.update({"property":prop,"confirmed":{"demo_exit_clean_tree":int(d0),"demo_exit_with_change":int(d1),"tests_with_change":t,
  "ran":"tools/seedtest.sh (scratch worktree under /tmp, removed afterwards)"},
  "our_check":{"exit":int(c),"lines":[l.strip() for l in open(out) if l.startswith(("VIOLATION","UNDECIDED","CHECKER"))][:6]}})
json.dump(m,open(dst,"w"),indent=1)
PY
rm -f /tmp/check_out_$$ /tmp/demo_out_$$
