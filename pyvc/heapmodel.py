"""Symbolic references: objects that live in symbolic containers (Burstall-Bornat heap).

A reference is an Int id (SV ty ('ref', cls)); each (class, field) is a z3 array Id -> sort held
in state.heap.  Field sorts are declared by contracts via `declare_field`.
"""
from __future__ import annotations
import z3
from .values import *
from .ops import to_z3
from .state import sort_of

FIELD_TYPES = {}   # (classname, field) -> type tag  ('int','real','str','ref:<Class>', ('enum', cls) ...)


def declare_field(clsname, field, ty):
    FIELD_TYPES[(clsname, field)] = ty


def field_array(I, clsname, field):
    key = (clsname, field)
    if key not in I.st.heap:
        ty = FIELD_TYPES.get(key)
        if ty is None:
            raise Unsupported(f"heap field {clsname}.{field} not declared")
        I.st.heap[key] = I.st.fresh(f"H_{clsname}_{field}", z3.ArraySort(z3.IntSort(), sort_of(_norm(ty))))
    return I.st.heap[key]


def _norm(ty):
    if callable(ty):
        return ty()
    return ty


def field_owner(I, cls, name):
    for c in cls.mro:
        if (c.name, name) in FIELD_TYPES:
            return c.name
    return None


def wrap(I, ty, z):
    ty = _norm(ty)
    if isinstance(ty, tuple) and ty[0] == "optref":
        raise Unsupported("optref")
    return SV(z, ty)


def ref_getattr(I, r, name):
    cls = r.ty[1]
    owner = field_owner(I, cls, name)
    ca, cowner = cls.lookup(name)
    if isinstance(ca, PropertyV):
        return I.bind(ca, r, cls)
    if owner is not None:
        arr = field_array(I, owner, name)
        ty = _norm(FIELD_TYPES[(owner, name)])
        h = I.st.ghost.get(("ref_read", owner, name))
        z = z3.Select(arr, r.z)
        if h is not None:
            return h(I, r, z)
        return SV(z, ty)
    if cowner is not None:
        return I.bind(ca, r, cls)
    I.raise_py("AttributeError", f"{cls.name!r} object has no attribute {name!r}")


def ref_setattr(I, r, name, v):
    cls = r.ty[1]
    ca, cowner = cls.lookup(name)
    if isinstance(ca, PropertyV):
        if ca.fset is None:
            I.raise_py("AttributeError", f"property {name!r} has no setter")
        I.call(ca.fset, [r, v], {})
        return
    owner = field_owner(I, cls, name)
    if owner is None:
        raise Unsupported(f"heap field {cls.name}.{name} not declared")
    if cls.attrs_fields is not None:
        for f in cls.attrs_fields:
            if f.name == name:
                if f.on_setattr is not None:
                    v = I.call(f.on_setattr, [r, Opaque("attrs.Attribute", (name,)), v], {})
                elif f.converter is not None:
                    v = I.call(f.converter, [v], {})
                break
    h = I.st.ghost.get(("ref_write", owner, name))
    z = h(I, r, v) if h is not None else to_z3(v, "ref" if str(_norm(FIELD_TYPES[(owner, name)])).startswith("('ref") else None)
    arr = field_array(I, owner, name)
    I.st.heap[(owner, name)] = z3.Store(arr, r.z, z)
