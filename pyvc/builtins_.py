"""Builtins, attribute / item protocols and container methods of the executor."""
from __future__ import annotations
import ast, z3
from .values import *
from .ops import NOT_IMPLEMENTED, to_z3, pyclass_kind, num_kind, blen, bcat, bytes_const


class Unevaluated:
    def __init__(self, why):
        self.why = why


class CachedFunc:
    """functools.cache on a method/function: a repeated call with equal arguments is skipped."""

    def __init__(self, func):
        self.func = func
        self.name = getattr(func, "name", "cached")
        self.qual = getattr(func, "qual", None)

    def call(self, interp, args, kwargs):
        # one cache per decorated function (the wrapper object may be rebuilt when the global is looked up again)
        store = interp.st.ghost.setdefault(("cache", self.qual or id(self)), [])
        for (a, k, r) in store:
            if len(a) == len(args) and k.keys() == kwargs.keys():
                c = interp.and_(*[interp.eq(x, y) for x, y in zip(a, args)],
                                *[interp.eq(k[n], kwargs[n]) for n in k])
                if interp.st.branch(c, "cache-hit"):
                    return r
        r = interp.call(self.func, args, kwargs)
        store.append((list(args), dict(kwargs), r))
        return r


def _b(name, trusted=None):
    def deco(fn):
        return Builtin(name, fn, trusted)
    return deco


class BuiltinsMixin:
    # ------------------------------------------------------------------ attribute protocol
    def getattr_(self, o, name):
        if isinstance(o, Obj):
            if name in o.fields and name not in ("args",) or (name == "args" and "args" in o.fields):
                # data descriptors (properties) on the class take precedence
                ca, owner = o.cls.lookup(name)
                if isinstance(ca, PropertyV):
                    return self.bind(ca, o)
                return o.fields[name]
            ca, owner = o.cls.lookup(name)
            if ca is not None or owner is not None:
                return self.bind(ca, o)
            if name == "__class__":
                return o.cls
            if name == "__dict__":
                return B_ObjDict(o)
            if name == "__slots__" and o.cls.slots is not None:
                return o.cls.slots
            if name == "__slots__" and o.cls.attrs_fields is not None and o.cls.attrs_opts.get("slots", True):
                # attrs.define(slots=True): one slot per field (+ __weakref__ when weakref_slot=True, the default)
                return tuple(f.name for f in o.cls.attrs_fields) + (("__weakref__",) if o.cls.attrs_opts.get("weakref_slot", True) else ())
            ga, _ = o.cls.lookup("__getattr__")
            if ga is not None:
                return self.call(self.bind(ga, o), [name], {})
            h = self.obj_getattr_hook(o, name)
            if h is not NOT_IMPLEMENTED:
                return h
            self.raise_py("AttributeError", f"{o.cls.name!r} object has no attribute {name!r}")
        if isinstance(o, ClassV):
            ca, owner = o.lookup(name)
            if owner is not None:
                if isinstance(ca, (FuncV, Builtin, CachedFunc)):
                    return ca
                if isinstance(ca, ClassMethodV):
                    return BoundMethod(ca.func, o)
                if isinstance(ca, StaticMethodV):
                    return ca.func
                if isinstance(ca, Unevaluated):
                    raise Unsupported(f"class attribute {o.name}.{name}: {ca.why}")
                return ca
            if name == "__name__":
                return o.name
            if name == "__members__" and o.is_enum:
                return DictV(list(o.members.items()))
            if name == "_member_names_" and o.is_enum:
                seen, out = set(), []
                for n_, m_ in o.members.items():
                    if id(m_) not in seen:        # aliases are not listed
                        seen.add(id(m_))
                        out.append(n_)
                return ListV(out)
            if name == "__mro__":
                return tuple(o.mro)
            self.raise_py("AttributeError", f"type object {o.name!r} has no attribute {name!r}")
        if isinstance(o, SuperV):
            cls = self.type_of(o.self) if not isinstance(o.self, ClassV) else o.self
            ca, owner = cls.lookup(name, after=o.after)
            if owner is None:
                self.raise_py("AttributeError", f"'super' object has no attribute {name!r}")
            if isinstance(o.self, ClassV):
                if isinstance(ca, ClassMethodV):
                    return BoundMethod(ca.func, o.self)
                return ca
            return self.bind(ca, o.self, cls)
        if isinstance(o, ModuleV):
            try:
                return self.module_global(o.name, name)
            except KeyError:
                if self.repo.has_module(o.name + "." + name):
                    return ModuleV(o.name + "." + name)
                self.raise_py("AttributeError", f"module {o.name!r} has no attribute {name!r}")
        if isinstance(o, ExtModuleV):
            key = o.name + "." + name
            if key in self.ext_models:
                return self.ext_models[key]
            if any(k.startswith(key + ".") for k in self.ext_models):
                return ExtModuleV(key)
            raise Unsupported(f"no model for external name {key}")
        if isinstance(o, EnumVal):
            if name == "value":
                return o.value
            if name == "name":
                return o.name
            ca, owner = o.cls.lookup(name)
            if owner is not None:
                return self.bind(ca, o, o.cls)
            if o.cls.is_intenum:
                return self.getattr_(o.value, name)
            self.raise_py("AttributeError", name)
        if isinstance(o, SV) and isinstance(o.ty, tuple) and o.ty[0] == "enum":
            cls = o.ty[1]
            if name == "value":
                return SV(o.z, "int")
            if name == "name":
                return self.enum_name(o)
            ca, owner = cls.lookup(name)
            if owner is not None:
                return self.bind(ca, o, cls)
            self.raise_py("AttributeError", name)
        if isinstance(o, SV) and isinstance(o.ty, tuple) and o.ty[0] == "ref":
            return self.ref_getattr(o, name)
        if isinstance(o, Opaque):
            return Opaque("attr", (o, name))
        if isinstance(o, GenV):
            if name == "close":
                return Builtin("gen.close", lambda i, a, k: None)
        if isinstance(o, (GenV, IterV)) and name not in ("__next__", "__iter__", "send", "throw"):
            self.raise_py("AttributeError", f"'generator' object has no attribute {name!r}")
        m = self.method_table(o, name)
        if m is not None:
            return m
        if isinstance(o, FuncV) and name == "__name__":
            return o.name
        if isinstance(o, (FuncV, Builtin)) and name in ("__name__", "__qualname__"):
            return o.name
        if isinstance(o, Builtin) and name == "__doc__":
            return None
        if o is None or type(o) in (int, float, bool, str, bytes, tuple):
            self.raise_py("AttributeError", f"{type(o).__name__!r} object has no attribute {name!r}")
        raise Unsupported(f"attribute {name!r} of {o!r}")

    def obj_getattr_hook(self, o, name):
        return NOT_IMPLEMENTED

    def enum_name(self, sv):
        f = z3.Function(f"enum_name_{sv.ty[1].name}", z3.IntSort(), z3.StringSort())
        key = ("enum_name_axioms", sv.ty[1].name)
        if key not in self.st.ghost:
            self.st.ghost[key] = True
            seen = set()
            for m in sv.ty[1].members.values():
                if m.value in seen:
                    continue
                seen.add(m.value)
                self.st.assume(f(z3.IntVal(m.value)) == z3.StringVal(m.name))
        return SV(f(sv.z), "str")

    def hasattr_(self, o, name):
        try:
            self.getattr_(o, name)
            return True
        except PyExc as e:
            if e.value.cls.issub(self.builtins["AttributeError"]):
                return False
            raise

    def setattr_(self, o, name, v):
        if isinstance(o, Obj):
            ca, owner = o.cls.lookup(name)
            if isinstance(ca, PropertyV):
                if ca.fset is None:
                    self.raise_py("AttributeError", f"property {name!r} has no setter")
                self.call(ca.fset, [o, v], {})
                return
            if o.cls.attrs_fields is not None:
                if o.cls.attrs_opts.get("frozen"):
                    self.raise_py("FrozenInstanceError")
                for f in o.cls.attrs_fields:
                    if f.name == name:
                        if f.on_setattr is not None:
                            v = self.call(f.on_setattr, [o, Opaque("attrs.Attribute", (name,)), v], {})
                        elif f.converter is not None and o.cls.attrs_opts.get("__define__", True):
                            # attrs.define: converters run on setattr by default
                            v = self.call(f.converter, [v], {})
                        break
            sa, sowner = o.cls.lookup("__setattr__")
            if sa is not None and not sowner.builtin:
                self.call(self.bind(sa, o), [name, v], {})
                return
            if o.cls.slots is not None and not self.has_dict(o.cls):
                allowed = set()
                for c in o.cls.mro:
                    if c.slots:
                        allowed |= set(c.slots)
                    if c.attrs_fields:
                        allowed |= {f.name for f in c.attrs_fields}
                if name not in allowed:
                    self.raise_py("AttributeError", f"{o.cls.name!r} object has no attribute {name!r}")
            o.fields[name] = v
            return
        if isinstance(o, SV) and isinstance(o.ty, tuple) and o.ty[0] == "ref":
            return self.ref_setattr(o, name, v)
        if isinstance(o, ClassV):
            o.ns[name] = v
            return
        raise Unsupported(f"setattr on {o!r}")

    def has_dict(self, cls):
        for c in cls.mro:
            if c.builtin:
                continue
            if c.slots is None and not (c.attrs_fields is not None and c.attrs_opts.get("slots", True)):
                return True
        return False

    def delattr_(self, o, name):
        if isinstance(o, Obj) and name in o.fields:
            del o.fields[name]
            return
        self.raise_py("AttributeError", name)

    # ------------------------------------------------------------------ isinstance
    def isinstance_(self, v, cls):
        """-> bool (static types are known)"""
        if isinstance(cls, tuple):
            return any(self.isinstance_(v, c) for c in cls)
        if isinstance(cls, Opaque) and cls.head == "UnionType":
            return any(self.isinstance_(v, c) for c in cls.args if c is not None) or (v is None and None in cls.args)
        if not isinstance(cls, ClassV):
            raise Unsupported(f"isinstance against {cls!r}")
        if isinstance(v, Opaque):
            raise Unsupported(f"isinstance of opaque value {v!r}")
        try:
            t = self.type_of(v)
        except Unsupported:
            return False
        return t.issub(cls)

    # ------------------------------------------------------------------ iteration
    def iterate(self, v):
        """python-level iterator over a value with concrete spine"""
        if isinstance(v, (tuple, list)):
            return iter(v)
        if isinstance(v, ListV):
            return self._iter_list(v)
        if isinstance(v, SetV):
            return iter(list(v.items))
        if isinstance(v, DictV):
            return iter(list(v.keys))
        if isinstance(v, str):
            return iter(v)
        if isinstance(v, bytes):
            return iter(v)
        if isinstance(v, IterV):
            return v.it
        if isinstance(v, GenV):
            return self._iter_gen(v)
        if isinstance(v, NdArr) and v.data is not None:
            return iter([_nd_wrap(r) for r in v.data])
        if isinstance(v, Obj):
            if v.tag == "range":
                a = v.fields["args"]
                if all(isinstance(x, int) for x in a):
                    return iter(range(*a))
                raise Unsupported("iteration over symbolic range")
            if v.tag == "deque":
                return iter(list(v.fields["items"]))
            if v.tag == "dict_keys":
                return self.iterate(v.fields["d"])
            if v.tag == "dict_values":
                return iter(list(v.fields["d"].vals))
            if v.tag == "dict_items":
                d = v.fields["d"]
                return iter(list(zip(d.keys, d.vals)))
            f, _ = v.cls.lookup("__iter__")
            if f is not None:
                it = self.call(self.bind(f, v), [], {})
                if it is v:
                    return self._iter_next(v)
                return self.iterate(it)
        if isinstance(v, ClassV) and v.is_enum:
            seen, out = set(), []
            for m in v.members.values():
                if id(m) not in seen:
                    seen.add(id(m))
                    out.append(m)
            return iter(out)
        if isinstance(v, (SymSeq, SymMap)):
            raise Unsupported("iteration over symbolic-length container (needs an invariant or a rule)")
        if v is None or type(v) in (int, float, bool) or (isinstance(v, SV) and v.ty in ("int", "real", "bool")):
            self.raise_py("TypeError", f"cannot unpack / iterate non-iterable {pyclass_kind(v)} object")
        raise Unsupported(f"iteration over {v!r}")

    def _iter_list(self, v):
        i = 0
        while i < len(v.items):
            yield v.items[i]
            i += 1

    def _iter_gen(self, g):
        while True:
            try:
                yield self.gen_next(g)
            except PyExc as e:
                if e.value.cls.issub(self.builtins["StopIteration"]):
                    return
                raise

    def _iter_next(self, o):
        nx, _ = o.cls.lookup("__next__")
        while True:
            try:
                yield self.call(self.bind(nx, o), [], {})
            except PyExc as e:
                if e.value.cls.issub(self.builtins["StopIteration"]):
                    return
                raise

    def gen_next(self, g: GenV, throw=None):
        if g.done:
            self.raise_py("StopIteration")
        try:
            g.started = True
            if throw is not None:
                return g.pygen.throw(throw)
            return next(g.pygen)
        except StopIteration as e:
            g.done = True
            raise PyExc(self.make_exc("StopIteration", e.value))
        except PyExc as e:
            g.done = True
            if e.value.cls.issub(self.builtins["StopIteration"]):
                # PEP 479
                raise PyExc(self.make_exc("RuntimeError", "generator raised StopIteration"))
            raise
        except (PathEnd, Unsupported):
            g.done = True
            raise

    # ------------------------------------------------------------------ containers
    def make_set(self, items, frozen=False):
        s = SetV([], frozen)
        for x in items:
            self.set_add(s, x)
        return s

    def set_add(self, s, x):
        for y in s.items:
            if self.st.branch(self.eq(x, y), "set-dup"):
                return
        s.items.append(x)

    def set_union(self, a, b):
        s = SetV(list(a.items), a.frozen)
        for x in b.items:
            self.set_add(s, x)
        return s

    def set_diff(self, a, b):
        out = []
        for x in a.items:
            if not self.st.branch(self.contains(b, x), "set-diff"):
                out.append(x)
        return SetV(out, a.frozen)

    def dict_find(self, d: DictV, k):
        for i, kk in enumerate(d.keys):
            if self.st.branch(self.eq(k, kk), "dict-key"):
                return i
        return -1

    def dict_set(self, d, k, v):
        self.check_hashable(k)
        i = self.dict_find(d, k)
        if i >= 0:
            d.vals[i] = v
        else:
            d.keys.append(k)
            d.vals.append(v)

    def check_hashable(self, k):
        if isinstance(k, (ListV, DictV, SetV)) and not (isinstance(k, SetV) and k.frozen):
            self.raise_py("TypeError", "unhashable type")

    def dict_union(self, a, b):
        d = DictV(list(zip(a.keys, a.vals)))
        for k, v in zip(b.keys, b.vals):
            self.dict_set(d, k, v)
        return d

    def contains(self, c, x):
        if isinstance(c, (tuple, ListV, SetV)):
            items = c if isinstance(c, tuple) else c.items
            return self.or_(*[self.eq(x, y) for y in items])
        if isinstance(c, DictV):
            return self.or_(*[self.eq(x, y) for y in c.keys])
        if isinstance(c, str) and isinstance(x, str):
            return x in c
        if pyclass_kind(c) == "str" and pyclass_kind(x) == "str":
            return z3.Contains(to_z3(c), to_z3(x))
        if isinstance(c, Obj):
            if c.tag in ("dict_keys",):
                return self.contains(c.fields["d"], x)
            if c.tag == "deque":
                return self.or_(*[self.eq(x, y) for y in c.fields["items"]])
            if c.tag == "range":
                a = c.fields["args"]
                if pyclass_kind(x) not in ("int", "bool"):
                    if pyclass_kind(x) in ("str", "bytes", "none"):
                        return False
                    raise Unsupported("`in range(...)` on a non-integer")
                if len(a) == 1:
                    return self.and_(self.compare(ast.LtE(), 0, x), self.compare(ast.Lt(), x, a[0]))
                if len(a) == 2 or (len(a) == 3 and type(a[2]) is int and a[2] == 1):
                    return self.and_(self.compare(ast.LtE(), a[0], x), self.compare(ast.Lt(), x, a[1]))
                if len(a) == 3 and all(type(v_) is int for v_ in a):
                    return self.or_(*[self.eq(x, v_) for v_ in range(*a)])
            f, _ = c.cls.lookup("__contains__")
            if f is not None:
                return self.truth(self.call(self.bind(f, c), [x], {}))
            f, _ = c.cls.lookup("__iter__")
            if f is not None:
                return self.or_(*[self.eq(x, y) for y in self.iterate(c)])
        if isinstance(c, SymSeq):
            from . import seqmodel
            return seqmodel.contains(self, c, x)
        if isinstance(c, SymMap):
            return z3.Select(c.has, to_z3(x))
        if isinstance(c, SymSet):
            if pyclass_kind(x) != c.elem_ty:
                return False
            return z3.Select(c.has, to_z3(x))
        if isinstance(c, Obj) and c.tag == "symmap_keys":
            return self.contains(c.fields["m"], x)
        if isinstance(c, (IterV, GenV)):
            return self.or_(*[self.eq(x, y) for y in self.iterate(c)])
        raise Unsupported(f"`in` on {c!r}")

    def sym_len(self, v):
        if isinstance(v, SymSeq):
            return v.n
        if isinstance(v, NdArr):
            return v.n
        if isinstance(v, Obj) and v.tag == "range":
            a = v.fields["args"]
            if len(a) == 1:
                n = to_z3(a[0], "int")
                return z3.If(n > 0, n, 0)
            if len(a) == 2:
                n = to_z3(a[1], "int") - to_z3(a[0], "int")
                return z3.If(n > 0, n, 0)
        raise Unsupported(f"symbolic length of {v!r}")

    def sym_getitem(self, v, k):
        if isinstance(v, SymSeq):
            return SV(z3.Select(v.arr, k), v.elem_ty) if not callable(v.elem_ty) else v.elem_ty(self, z3.Select(v.arr, k))
        if isinstance(v, Obj) and v.tag == "range":
            a = v.fields["args"]
            if len(a) == 1:
                return SV(k, "int")
            if len(a) == 2:
                return SV(to_z3(a[0], "int") + k, "int")
        raise Unsupported(f"symbolic indexing of {v!r}")

    def seq_copy(self, v):
        return SymSeq(v.arr, v.n, v.elem_ty, "list")

    def len_(self, v):
        if isinstance(v, (tuple, str, bytes)):
            return len(v)
        if type(v).__name__ == "SStr":
            raise Unsupported("len() of a structured string")
        if isinstance(v, (ListV, SetV)):
            return len(v.items)
        if isinstance(v, DictV):
            return len(v.keys)
        if isinstance(v, SymSeq):
            return SV(v.n, "int")
        if isinstance(v, SV):
            if v.ty == "str":
                return SV(z3.Length(v.z), "int")
            if v.ty == "bytes":
                return SV(blen(v.z), "int")
        if isinstance(v, NdArr):
            if v.data is not None:
                return len(v.data)
            return v.n if isinstance(v.n, int) else SV(v.n, "int")
        if isinstance(v, Obj):
            if v.tag == "deque":
                return len(v.fields["items"])
            if v.tag in ("dict_keys", "dict_values", "dict_items"):
                return self.len_(v.fields["d"])
            if v.tag == "symmap_keys":
                return self.len_(v.fields["m"])
            if v.tag == "range":
                a = v.fields["args"]
                if all(isinstance(x, int) for x in a):
                    return len(range(*a))
                return SV(self.sym_len(v), "int")
            f, _ = v.cls.lookup("__len__")
            if f is not None:
                return self.call(self.bind(f, v), [], {})
        if isinstance(v, (SymMap, SymSet)) or (isinstance(v, Obj) and v.tag == "symmap_keys"):
            has = v.fields["m"].has if isinstance(v, Obj) else v.has
            card = z3.Function(f"card[{has.sort()}]", has.sort(), z3.IntSort())
            self.st.assume(card(has) >= 0)
            return SV(card(has), "int")
        self.raise_py("TypeError", f"object of type {pyclass_kind(v)} has no len()")

    # ------------------------------------------------------------------ items
    def norm_index(self, i, n):
        """python index normalisation on a concrete-length container; returns python int"""
        if isinstance(i, EnumVal) and i.cls.is_intenum:
            i = i.value
        if isinstance(i, bool):
            i = int(i)
        if isinstance(i, int):
            if i < -n or i >= n:
                self.raise_py("IndexError", "index out of range")
            return i % n if n else 0
        if isinstance(i, SV) and num_kind(i) == "int":
            z = to_z3(i, "int")
            for j in range(n):
                if self.st.branch(z3.Or(z == j, z == j - n), f"idx=={j}"):
                    return j
            self.raise_py("IndexError", "index out of range")
        self.raise_py("TypeError", f"indices must be integers, not {pyclass_kind(i)}")

    def getitem(self, o, i):
        if isinstance(o, (tuple, ListV)):
            items = o if isinstance(o, tuple) else o.items
            if isinstance(i, slice):
                sl = self.conc_slice(i, len(items))
                r = list(items)[sl]
                return tuple(r) if isinstance(o, tuple) else ListV(r)
            return items[self.norm_index(i, len(items))]
        if isinstance(o, DictV):
            self.check_hashable(i)
            j = self.dict_find(o, i)
            if j < 0:
                self.raise_py("KeyError", i)
            return o.vals[j]
        if isinstance(o, (str, bytes)) and (isinstance(i, (int, slice)) and not isinstance(i, SV)):
            if isinstance(i, slice):
                return o[self.conc_slice(i, len(o))]
            return o[self.norm_index(i, len(o))]
        if pyclass_kind(o) == "str":
            return self.str_getitem(o, i)
        if pyclass_kind(o) == "bytes":
            return self.bytes_getitem(o, i)
        if isinstance(o, SymSeq):
            from . import seqmodel
            return seqmodel.getitem(self, o, i)
        if isinstance(o, SymMap):
            from . import seqmodel
            return seqmodel.map_get(self, o, i)
        if isinstance(o, NdArr):
            from . import npmodel
            return npmodel.getitem(self, o, i)
        if isinstance(o, ClassV):
            if o.is_enum:
                if isinstance(i, str):
                    if i in o.members:
                        return o.members[i]
                    self.raise_py("KeyError", i)
                return self.enum_by_name(o, i)
            return o  # generic alias  e.g. set[str]
        if isinstance(o, Opaque):
            return Opaque("item", (o, i))
        if isinstance(o, Obj):
            if o.tag == "deque":
                items = o.fields["items"]
                return items[self.norm_index(i, len(items))]
            if o.tag == "rematch":
                return o.fields["groups"][i]
            if o.tag == "range":
                ra = o.fields["args"]
                if not all(isinstance(x, int) for x in ra):
                    raise Unsupported("subscript of a symbolic range")
                r_ = range(*ra)
                if isinstance(i, slice):
                    return ListV(list(r_)[self.conc_slice(i, len(r_))])
                if isinstance(i, EnumVal) and i.cls.is_intenum:
                    i = i.value
                if isinstance(i, SV):
                    if not (isinstance(i.ty, tuple) or i.ty in ("int", "bool")):
                        self.raise_py("TypeError", "range indices must be integers or slices")
                    zi = to_z3(i, "int")
                    n_ = len(r_)
                    if self.st.branch(z3.Or(zi < -n_, zi >= n_), "range-index-out-of-range"):
                        self.raise_py("IndexError", "range object index out of range")
                    zi = z3.If(zi < 0, zi + n_, zi)
                    return SV(r_.start + r_.step * zi, "int")
                if not isinstance(i, int):
                    self.raise_py("TypeError", "range indices must be integers or slices")
                try:
                    return r_[i]
                except IndexError:
                    self.raise_py("IndexError", "range object index out of range")
            f, _ = o.cls.lookup("__getitem__")
            if f is not None:
                return self.call(self.bind(f, o), [i], {})
        raise Unsupported(f"subscript of {o!r}")

    def enum_by_name(self, cls, s):
        raise Unsupported(f"{cls.name}[symbolic name]")

    def conc_slice(self, sl, n):
        def c(x):
            if isinstance(x, EnumVal):
                x = x.value
            if x is None or isinstance(x, int):
                return x
            if isinstance(x, SV) and x.ty in ("int", "bool"):
                # a symbolic bound on a sequence of known length n: only the values -n-1 .. n+1 behave differently from each other
                # (anything beyond clamps like the nearest of them) -> decide by path splitting
                for c_ in list(range(0, n + 1)) + list(range(-1, -n - 1, -1)):
                    if self.st.branch(x.z == c_, f"slice bound == {c_}"):
                        return c_
                if self.st.branch(x.z > n, "slice bound beyond the end"):
                    return n + 1
                return -n - 1
            raise Unsupported("symbolic slice bound on concrete sequence")
        return slice(c(sl.start), c(sl.stop), c(sl.step))

    def str_getitem(self, o, i):
        z = to_z3(o)
        if isinstance(i, slice):
            if i.step is not None:
                raise Unsupported("string slice step")
            n = z3.Length(z)
            lo = 0 if i.start is None else to_z3(i.start, "int")
            hi = n if i.stop is None else to_z3(i.stop, "int")
            if isinstance(lo, int) or True:
                lo_ = lo if not isinstance(lo, int) else z3.IntVal(lo)
            lo_ = z3.If(lo_ < 0, z3.If(lo_ + n < 0, 0, lo_ + n), z3.If(lo_ > n, n, lo_))
            hi_ = hi if not isinstance(hi, int) else z3.IntVal(hi)
            hi_ = z3.If(hi_ < 0, z3.If(hi_ + n < 0, 0, hi_ + n), z3.If(hi_ > n, n, hi_))
            return SV(z3.SubString(z, lo_, z3.If(hi_ > lo_, hi_ - lo_, 0)), "str")
        zi = to_z3(i, "int")
        n = z3.Length(z)
        if not self.st.branch(z3.And(zi >= -n, zi < n), "str-index-ok"):
            self.raise_py("IndexError", "string index out of range")
        zi = z3.If(zi < 0, zi + n, zi)
        return SV(z3.SubString(z, zi, 1), "str")

    def bytes_startswith(self, o, prefix):
        from .filemodel import bz
        f = z3.Function("bytes_startswith", BytesS, BytesS, z3.BoolSort())
        return SV(f(bz(o), bz(prefix)), "bool")

    def bytes_getitem(self, o, i):
        from .filemodel import bslice, bz
        z = bz(o)
        n = blen(z)
        if isinstance(i, slice):
            if i.step is not None:
                raise Unsupported("bytes slice step")

            def clamp(x, default):
                if x is None:
                    return default
                zx = to_z3(x, "int")
                return z3.If(zx < 0, z3.If(zx + n < 0, 0, zx + n), z3.If(zx > n, n, zx))
            lo = clamp(i.start, z3.IntVal(0))
            hi = clamp(i.stop, n)
            return SV(bslice(z, lo, z3.If(hi > lo, hi - lo, 0)), "bytes")
        raise Unsupported("indexing a single byte of symbolic bytes")

    def setitem(self, o, i, v):
        if isinstance(o, ListV):
            if isinstance(i, slice):
                sl = self.conc_slice(i, len(o.items))
                o.items[sl] = list(self.iterate(v))
                return
            o.items[self.norm_index(i, len(o.items))] = v
            return
        if isinstance(o, DictV):
            self.dict_set(o, i, v)
            return
        if isinstance(o, SymMap):
            from . import seqmodel
            return seqmodel.map_set(self, o, i, v)
        if isinstance(o, SymSeq):
            from . import seqmodel
            return seqmodel.setitem(self, o, i, v)
        if isinstance(o, NdArr):
            from . import npmodel
            return npmodel.setitem(self, o, i, v)
        if isinstance(o, Obj):
            f, _ = o.cls.lookup("__setitem__")
            if f is not None:
                self.call(self.bind(f, o), [i, v], {})
                return
        if isinstance(o, tuple):
            self.raise_py("TypeError", "'tuple' object does not support item assignment")
        raise Unsupported(f"item assignment on {o!r}")

    def delitem(self, o, i):
        if isinstance(o, ListV):
            if isinstance(i, slice):
                del o.items[self.conc_slice(i, len(o.items))]
            else:
                del o.items[self.norm_index(i, len(o.items))]
            return
        if isinstance(o, DictV):
            j = self.dict_find(o, i)
            if j < 0:
                self.raise_py("KeyError", i)
            del o.keys[j]
            del o.vals[j]
            return
        if isinstance(o, SymSeq):
            from . import seqmodel
            return seqmodel.delitem(self, o, i)
        if isinstance(o, Obj):
            f, _ = o.cls.lookup("__delitem__")
            if f is not None:
                self.call(self.bind(f, o), [i], {})
                return
        raise Unsupported(f"del item on {o!r}")

    # ------------------------------------------------------------------ strings
    def str_concat(self, parts):
        if all(isinstance(p, str) for p in parts):
            return "".join(parts)
        from . import textmodel
        if any(isinstance(p, textmodel.SStr) for p in parts):
            return textmodel.concat([p if isinstance(p, (str, textmodel.SStr)) else textmodel.SStr([textmodel.Tok("str", p)]) for p in parts])
        zs = [to_z3(p) for p in parts if not (isinstance(p, str) and p == "")]
        if len(zs) == 1:
            return SV(zs[0], "str")
        return SV(z3.Concat(*zs), "str")

    def format_value(self, v, conv, spec):
        if spec is not None and not isinstance(spec, str):
            raise Unsupported("symbolic format spec")
        from . import textmodel
        tm = textmodel.make(self, v, conv, spec)
        if tm is not None:
            return tm
        if _is_conc(v):
            x = v.value if isinstance(v, EnumVal) and v.cls.is_intenum and spec else v
            if isinstance(v, EnumVal) and not spec:
                if conv == ord("r"):
                    return f"<{v.cls.name}.{v.name}: {v.value!r}>"
                return str(v.value) if v.cls.is_intenum else f"{v.cls.name}.{v.name}"
            if conv == ord("r"):
                x = repr(x)
            elif conv == ord("s"):
                x = str(x)
            elif conv == ord("a"):
                x = ascii(x)
            try:
                return format(x, spec or "")
            except (ValueError, TypeError) as e:
                self.raise_py(type(e).__name__, str(e))
        if isinstance(v, SV) and v.ty == "str" and conv in (-1, ord("s")) and not spec:
            return v
        return self.format_sym(v, conv, spec)

    def format_sym(self, v, conv, spec):
        """symbolic formatting: uninterpreted function of the value, keyed by conversion+spec"""
        if isinstance(v, SV):
            f = z3.Function(f"fmt[{chr(conv) if conv > 0 else ''}|{spec or ''}|{v.z.sort()}]", v.z.sort(), z3.StringSort())
            return SV(f(v.z), "str")
        key = ("fmtobj", id(v), conv, spec)
        if key not in self.st.ghost:
            self.st.ghost[key] = self.st.fresh_sv("fmtobj", "str")
        return self.st.ghost[key]

    # ------------------------------------------------------------------ method tables
    def method_table(self, o, name):
        from . import methods
        return methods.lookup(self, o, name)

    # hooks for symbolic refs (overridden by heap model)
    def ref_getattr(self, r, name):
        from . import heapmodel
        return heapmodel.ref_getattr(self, r, name)

    def ref_setattr(self, r, name, v):
        from . import heapmodel
        return heapmodel.ref_setattr(self, r, name, v)


class B_ObjDict(DictV):
    """live view of an instance __dict__: the attributes that are NOT stored in a slot declared by a class of the MRO"""
    def __init__(self, o):
        self.obj = o
        self.oid = -o.oid

    def _slot_names(self):
        names = set()
        for c in getattr(self.obj.cls, "mro", []) or []:
            sl = getattr(c, "slots", None)
            if sl is None and isinstance(getattr(c, "ns", None), dict) and isinstance(c.ns.get("__slots__"), (tuple, list)):
                sl = c.ns["__slots__"]
            if sl:
                names |= {x for x in sl if isinstance(x, str)}
        return names

    @property
    def keys(self):
        sn = self._slot_names()
        return [k for k in self.obj.fields.keys() if k not in sn]

    @property
    def vals(self):
        sn = self._slot_names()
        return [v for k, v in self.obj.fields.items() if k not in sn]


def _nd_wrap(r):
    if isinstance(r, list):
        from . import npmodel
        return npmodel.mk(r)
    return r


def _is_conc(v):
    return v is None or type(v) in (int, float, bool, str, bytes) or isinstance(v, EnumVal)


# ====================================================================== builtin namespace
def make_builtins(interp):
    ns = {}
    obj = ClassV("object", builtin=True)
    obj.mro = [obj]
    ns["object"] = obj

    def mk(name, *bases):
        c = ClassV(name, builtin=True, bases=[ns[b] for b in bases] if bases else [obj])
        c.compute_mro()
        ns[name] = c
        return c

    for t in ("type", "int", "float", "str", "bytes", "list", "tuple", "dict", "set", "frozenset", "NoneType",
              "function", "generator", "ndarray", "deque", "complex", "bytearray", "slice", "range_t"):
        mk(t)
    mk("bool", "int")
    mk("BaseException")
    mk("Exception", "BaseException")
    mk("GeneratorExit", "BaseException")
    mk("KeyboardInterrupt", "BaseException")
    mk("SystemExit", "BaseException")
    for n, b in [("ArithmeticError", "Exception"), ("ZeroDivisionError", "ArithmeticError"), ("OverflowError", "ArithmeticError"),
                 ("AssertionError", "Exception"), ("AttributeError", "Exception"), ("EOFError", "Exception"),
                 ("ImportError", "Exception"), ("ModuleNotFoundError", "ImportError"),
                 ("LookupError", "Exception"), ("IndexError", "LookupError"), ("KeyError", "LookupError"),
                 ("NameError", "Exception"), ("UnboundLocalError", "NameError"),
                 ("OSError", "Exception"), ("FileNotFoundError", "OSError"), ("FileExistsError", "OSError"),
                 ("PermissionError", "OSError"), ("TimeoutError", "OSError"), ("IsADirectoryError", "OSError"),
                 ("RuntimeError", "Exception"), ("NotImplementedError", "RuntimeError"), ("RecursionError", "RuntimeError"),
                 ("StopIteration", "Exception"), ("SyntaxError", "Exception"), ("TypeError", "Exception"),
                 ("ValueError", "Exception"), ("UnicodeError", "ValueError"), ("UnicodeDecodeError", "UnicodeError"),
                 ("UnicodeEncodeError", "UnicodeError"),
                 ("Warning", "Exception"), ("DeprecationWarning", "Warning"), ("UserWarning", "Warning"),
                 ("SyntaxWarning", "Warning"), ("RuntimeWarning", "Warning"), ("FutureWarning", "Warning"), ("ResourceWarning", "Warning"),
                 ("FrozenInstanceError", "AttributeError"), ("struct.error", "Exception")]:
        mk(n, b)
    ns["IOError"] = ns["OSError"]
    ns["EnvironmentError"] = ns["OSError"]
    mk("UnsupportedOperation", "OSError", "ValueError")

    def exc_init(i, a, k):
        a[0].fields["args"] = tuple(a[1:])
        return None
    ns["BaseException"].ns["__init__"] = Builtin("BaseException.__init__", exc_init)
    ns["BaseException"].ns["__str__"] = Builtin("BaseException.__str__",
                                                lambda i, a, k: i.str_(a[0].fields["args"][0]) if len(a[0].fields.get("args", ())) == 1 else "exc")

    # enum bases
    en = mk("Enum")
    en.is_enum = True
    ie = mk("IntEnum", "int", "Enum")
    ie.is_enum = True
    ie.is_intenum = True
    ifl = mk("IntFlag", "int", "Enum")
    ifl.is_enum = True
    ifl.is_intenum = True

    # generator-based context manager
    gcm = mk("_GeneratorContextManager")

    def gcm_enter(i, a, k):
        g = a[0].fields["gen"]
        try:
            return i.gen_next(g)
        except PyExc as e:
            if e.value.cls.issub(ns["StopIteration"]):
                i.raise_py("RuntimeError", "generator didn't yield")
            raise

    def gcm_exit(i, a, k):
        g = a[0].fields["gen"]
        typ, val = a[1], a[2]
        if typ is None:
            try:
                i.gen_next(g)
            except PyExc as e:
                if e.value.cls.issub(ns["StopIteration"]):
                    return False
                raise
            i.raise_py("RuntimeError", "generator didn't stop")
        try:
            i.gen_next(g, throw=PyExc(val))
        except PyExc as e:
            if e.value is val:
                return False
            if e.value.cls.issub(ns["StopIteration"]):
                return True
            raise
        i.raise_py("RuntimeError", "generator didn't stop after throw()")

    gcm.ns["__enter__"] = Builtin("gcm.__enter__", gcm_enter)
    gcm.ns["__exit__"] = Builtin("gcm.__exit__", gcm_exit)

    from . import builtin_funcs
    builtin_funcs.install(interp, ns)
    return ns
