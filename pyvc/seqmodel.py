"""Sequences / maps of unknown size in the array property fragment (DESIGN 2.3).

Every mutating operation is introduced by its *definition* as a universally quantified formula
over a fresh array, e.g. remove_at(L, i):  n' = n-1, forall j<i. L'[j]=L[j], forall j>=i. L'[j]=L[j+1].
Membership / index are introduced by a conservative skolem extension (first index or -1).
"""
from __future__ import annotations
import ast, z3
from .values import *
from .ops import to_z3, pyclass_kind, NOT_IMPLEMENTED
from .state import sort_of


def elem_sort(seq):
    return seq.arr.sort().range()


def mk_elem(I, seq, z):
    return seq.elem_ty(I, z) if callable(seq.elem_ty) else SV(z, seq.elem_ty)


def elem_z(I, seq, v):
    return to_z3(v)


def fresh_seq(I, name, elem_ty, kind="list", sort=None):
    st = I.st
    s = sort if sort is not None else sort_of(elem_ty)
    arr = st.fresh(name, z3.ArraySort(z3.IntSort(), s))
    n = st.fresh(name + "_len", z3.IntSort())
    st.assume(n >= 0)
    return SymSeq(arr, n, elem_ty, kind)


def find_first(I, seq, pred_z, what="find"):
    """conservative extension: i = first index with pred, or -1.  pred_z: z3 elem -> z3 Bool"""
    st = I.st
    i = st.fresh(f"{what}_idx", z3.IntSort())
    j = z3.Int(st.fresh_name("j"))
    found = z3.And(i >= 0, i < seq.n, pred_z(z3.Select(seq.arr, i)),
                   z3.ForAll([j], z3.Implies(z3.And(j >= 0, j < i), z3.Not(pred_z(z3.Select(seq.arr, j))))))
    none = z3.And(i == -1, z3.ForAll([j], z3.Implies(z3.And(j >= 0, j < seq.n), z3.Not(pred_z(z3.Select(seq.arr, j))))))
    st.assume(z3.Or(found, none))
    return i


def index_of(I, seq, x):
    zx = to_z3(x)
    if zx.sort() != elem_sort(seq):
        return z3.IntVal(-1)
    return find_first(I, seq, lambda e: e == zx, "index")


def contains(I, seq, x):
    if not _compatible(seq, x):
        return False
    i = index_of(I, seq, x)
    return i >= 0


def _compatible(seq, x):
    try:
        return to_z3(x).sort() == elem_sort(seq)
    except Unsupported:
        return False


def norm_index(I, seq, i):
    """python index normalisation with IndexError"""
    zi = to_z3(i, "int")
    ok = z3.And(zi >= -seq.n, zi < seq.n)
    if not I.st.branch(ok, "index-in-range"):
        I.raise_py("IndexError", "list index out of range")
    neg = I.st.branch(zi < 0, "index-negative") if not z3.is_int_value(z3.simplify(zi)) else z3.simplify(zi).as_long() < 0
    return zi + seq.n if neg else zi


def getitem(I, seq, i):
    if isinstance(i, slice):
        return slice_(I, seq, i)
    if pyclass_kind(i) not in ("int", "bool") and not (isinstance(pyclass_kind(i), tuple) and pyclass_kind(i)[0] == "enum" and pyclass_kind(i)[1].is_intenum):
        I.raise_py("TypeError", "list indices must be integers or slices")
    zi = norm_index(I, seq, i)
    return mk_elem(I, seq, z3.Select(seq.arr, zi))


def slice_(I, seq, sl):
    st = I.st
    if sl.step is not None and sl.step != 1:
        raise Unsupported("slice step on symbolic sequence")
    n = seq.n

    def clamp(x, default):
        if x is None:
            return default
        z = to_z3(x, "int")
        return z3.If(z < 0, z3.If(z + n < 0, 0, z + n), z3.If(z > n, n, z))
    lo = clamp(sl.start, z3.IntVal(0))
    hi = clamp(sl.stop, n)
    out = fresh_seq(I, "slice", seq.elem_ty, seq.kind, elem_sort(seq))
    j = z3.Int(st.fresh_name("j"))
    st.assume(out.n == z3.If(hi > lo, hi - lo, 0))
    st.assume(z3.ForAll([j], z3.Implies(z3.And(j >= 0, j < out.n), z3.Select(out.arr, j) == z3.Select(seq.arr, lo + j))))
    return out


def setitem(I, seq, i, v):
    if seq.kind == "tuple":
        I.raise_py("TypeError", "'tuple' object does not support item assignment")
    if isinstance(i, slice):
        raise Unsupported("slice assignment on symbolic sequence")
    zi = norm_index(I, seq, i)
    seq.arr = z3.Store(seq.arr, zi, elem_z(I, seq, v))


def delitem(I, seq, i):
    if isinstance(i, slice):
        raise Unsupported("del slice on symbolic sequence")
    zi = norm_index(I, seq, i)
    remove_at(I, seq, zi)


def remove_at(I, seq, zi):
    st = I.st
    new = st.fresh("rm", seq.arr.sort())
    j = z3.Int(st.fresh_name("j"))
    st.assume(z3.ForAll([j], z3.Implies(z3.And(j >= 0, j < zi), z3.Select(new, j) == z3.Select(seq.arr, j))))
    st.assume(z3.ForAll([j], z3.Implies(z3.And(j >= zi, j < seq.n - 1), z3.Select(new, j) == z3.Select(seq.arr, j + 1))))
    seq.arr = new
    seq.n = seq.n - 1


def m_append(I, seq, a, k):
    seq.arr = z3.Store(seq.arr, seq.n, elem_z(I, seq, a[0]))
    seq.n = seq.n + 1


def m_index(I, seq, a, k):
    if not _compatible(seq, a[0]):
        I.raise_py("ValueError", "x not in list")
    i = index_of(I, seq, a[0])
    if not I.st.branch(i >= 0, "list.index found"):
        I.raise_py("ValueError", "x not in list")
    return SV(i, "int")


def m_remove(I, seq, a, k):
    i = m_index(I, seq, a, k)
    remove_at(I, seq, i.z)


def m_pop(I, seq, a, k):
    if not I.st.branch(seq.n > 0, "pop nonempty"):
        I.raise_py("IndexError", "pop from empty list")
    zi = norm_index(I, seq, a[0] if a else -1)
    v = mk_elem(I, seq, z3.Select(seq.arr, zi))
    remove_at(I, seq, zi)
    return v


def m_copy(I, seq, a, k):
    return SymSeq(seq.arr, seq.n, seq.elem_ty, seq.kind)


def m_extend(I, seq, a, k):
    o = a[0]
    if isinstance(o, SymSeq):
        concat_into(I, seq, o)
        return
    for x in I.iterate(o):
        m_append(I, seq, [x], {})


def concat_into(I, seq, o):
    st = I.st
    new = st.fresh("cat", seq.arr.sort())
    j = z3.Int(st.fresh_name("j"))
    st.assume(z3.ForAll([j], z3.Implies(z3.And(j >= 0, j < seq.n), z3.Select(new, j) == z3.Select(seq.arr, j))))
    st.assume(z3.ForAll([j], z3.Implies(z3.And(j >= 0, j < o.n), z3.Select(new, seq.n + j) == z3.Select(o.arr, j))))
    seq.arr = new
    seq.n = seq.n + o.n


def m_popleft(I, seq, a, k):
    if not I.st.branch(seq.n > 0, "popleft nonempty"):
        I.raise_py("IndexError", "pop from an empty deque")
    v = mk_elem(I, seq, z3.Select(seq.arr, 0))
    remove_at(I, seq, z3.IntVal(0))
    return v


def m_appendleft(I, seq, a, k):
    st = I.st
    new = st.fresh("apl", seq.arr.sort())
    j = z3.Int(st.fresh_name("j"))
    st.assume(z3.Select(new, 0) == elem_z(I, seq, a[0]))
    st.assume(z3.ForAll([j], z3.Implies(z3.And(j >= 0, j < seq.n), z3.Select(new, j + 1) == z3.Select(seq.arr, j))))
    seq.arr = new
    seq.n = seq.n + 1


SEQ_METHODS = {"append": m_append, "index": m_index, "remove": m_remove, "pop": m_pop, "copy": m_copy,
               "extend": m_extend, "popleft": m_popleft, "appendleft": m_appendleft}


# ------------------------------------------------------------------------- symbolic maps
def map_get(I, m, k):
    if k is None or isinstance(k, (Obj, Opaque)):
        I.raise_py("KeyError", k)
    zk = to_z3(k)
    if not I.st.branch(z3.Select(m.has, zk), "key in map"):
        I.raise_py("KeyError", k)
    return m.val_build(I, {f: z3.Select(a, zk) for f, a in m.vals.items()})


def map_set(I, m, k, v):
    zk = to_z3(k)
    parts = m.val_split(I, v)
    m.has = z3.Store(m.has, zk, True)
    for f in m.vals:
        m.vals[f] = z3.Store(m.vals[f], zk, parts[f])


def mm_keys(I, m, a, k):
    return Obj(I.builtins["object"], {"m": m}, tag="symmap_keys")


def mm_get(I, m, a, k):
    if a[0] is None or isinstance(a[0], (Obj, Opaque)):
        return a[1] if len(a) > 1 else None          # a key of another type is not in a map keyed by bytes / str / int
    zk = to_z3(a[0])
    if not I.st.branch(z3.Select(m.has, zk), "key in map"):
        return a[1] if len(a) > 1 else None
    return m.val_build(I, {f: z3.Select(arr, zk) for f, arr in m.vals.items()})


MAP_METHODS = {"keys": mm_keys, "get": mm_get}


# ------------------------------------------------------------------------- symbolic iteration helpers
def sym_iter(I, v):
    raise Unsupported("iter() over symbolic-length container")


def sym_enumerate(I, v, start):
    return Obj(I.builtins["object"], {"src": v, "start": start, "op": "enumerate"}, tag="symiter")


def sym_zip(I, a, strict):
    raise Unsupported("zip over symbolic-length container")


def sym_map(I, f, seqs):
    if len(seqs) != 1 or not isinstance(seqs[0], SymSeq):
        raise Unsupported("map over symbolic containers")
    return Obj(I.builtins["object"], {"src": seqs[0], "f": f, "op": "map"}, tag="symiter")


def materialize(I, it, kind):
    """tuple(map(f, L)) for a symbolic L: pointwise rule via a registered element-wise contract."""
    if it.fields["op"] == "map":
        rule = I.st.ghost.get(("map_rule", getattr(it.fields["f"], "func", it.fields["f"]).qual if hasattr(getattr(it.fields["f"], "func", it.fields["f"]), "qual") else None))
        if rule is None:
            raise Unsupported("map over symbolic sequence without a pointwise rule")
        return rule(I, it.fields["f"], it.fields["src"], kind)
    raise Unsupported("materialize symbolic iterator")


def comprehension(I, n, fr):
    """Symbolic comprehension rules.  Only single-generator comprehensions over a SymSeq whose
    element expression / filter are handled by a registered pointwise rule are supported; a
    rule is looked up under ('comp_rule', function qual, lineno-independent ordinal)."""
    if len(n.generators) != 1:
        return NOT_IMPLEMENTED
    g = n.generators[0]
    # cheap syntactic pre-check to avoid evaluating iter twice for concrete cases
    rules = I.st.ghost.get("comp_rules")
    if not rules:
        return NOT_IMPLEMENTED
    qual = fr.func.qual if fr.func is not None else None
    key = (qual, _comp_ordinal(fr.func.node, n) if fr.func is not None else 0)
    rule = rules.get(key)
    if rule is None:
        return NOT_IMPLEMENTED
    return rule(I, n, fr)


def _comp_ordinal(fnode, comp):
    k = 0
    for m in ast.walk(fnode):
        if isinstance(m, (ast.ListComp, ast.GeneratorExp, ast.SetComp, ast.DictComp)):
            if m is comp:
                return k
            k += 1
    return -1
