"""Path-splitting symbolic executor over the real AST of /repo (DESIGN.md 2.1-2.3)."""
from __future__ import annotations
import ast, z3
from .values import *
from .state import State, sort_of
from .ops import Ops, NOT_IMPLEMENTED, to_z3, pyclass_kind, num_kind, blen
from .extract import Repo, assigned_names, contains_yield, loops_of
from . import builtins_ as B


class _Return(Exception):
    def __init__(self, value):
        self.value = value


class _Break(Exception):
    pass


class _Continue(Exception):
    pass


class Frame:
    __slots__ = ("func", "locals", "module", "cls", "closure", "local_names", "globals_decl")

    def __init__(self, func, module, cls=None, closure=None):
        self.func = func
        self.locals = {}
        self.module = module
        self.cls = cls
        self.closure = closure
        self.local_names = None
        self.globals_decl = set()


class LoopSpec:
    """Loop contract (invariant / variant / havoc), keyed by (function qual, loop ordinal)."""

    def __init__(self, invariant, havoc=None, variant=None, enter=None, locals=None, keep=None):
        self.invariant = invariant   # fn(L) -> list[(label, formula)] | formula
        self.havoc = havoc           # fn(L): havoc heap state the loop modifies
        self.variant = variant       # fn(L) -> z3 Int term (must decrease, stay >= 0)
        self.enter = enter           # fn(L): capture ghost pre-state
        self.locals = locals or {}   # local name -> type tag or list of alternatives, for havoc
        self.keep = keep or ()       # locals syntactically assigned but to be left alone


class LoopCtx:
    def __init__(self, interp, fr, node, qual, ordinal):
        self.interp = interp
        self.st = interp.st
        self.fr = fr
        self.node = node
        self.qual = qual
        self.ordinal = ordinal
        self.k = None
        self.seq = None
        self.pre = {}

    def local(self, name):
        return self.fr.locals.get(name)


class Interp(Ops, B.BuiltinsMixin):
    MAX_DEPTH = 60
    MAX_UNROLL = 400

    def __init__(self, repo: Repo):
        self.repo = repo
        self.st: State = None
        self.class_cache = {}
        self.func_cache = {}
        self.stubs = {}        # qual -> fn(interp, fv, args, kwargs) -> value
        self.applies = {}      # qual -> fn(interp, fv, args, kwargs) -> value  (modular contract use)
        self.loop_specs = {}   # (qual, ordinal) -> LoopSpec
        self.target = None     # qual of the function being verified (never replaced by its contract)
        self.depth = 0
        self.exc_stack = []
        self.builtins = B.make_builtins(self)
        self.ext_models = {}   # "numpy.delete" -> value
        self.loop_cap = 20000  # iterations of one spec-less while loop before IterationCap is raised
        self.inlined = set()
        self.opaque_globals = {}  # (module, name) -> value overrides
        from . import models
        models.install(self)

    # ------------------------------------------------------------------ exceptions
    def exc_class(self, name):
        return self.builtins[name]

    def make_exc(self, cls, *args):
        if isinstance(cls, str):
            cls = self.exc_class(cls)
        return Obj(cls, {"args": tuple(args)})

    def raise_py(self, cls, *args):
        raise PyExc(self.make_exc(cls, *args))

    def exc_matches(self, exc: Obj, spec):
        if isinstance(spec, tuple):
            return any(self.exc_matches(exc, s) for s in spec)
        if isinstance(spec, ClassV):
            return exc.cls.issub(spec)
        raise Unsupported(f"except clause with {spec!r}")

    # ------------------------------------------------------------------ modules / globals
    def module_global(self, modname, name, _seen=None):
        key = (modname, name)
        if key in self.opaque_globals:
            return self.opaque_globals[key]
        if key in self.st.globals:
            return self.st.globals[key]
        m = self.repo.module(modname)
        kind = m.order.get(name)
        if kind is None:
            # star imports
            _seen = _seen or set()
            for sm in reversed(m.stars):
                if sm in _seen:
                    continue
                _seen.add(sm)
                if self.repo.has_module(sm):
                    try:
                        return self.module_global(sm, name, _seen)
                    except KeyError:
                        continue
            # submodule of package
            if m.is_pkg and self.repo.has_module(modname + "." + name):
                return ModuleV(modname + "." + name)
            raise KeyError(name)
        if kind[0] == "func":
            v = self.make_function(kind[1], m, None, None, f"{modname}:{name}")
            if getattr(kind[1], "decorator_list", None):
                # module-level decorators (functools.lru_cache / cache, contextmanager, joblib.delayed ...) change what the name means
                try:
                    mfr = Frame(None, m)
                    v = self.apply_decorators(kind[1], v, mfr)
                except (Unsupported, PyExc, KeyError):
                    self.inlined.add(f"decorator(s) of {modname}:{name} not modelled: the undecorated function is used")
        elif kind[0] == "class":
            v = self.make_class(kind[1], m)
        elif kind[0] == "import":
            imp = m.imports[name]
            if imp[0] == "module":
                v = self.import_module(imp[1])
            else:
                src = imp[1]
                if self.repo.has_module(src) and (src == modname or imp[2] not in self.repo.module(src).order) \
                        and self.repo.has_module(src + "." + imp[2]):
                    v = ModuleV(src + "." + imp[2])      # `from . import submodule`
                elif self.repo.has_module(src):
                    try:
                        v = self.module_global(src, imp[2])
                    except KeyError:
                        if self.repo.has_module(src + "." + imp[2]):
                            v = ModuleV(src + "." + imp[2])
                        else:
                            raise Unsupported(f"cannot resolve {src}.{imp[2]}")
                else:
                    v = self.ext_attr(src, imp[2])
        else:
            st = kind[1]
            fr = Frame(None, m)
            val = self.ev(st.value, fr)
            if isinstance(st, ast.Assign):
                for t in st.targets:
                    self._bind_global(modname, t, val)
            else:
                self._bind_global(modname, st.target, val)
            return self.st.globals[key]
        if not isinstance(v, (ClassV, FuncV, ModuleV, ExtModuleV, Builtin)):
            self.st.globals[key] = v
        return v

    def _bind_global(self, modname, target, val):
        if isinstance(target, ast.Name):
            self.st.globals[(modname, target.id)] = val
        elif isinstance(target, (ast.Tuple, ast.List)):
            vals = list(self.iterate(val))
            for t, v in zip(target.elts, vals):
                self._bind_global(modname, t, v)
        else:
            raise Unsupported("module-level assignment target")

    def import_module(self, name):
        if self.repo.has_module(name):
            return ModuleV(name)
        return ExtModuleV(name)

    def ext_attr(self, modname, attr):
        key = f"{modname}.{attr}"
        if key in self.ext_models:
            return self.ext_models[key]
        if modname == "typing" or modname == "typing_extensions" or modname == "collections.abc":
            return Opaque(key)
        if any(k.startswith(key + ".") for k in self.ext_models):
            return ExtModuleV(key)          # `from pkg import submodule` of an external package with modelled members
        raise Unsupported(f"no model for external name {key}")

    # ------------------------------------------------------------------ functions / classes
    def make_function(self, node, module, cls, closure, qual):
        key = (id(node), id(closure))
        if closure is None and key in self.func_cache:
            return self.func_cache[key]
        fv = FuncV(node, module, cls, closure, qual)
        if isinstance(node, ast.FunctionDef):
            fv.is_gen = contains_yield(node)
        if closure is None:
            self.func_cache[key] = fv
        return fv

    def apply_decorators(self, node, value, fr):
        for dec in reversed(node.decorator_list):
            dname = _dotted(dec if not isinstance(dec, ast.Call) else dec.func)
            base = dname.split(".")[-1] if dname else None
            if base == "property":
                value = PropertyV(fget=value)
            elif base in ("setter", "getter", "deleter") and isinstance(dec, ast.Attribute):
                prop = self.ev(dec.value, fr)
                if not isinstance(prop, PropertyV):
                    raise Unsupported("setter on non-property")
                if base == "setter":
                    value = PropertyV(prop.fget, value, prop.fdel)
                elif base == "getter":
                    value = PropertyV(value, prop.fset, prop.fdel)
                else:
                    value = PropertyV(prop.fget, prop.fset, value)
            elif base == "classmethod":
                value = ClassMethodV(value)
            elif base == "staticmethod":
                value = StaticMethodV(value)
            elif base == "contextmanager":
                value.wrapped_ctx = True
            elif base in ("abstractmethod", "wraps", "deprecated", "overload", "cached_property"):
                if base == "cached_property":
                    # computed once per instance, then the stored result is returned (functools.cached_property)
                    value = PropertyV(fget=B.CachedFunc(value))
            elif base in ("cache", "lru_cache"):
                value = B.CachedFunc(value)
            else:
                d = self.ev(dec, fr)
                value = self.call(d, [value], {})
        return value

    def make_class(self, node: ast.ClassDef, module):
        key = (module.name, node.name, id(node))
        if key in self.class_cache:
            return self.class_cache[key]
        fr = Frame(None, module)
        bases = []
        for b in node.bases:
            try:
                bv = self.ev(b, fr)
            except Unsupported:
                bv = None
            if isinstance(bv, ClassV):
                bases.append(bv)
        if not bases:
            bases = [self.builtins["object"]]
        cls = ClassV(node.name, module, node, bases)
        self.class_cache[key] = cls
        cls.compute_mro()
        cls.is_enum = any(b.is_enum for b in bases)
        cls.is_intenum = any(b.is_intenum for b in bases)
        # class body
        cfr = Frame(None, module)
        cfr.locals = cls.ns
        attrs_kind = None
        for dec in node.decorator_list:
            dn = _dotted(dec.func if isinstance(dec, ast.Call) else dec) or ""
            if dn.split(".")[-1] in ("define", "s", "attrs", "dataclass", "frozen", "mutable"):
                attrs_kind = dn
                if isinstance(dec, ast.Call):
                    for kw in dec.keywords:
                        try:
                            cls.attrs_opts[kw.arg] = self.ev(kw.value, fr)
                        except Unsupported:
                            pass
        fields = []
        for st in node.body:
            if isinstance(st, ast.FunctionDef):
                fv = self.make_function(st, module, cls, None, f"{module.name}:{node.name}.{st.name}")
                cls.ns[st.name] = self.apply_decorators(st, fv, cfr)
            elif isinstance(st, ast.Expr):
                continue
            elif isinstance(st, ast.AnnAssign):
                ann = _dotted(st.annotation.value if isinstance(st.annotation, ast.Subscript) else st.annotation) or ""
                if ann.split(".")[-1] == "ClassVar":
                    # attrs / dataclasses leave ClassVar-annotated names alone: a plain class attribute (one object shared by all instances)
                    if st.value is not None and isinstance(st.target, ast.Name):
                        self._class_assign(cls, st.target.id, st.value, cfr)
                elif attrs_kind and isinstance(st.target, ast.Name):
                    fields.append(self._attrs_field(st.target.id, st.value, cfr, cls))
                elif st.value is not None and isinstance(st.target, ast.Name):
                    self._class_assign(cls, st.target.id, st.value, cfr)
            elif isinstance(st, ast.Assign):
                if attrs_kind and len(st.targets) == 1 and isinstance(st.targets[0], ast.Name) \
                        and isinstance(st.value, ast.Call) and (_dotted(st.value.func) or "").split(".")[-1] in ("field", "ib", "attrib"):
                    fields.append(self._attrs_field(st.targets[0].id, st.value, cfr, cls))
                else:
                    for t in st.targets:
                        if isinstance(t, ast.Name):
                            self._class_assign(cls, t.id, st.value, cfr)
                        elif isinstance(t, (ast.Tuple, ast.List)):
                            try:
                                vals = list(self.iterate(self.ev(st.value, cfr)))
                                for tt, vv in zip(t.elts, vals):
                                    cls.ns[tt.id] = vv
                            except Unsupported:
                                pass
            elif isinstance(st, ast.Pass):
                pass
            elif isinstance(st, ast.ClassDef):
                pass
            else:
                pass
        if attrs_kind:
            inherited = []
            for b in cls.mro[1:]:
                if b.attrs_fields:
                    inherited = list(b.attrs_fields)
                    break
            cls.attrs_fields = inherited + fields
        if "__slots__" in cls.ns and isinstance(cls.ns["__slots__"], tuple):
            cls.slots = cls.ns["__slots__"]
        if cls.is_enum:
            for name, val in list(cls.ns.items()):
                if name.startswith("_") or isinstance(val, (FuncV, PropertyV, ClassMethodV, StaticMethodV, B.CachedFunc)):
                    continue
                if isinstance(val, (int, str, float, tuple)) and not isinstance(val, bool):
                    ev_ = EnumVal(cls, name, val)
                    # aliases: same value -> same member
                    for mv in cls.members.values():
                        if mv.value == val and type(mv.value) is type(val):
                            ev_ = mv
                            break
                    cls.members[name] = ev_
                    cls.ns[name] = ev_
        return cls

    def _class_assign(self, cls, name, valnode, cfr):
        try:
            cls.ns[name] = self.ev(valnode, cfr)
        except Unsupported as e:
            cls.ns[name] = B.Unevaluated(str(e))
        except PyExc as e:
            cls.ns[name] = B.Unevaluated(f"raised {e.value!r}")

    def _attrs_field(self, name, valnode, cfr, cls):
        f = AttrsField(name)
        if valnode is None:
            return f
        if isinstance(valnode, ast.Call) and (_dotted(valnode.func) or "").split(".")[-1] in ("field", "ib", "attrib"):
            for kw in valnode.keywords:
                v = self.ev(kw.value, cfr)
                if kw.arg == "default":
                    if isinstance(v, Obj) and v.tag == "attrs.Factory":
                        f.factory = v.fields["factory"]
                    else:
                        f.default = v
                        f.has_default = True
                elif kw.arg in ("factory", "default_factory"):
                    f.factory = v
                elif kw.arg == "converter":
                    f.converter = v
                elif kw.arg == "on_setattr":
                    f.on_setattr = v
                elif kw.arg == "kw_only":
                    f.kw_only = v
                elif kw.arg == "init":
                    f.init = v
        else:
            f.default = self.ev(valnode, cfr)
            f.has_default = True
        return f

    # ------------------------------------------------------------------ calls
    def bind(self, attr, obj, cls=None):
        """descriptor binding of a class-level attribute to an instance"""
        if isinstance(attr, (FuncV, B.CachedFunc)):
            return BoundMethod(attr, obj)
        if isinstance(attr, Builtin):
            return BoundMethod(attr, obj)
        if isinstance(attr, ClassMethodV):
            return BoundMethod(attr.func, cls if cls is not None else self.type_of(obj))
        if isinstance(attr, StaticMethodV):
            return attr.func
        if isinstance(attr, PropertyV):
            if attr.fget is None:
                self.raise_py("AttributeError", "unreadable attribute")
            return self.call(attr.fget, [obj], {})
        if isinstance(attr, B.Unevaluated):
            raise Unsupported(f"class attribute not evaluable: {attr.why}")
        if isinstance(attr, Obj):
            g, _ = attr.cls.lookup("__get__")
            if g is not None and not isinstance(obj, ClassV):
                return self.call(self.bind(g, attr), [obj, self.type_of(obj)], {})
        return attr

    def call(self, f, args, kwargs):
        args = list(args)
        if isinstance(f, BoundMethod):
            return self.call(f.func, [f.self] + args, kwargs)
        if isinstance(f, Builtin):
            if f.trusted:
                self.st.trusted_used.add(f.trusted)
            return f.fn(self, args, kwargs)
        if isinstance(f, FuncV):
            return self.call_function(f, args, kwargs)
        if isinstance(f, ClassV):
            return self.instantiate(f, args, kwargs)
        if isinstance(f, B.CachedFunc):
            return f.call(self, args, kwargs)
        if isinstance(f, Opaque):
            return self.opaque_call(f, args, kwargs)
        if isinstance(f, Obj):
            c, _ = f.cls.lookup("__call__")
            if c is not None:
                return self.call(self.bind(c, f), args, kwargs)
        if isinstance(f, StaticMethodV):
            return self.call(f.func, args, kwargs)
        self.raise_py("TypeError", f"{f!r} object is not callable")

    def opaque_call(self, f, args, kwargs):
        term = Opaque("call", (f, tuple(args), tuple(sorted(kwargs.items(), key=lambda kv: kv[0]))))
        self.st.event("call", term)
        return Opaque("ret", (term, len(self.st.trace)))

    def call_function(self, fv: FuncV, args, kwargs):
        q = fv.qual
        if q in self.stubs:
            return self.stubs[q](self, fv, args, kwargs)
        if q in self.applies and q != self.target:
            return self.applies[q](self, fv, args, kwargs)
        if self.depth > self.MAX_DEPTH:
            raise Unsupported(f"call depth exceeded at {q}")
        fr = Frame(fv, fv.module, fv.cls, fv.closure)
        self.bind_args(fv, fr, args, kwargs)
        if q:
            self.inlined.add(q)
        body = fv.node.body
        if isinstance(fv.node, ast.Lambda):
            self.depth += 1
            try:
                return self.ev(body, fr)
            finally:
                self.depth -= 1
        if fv.is_gen:
            g = GenV(self._run_gen(fv, fr), fv.name)
            if fv.wrapped_ctx:
                return Obj(self.builtins["_GeneratorContextManager"], {"gen": g})
            return g
        self.depth += 1
        try:
            for _ in self.exec_block(body, fr):
                raise Unsupported("yield outside generator")
        except _Return as r:
            return r.value
        finally:
            self.depth -= 1
        return None

    def _run_gen(self, fv, fr):
        try:
            yield from self.exec_block(fv.node.body, fr)
        except _Return as r:
            return r.value
        return None

    def func_defaults(self, fv):
        key = id(fv)
        d = self.st.func_defaults.get(key)
        if d is None:
            a = fv.node.args
            fr = Frame(None, fv.module, fv.cls, fv.closure)
            if fv.cls is not None and fv.closure is None:
                fr.locals = dict(fv.cls.ns)
            d = ([self.ev(x, fr) for x in a.defaults], [None if x is None else self.ev(x, fr) for x in a.kw_defaults])
            self.st.func_defaults[key] = d
        return d

    def bind_args(self, fv, fr, args, kwargs):
        a = fv.node.args
        defaults, kw_defaults = self.func_defaults(fv)
        kwargs = dict(kwargs)
        pos = [x.arg for x in a.posonlyargs] + [x.arg for x in a.args]
        npos_only = len(a.posonlyargs)
        loc = fr.locals
        if len(args) > len(pos) and a.vararg is None:
            self.raise_py("TypeError", f"{fv.name}() takes {len(pos)} positional arguments but {len(args)} were given")
        for n, v in zip(pos, args):
            loc[n] = v
        if a.vararg is not None:
            loc[a.vararg.arg] = tuple(args[len(pos):])
        star_opaque = kwargs.pop("**", None)
        for i, n in enumerate(pos):
            if n in loc:
                if n in kwargs and i >= npos_only:
                    self.raise_py("TypeError", f"{fv.name}() got multiple values for argument {n!r}")
                continue
            if n in kwargs and i >= npos_only:
                loc[n] = kwargs.pop(n)
            else:
                di = i - (len(pos) - len(defaults))
                if di >= 0:
                    loc[n] = defaults[di]
                else:
                    self.raise_py("TypeError", f"{fv.name}() missing required positional argument {n!r}")
        for x, d in zip(a.kwonlyargs, kw_defaults):
            if x.arg in kwargs:
                loc[x.arg] = kwargs.pop(x.arg)
            elif d is not None or _has_kwdefault(a, x):
                loc[x.arg] = d
            else:
                self.raise_py("TypeError", f"{fv.name}() missing required keyword-only argument {x.arg!r}")
        if a.kwarg is not None:
            if star_opaque is not None:
                if kwargs:
                    raise Unsupported("opaque ** mixed with explicit keywords")
                loc[a.kwarg.arg] = star_opaque
            else:
                loc[a.kwarg.arg] = DictV(list(kwargs.items()))
        elif kwargs:
            self.raise_py("TypeError", f"{fv.name}() got an unexpected keyword argument {next(iter(kwargs))!r}")
        elif star_opaque is not None:
            raise Unsupported("opaque ** passed to function without **kwargs")

    def instantiate(self, cls: ClassV, args, kwargs):
        if cls.qual in self.stubs:
            return self.stubs[cls.qual](self, cls, args, kwargs)
        if cls.is_enum:
            return self.enum_lookup(cls, args[0])
        ctor = cls.ns.get("__pyvc_new__")
        if ctor is None:
            for c in cls.mro:
                if "__pyvc_new__" in c.ns:
                    ctor = c.ns["__pyvc_new__"]
                    break
        if ctor is not None:
            return ctor(self, cls, args, kwargs)
        obj = Obj(cls)
        init, owner = cls.lookup("__init__")
        if cls.attrs_fields is not None and (init is None or owner.builtin):
            self.attrs_init(obj, cls, args, kwargs)
            post, _ = cls.lookup("__attrs_post_init__")
            if post is not None:
                self.call(self.bind(post, obj), [], {})
            return obj
        if init is not None and not (owner.builtin and owner.name == "object"):
            self.call(self.bind(init, obj), args, kwargs)
        elif args or kwargs:
            self.raise_py("TypeError", f"{cls.name}() takes no arguments")
        return obj

    def attrs_init(self, obj, cls, args, kwargs):
        kwargs = dict(kwargs)
        fields = [f for f in cls.attrs_fields if f.init]
        posf = [f for f in fields if not f.kw_only]
        if len(args) > len(posf):
            self.raise_py("TypeError", f"{cls.name}.__init__() takes {len(posf)} positional arguments")
        given = {}
        for f, v in zip(posf, args):
            given[f.name] = v
        for f in fields:
            if f.init_name in kwargs:
                if f.name in given:
                    self.raise_py("TypeError", f"multiple values for {f.init_name}")
                given[f.name] = kwargs.pop(f.init_name)
        if kwargs:
            self.raise_py("TypeError", f"{cls.name}.__init__() got an unexpected keyword argument {next(iter(kwargs))!r}")
        for f in cls.attrs_fields:
            if f.name in given:
                v = given[f.name]
            elif f.factory is not None:
                v = self.call(f.factory, [], {})
            elif f.has_default:
                v = f.default
            elif not f.init:
                continue          # init=False without a default: attrs leaves the attribute unset
            else:
                self.raise_py("TypeError", f"{cls.name}.__init__() missing argument {f.init_name!r}")
            if f.converter is not None:
                v = self.call(f.converter, [v], {})
            obj.fields[f.name] = v

    def enum_lookup(self, cls, v):
        if isinstance(v, EnumVal) and v.cls is cls:
            return v
        if isinstance(v, SV):
            if isinstance(v.ty, tuple) and v.ty[0] == "enum" and v.ty[1] is cls:
                return v
            if v.ty in ("int", "bool") or (isinstance(v.ty, tuple) and v.ty[0] == "enum"):
                z = to_z3(v, "int")
                vals = sorted({m.value for m in cls.members.values() if isinstance(m.value, int)})
                ok = z3.Or(*[z == x for x in vals])
                if self.st.branch(ok, f"{cls.name}(value) valid"):
                    return SV(z, ("enum", cls))
                self.raise_py("ValueError", f"not a valid {cls.name}")
            raise Unsupported("enum lookup by symbolic non-int")
        if isinstance(v, EnumVal):
            v = v.value
        for m in cls.members.values():
            if m.value == v and type(m.value) is type(v) or (isinstance(v, (int, bool)) and isinstance(m.value, int) and m.value == v):
                return m
        self.raise_py("ValueError", f"{v!r} is not a valid {cls.name}")

    def type_of(self, v):
        if isinstance(v, Obj):
            return v.cls
        k = pyclass_kind(v)
        if isinstance(k, tuple):
            return k[1]
        m = {"int": "int", "bool": "bool", "real": "float", "str": "str", "bytes": "bytes", "none": "NoneType",
             "ListV": "list", "DictV": "dict", "SetV": "set", "tuple": "tuple", "SymSeq": "list",
             "SymMap": "dict", "ClassV": "type", "FuncV": "function", "NdArr": "ndarray", "GenV": "generator", "slice": "slice", "SStr": "str"}
        if k in m and m[k] in self.builtins:
            if isinstance(v, SymSeq) and v.kind != "list":
                return self.builtins[v.kind]
            if isinstance(v, SetV) and v.frozen:
                return self.builtins["frozenset"]
            return self.builtins[m[k]]
        raise Unsupported(f"type() of {v!r}")

    # ------------------------------------------------------------------ names
    def lookup_name(self, name, fr: Frame):
        f = fr
        first = True
        while f is not None:
            if name in f.locals:
                return f.locals[name]
            if first and f.func is not None and name not in f.globals_decl:
                ln = self.local_names(f)
                if name in ln:
                    raise PyExc(self.make_exc("UnboundLocalError",
                                              f"cannot access local variable {name!r} where it is not associated with a value"))
            first = False
            f = f.closure
        try:
            return self.module_global(fr.module.name, name)
        except KeyError:
            pass
        if name in self.builtins:
            return self.builtins[name]
        self.raise_py("NameError", f"name {name!r} is not defined")

    def local_names(self, fr):
        if fr.local_names is None:
            node = fr.func.node
            names = set()
            a = node.args
            for x in a.posonlyargs + a.args + a.kwonlyargs:
                names.add(x.arg)
            if a.vararg:
                names.add(a.vararg.arg)
            if a.kwarg:
                names.add(a.kwarg.arg)
            if isinstance(node, ast.FunctionDef):
                names |= assigned_names(node.body)
                names |= _import_names(node.body)
                for n in ast.walk(node):
                    if isinstance(n, (ast.Global, ast.Nonlocal)):
                        names -= set(n.names)
            fr.local_names = names
        return fr.local_names

    # ------------------------------------------------------------------ statements
    def exec_block(self, stmts, fr):
        for s in stmts:
            yield from self.exec_stmt(s, fr)

    def exec_stmt(self, s, fr):
        m = getattr(self, "x_" + type(s).__name__, None)
        if m is None:
            raise Unsupported(f"statement {type(s).__name__}")
        r = m(s, fr)
        if r is not None:
            yield from r

    def x_Expr(self, s, fr):
        if isinstance(s.value, ast.Yield):
            v = self.ev(s.value.value, fr) if s.value.value is not None else None
            yield v
            return
        if isinstance(s.value, ast.YieldFrom):
            src = self.ev(s.value.value, fr)
            for v in self.iterate(src):
                yield v
            return
        self.ev(s.value, fr)

    def x_Pass(self, s, fr):
        return None

    def x_Assign(self, s, fr):
        if isinstance(s.value, ast.Yield):
            yield (self.ev(s.value.value, fr) if s.value.value is not None else None)
            v = None
        else:
            v = self.ev(s.value, fr)
        for t in s.targets:
            self.assign(t, v, fr)

    def x_AnnAssign(self, s, fr):
        if s.value is not None:
            self.assign(s.target, self.ev(s.value, fr), fr)

    def x_AugAssign(self, s, fr):
        t = s.target
        if isinstance(t, ast.Name):
            cur = self.lookup_name(t.id, fr)
            new = self.aug(s.op, cur, self.ev(s.value, fr))
            self.assign(t, new, fr)
        elif isinstance(t, ast.Attribute):
            o = self.ev(t.value, fr)
            cur = self.getattr_(o, t.attr)
            new = self.aug(s.op, cur, self.ev(s.value, fr))
            self.setattr_(o, t.attr, new)
        elif isinstance(t, ast.Subscript):
            o = self.ev(t.value, fr)
            i = self.ev_index(t.slice, fr)
            cur = self.getitem(o, i)
            new = self.aug(s.op, cur, self.ev(s.value, fr))
            self.setitem(o, i, new)
        else:
            raise Unsupported("augassign target")

    def aug(self, op, cur, val):
        if isinstance(cur, ListV) and isinstance(op, ast.Add):
            cur.items.extend(list(self.iterate(val)))
            return cur
        if isinstance(cur, NdArr):
            from . import npmodel
            return npmodel.inplace(self, op, cur, val)
        # in-place operators of the mutable builtins mutate the object they are applied to (aliases see the change)
        if isinstance(cur, DictV) and isinstance(op, ast.BitOr):
            if not isinstance(val, DictV):
                self.raise_py("TypeError", "unsupported operand type(s) for |=: 'dict' and non-dict")
            for k_, v_ in zip(list(val.keys), list(val.vals)):
                self.dict_set(cur, k_, v_)
            return cur
        if isinstance(cur, SetV) and not cur.frozen and isinstance(val, SetV) and isinstance(op, (ast.BitOr, ast.BitAnd, ast.Sub, ast.BitXor)):
            new = self.binop(op, cur, val)
            if isinstance(new, SetV):
                cur.items[:] = list(new.items)
                return cur
            return new
        if isinstance(cur, ListV) and isinstance(op, ast.Mult) and type(val) is int:
            cur.items[:] = list(cur.items) * val
            return cur
        r = self.inplace_hook(op, cur, val)
        if r is not NOT_IMPLEMENTED:
            return r
        return self.binop(op, cur, val)

    def inplace_hook(self, op, cur, val):
        return NOT_IMPLEMENTED

    def x_Return(self, s, fr):
        raise _Return(self.ev(s.value, fr) if s.value is not None else None)

    def x_Raise(self, s, fr):
        if s.exc is None:
            if not self.exc_stack:
                self.raise_py("RuntimeError", "No active exception to reraise")
            raise self.exc_stack[-1]
        e = self.ev(s.exc, fr)
        if isinstance(e, ClassV):
            e = self.instantiate(e, [], {})
        if not isinstance(e, Obj):
            self.raise_py("TypeError", "exceptions must derive from BaseException")
        if s.cause is not None:
            e.fields["__cause__"] = self.ev(s.cause, fr)
        raise PyExc(e)

    def x_Assert(self, s, fr):
        c = self.truth(self.ev(s.test, fr))
        if not self.st.branch(c, "assert"):
            self.raise_py("AssertionError")

    def x_Delete(self, s, fr):
        for t in s.targets:
            if isinstance(t, ast.Name):
                if t.id not in fr.locals:
                    self.lookup_name(t.id, fr)
                del fr.locals[t.id]
            elif isinstance(t, ast.Subscript):
                self.delitem(self.ev(t.value, fr), self.ev_index(t.slice, fr))
            elif isinstance(t, ast.Attribute):
                self.delattr_(self.ev(t.value, fr), t.attr)
            else:
                raise Unsupported("del target")

    def x_Global(self, s, fr):
        fr.globals_decl |= set(s.names)

    def x_Nonlocal(self, s, fr):
        raise Unsupported("nonlocal")

    def x_Import(self, s, fr):
        for al in s.names:
            if al.asname:
                fr.locals[al.asname] = self.import_module(al.name)
            else:
                fr.locals[al.name.split(".")[0]] = self.import_module(al.name.split(".")[0])

    def x_ImportFrom(self, s, fr):
        mod = fr.module._resolve_rel(s)
        for al in s.names:
            if self.repo.has_module(mod):
                try:
                    v = self.module_global(mod, al.name)
                except KeyError:
                    v = ModuleV(mod + "." + al.name)
            else:
                v = self.ext_attr(mod, al.name)
            fr.locals[al.asname or al.name] = v

    def x_FunctionDef(self, s, fr):
        fv = self.make_function(s, fr.module, fr.cls, fr, (fr.func.qual or "?") + ".<locals>." + s.name if fr.func else None)
        fr.locals[s.name] = self.apply_decorators(s, fv, fr)

    def x_ClassDef(self, s, fr):
        raise Unsupported("local class definition")

    def x_If(self, s, fr):
        c = self.truth(self.ev(s.test, fr))
        if self.st.branch(c, f"if@{s.lineno}"):
            yield from self.exec_block(s.body, fr)
        else:
            yield from self.exec_block(s.orelse, fr)

    def x_Break(self, s, fr):
        raise _Break()

    def x_Continue(self, s, fr):
        raise _Continue()

    # ---- loops
    def loop_key(self, node, fr):
        if fr.func is None or not isinstance(fr.func.node, ast.FunctionDef):
            return None
        loops = loops_of(fr.func.node)
        for i, l in enumerate(loops):
            if l is node:
                return (fr.func.qual, i)
        return None

    def x_For(self, s, fr):
        it = self.ev(s.iter, fr)
        key = self.loop_key(s, fr)
        spec = self.loop_specs.get(key) if key else None
        if spec is not None:
            yield from self.sym_loop(s, fr, spec, key, it)
            return
        if self.is_symbolic_iterable(it):
            raise Unsupported(f"loop over symbolic sequence needs an invariant: {key}")
        for v in self.iterate(it):
            self.assign(s.target, v, fr)
            try:
                yield from self.exec_block(s.body, fr)
            except _Break:
                break
            except _Continue:
                continue
        else:
            yield from self.exec_block(s.orelse, fr)

    def x_While(self, s, fr):
        key = self.loop_key(s, fr)
        spec = self.loop_specs.get(key) if key else None
        if spec is not None:
            yield from self.sym_loop(s, fr, spec, key, None)
            return
        n = 0
        total = 0
        while True:
            total += 1
            if total > self.loop_cap:
                raise IterationCap(f"while loop at {key} line {s.lineno} did not finish within {self.loop_cap} iterations")
            c = self.truth(self.ev(s.test, fr))
            if not isinstance(c, bool):
                n += 1
                if n > 64:
                    raise Unsupported(f"while loop with symbolic condition needs an invariant: {key}")
            if not self.st.branch(c, f"while@{s.lineno}"):
                yield from self.exec_block(s.orelse, fr)
                break
            n += 0
            try:
                yield from self.exec_block(s.body, fr)
            except _Break:
                break
            except _Continue:
                continue

    def is_symbolic_iterable(self, it):
        return isinstance(it, (SymSeq, SymMap, SymSet)) or (isinstance(it, Obj) and it.tag == 'symmap_keys') or (isinstance(it, NdArr) and it.data is None) \
            or (isinstance(it, Obj) and it.tag == "range" and not all(isinstance(x, int) for x in it.fields["args"]))

    def sym_loop(self, s, fr, spec: LoopSpec, key, it):
        st = self.st
        L = LoopCtx(self, fr, s, key[0], key[1])
        L.seq = it
        is_for = isinstance(s, ast.For)
        if spec.enter:
            spec.enter(L)
        L.k = 0
        for label, f in _as_list(spec.invariant(L)):
            st.check(f"{key[0]}/inv-init:{key[1]}/{label}", f, kind="inv-init")
        # havoc
        names = assigned_names(s.body) | (assigned_names([s.target]) if is_for else set()) | assigned_names([s.test] if not is_for else [])
        for n in sorted(names):
            if n in spec.keep:
                continue
            if n in spec.locals:
                fr.locals[n] = self.havoc_typed(spec.locals[n], n)
            elif n in fr.locals:
                fr.locals[n] = self.havoc_like(fr.locals[n], n)
        if spec.havoc:
            spec.havoc(L)
        if is_for:
            k = st.fresh(f"k_{key[1]}", z3.IntSort())
            L.k = k
            n_ = self.sym_len(it)
            st.assume(z3.And(k >= 0, k <= n_))
        for label, f in _as_list(spec.invariant(L)):
            st.assume(f)
        if st.sat() == z3.unsat:
            st.check(f"{key[0]}/inv-cover:{key[1]}", False, kind="cover")
            raise PathEnd("invariant unsatisfiable")
        var0 = spec.variant(L) if spec.variant else None
        if is_for:
            go = st.branch(L.k < n_, f"loop{key[1]}-iter")
        else:
            go = st.branch(self.truth(self.ev(s.test, fr)), f"loop{key[1]}-iter")
        if go:
            if is_for:
                self.assign(s.target, self.sym_getitem(it, L.k), fr)
            try:
                yield from self.exec_block(s.body, fr)
            except _Break:
                return
            except _Continue:
                pass
            if is_for:
                L.k = L.k + 1
            if getattr(spec, "step", None):
                spec.step(L)
            for label, f in _as_list(spec.invariant(L)):
                st.check(f"{key[0]}/inv-keep:{key[1]}/{label}", f, kind="inv-keep")
            if var0 is not None:
                v1 = spec.variant(L)
                st.check(f"{key[0]}/variant:{key[1]}", z3.And(v1 < var0, var0 >= 0) if not is_for else z3.BoolVal(True), kind="variant")
            raise PathEnd("inductive step done")
        else:
            yield from self.exec_block(s.orelse, fr)

    def havoc_like(self, v, name):
        if isinstance(v, SV):
            return self.st.fresh_sv(name, v.ty)
        if isinstance(v, bool):
            return self.st.fresh_sv(name, "bool")
        if isinstance(v, int):
            return self.st.fresh_sv(name, "int")
        if isinstance(v, float):
            return self.st.fresh_sv(name, "real")
        if isinstance(v, str):
            return self.st.fresh_sv(name, "str")
        if isinstance(v, EnumVal):
            return self.fresh_enum(name, v.cls)
        raise Unsupported(f"cannot havoc local {name} = {v!r}; declare it in the loop spec")

    def havoc_typed(self, ty, name):
        if callable(ty):
            return ty(self, name)
        if isinstance(ty, list):
            i = self.st.choose(len(ty), f"type({name})")
            return self.havoc_typed(ty[i], name)
        if ty == "none":
            return None
        return self.st.fresh_sv(name, ty)

    def fresh_enum(self, name, cls):
        v = self.st.fresh_sv(name, ("enum", cls))
        vals = sorted({m.value for m in cls.members.values()})
        self.st.assume(z3.Or(*[v.z == x for x in vals]))
        return v

    # ---- try / with / match
    def x_Try(self, s, fr):
        pending = None
        try:
            try:
                yield from self.exec_block(s.body, fr)
            except PyExc as e:
                handled = False
                for h in s.handlers:
                    if h.type is None or self.exc_matches(e.value, self.ev(h.type, fr)):
                        if h.name:
                            fr.locals[h.name] = e.value
                        self.exc_stack.append(e)
                        try:
                            yield from self.exec_block(h.body, fr)
                        finally:
                            self.exc_stack.pop()
                            if h.name:
                                fr.locals.pop(h.name, None)
                        handled = True
                        break
                if not handled:
                    raise
            else:
                yield from self.exec_block(s.orelse, fr)
        except (PyExc, _Return, _Break, _Continue) as e:
            pending = e
        if s.finalbody:
            yield from self.exec_block(s.finalbody, fr)
        if pending is not None:
            raise pending

    def x_With(self, s, fr):
        yield from self._with_items(s.items, s.body, fr)

    def _with_items(self, items, body, fr):
        if not items:
            yield from self.exec_block(body, fr)
            return
        item = items[0]
        mgr = self.ev(item.context_expr, fr)
        val = self.ctx_enter(mgr)
        if item.optional_vars is not None:
            self.assign(item.optional_vars, val, fr)
        try:
            yield from self._with_items(items[1:], body, fr)
        except PyExc as e:
            if not self.ctx_exit(mgr, e):
                raise
            return
        except (_Return, _Break, _Continue):
            self.ctx_exit(mgr, None)
            raise
        self.ctx_exit(mgr, None)

    def ctx_enter(self, mgr):
        if isinstance(mgr, Obj):
            f, _ = mgr.cls.lookup("__enter__")
            if f is not None:
                return self.call(self.bind(f, mgr), [], {})
        raise Unsupported(f"with on {mgr!r}")

    def ctx_exit(self, mgr, exc):
        f, _ = mgr.cls.lookup("__exit__")
        if f is None:
            raise Unsupported(f"no __exit__ on {mgr!r}")
        if exc is None:
            self.call(self.bind(f, mgr), [None, None, None], {})
            return False
        r = self.call(self.bind(f, mgr), [exc.value.cls, exc.value, None], {})
        return self.st.branch(self.truth(r), "exit-suppresses")

    def x_Match(self, s, fr):
        subj = self.ev(s.subject, fr)
        for case in s.cases:
            saved = dict(fr.locals)
            ok = self.match_pattern(case.pattern, subj, fr)
            if ok is not False and self.st.branch(ok, f"case@{case.pattern.lineno}"):
                if case.guard is not None:
                    if not self.st.branch(self.truth(self.ev(case.guard, fr)), "guard"):
                        continue
                yield from self.exec_block(case.body, fr)
                return
            else:
                # bindings made by a failed pattern are not rolled back in CPython either, but
                # molli never reads them; keep python semantics (no rollback)
                pass

    def match_pattern(self, p, v, fr):
        """-> bool | z3 Bool ; binds captures in fr.locals"""
        if isinstance(p, ast.MatchValue):
            return self.eq(v, self.ev(p.value, fr))
        if isinstance(p, ast.MatchSingleton):
            return self.identical(v, p.value)
        if isinstance(p, ast.MatchAs):
            if p.pattern is not None:
                c = self.match_pattern(p.pattern, v, fr)
                if c is False:
                    return False
            else:
                c = True
            if p.name:
                fr.locals[p.name] = v
            return c
        if isinstance(p, ast.MatchOr):
            cs = [self.match_pattern(q, v, fr) for q in p.patterns]
            return self.or_(*cs)
        if isinstance(p, ast.MatchClass):
            cls = self.ev(p.cls, fr)
            c = self.isinstance_(v, cls)
            if c is False:
                return False
            if p.patterns:
                if len(p.patterns) == 1 and isinstance(cls, ClassV) and cls.builtin:
                    c = self.and_(c, self.match_pattern(p.patterns[0], v, fr))
                else:
                    raise Unsupported("positional class pattern")
            for name, q in zip(p.kwd_attrs, p.kwd_patterns):
                c = self.and_(c, self.match_pattern(q, self.getattr_(v, name), fr))
            return c
        if isinstance(p, ast.MatchSequence):
            if isinstance(v, (str, bytes)) or pyclass_kind(v) in ("str", "bytes"):
                return False
            if isinstance(v, (tuple, ListV)):
                items = list(v) if isinstance(v, tuple) else list(v.items)
            elif isinstance(v, SymSeq):
                stars = [q for q in p.patterns if isinstance(q, ast.MatchStar)]
                if len(p.patterns) == 1 and stars:
                    if stars[0].name:
                        fr.locals[stars[0].name] = self.seq_copy(v)
                    return True
                raise Unsupported("sequence pattern on symbolic sequence")
            elif isinstance(v, Obj) and v.tag == "deque":
                items = list(v.fields["items"])
            else:
                return False
            star = [i for i, q in enumerate(p.patterns) if isinstance(q, ast.MatchStar)]
            if not star:
                if len(items) != len(p.patterns):
                    return False
                return self.and_(*[self.match_pattern(q, x, fr) for q, x in zip(p.patterns, items)])
            i = star[0]
            nafter = len(p.patterns) - i - 1
            if len(items) < len(p.patterns) - 1:
                return False
            cs = [self.match_pattern(q, x, fr) for q, x in zip(p.patterns[:i], items[:i])]
            mid = items[i: len(items) - nafter]
            if p.patterns[i].name:
                fr.locals[p.patterns[i].name] = ListV(mid)
            cs += [self.match_pattern(q, x, fr) for q, x in zip(p.patterns[i + 1:], items[len(items) - nafter:])]
            return self.and_(*cs)
        if isinstance(p, ast.MatchMapping):
            raise Unsupported("mapping pattern")
        raise Unsupported(f"pattern {type(p).__name__}")

    # ------------------------------------------------------------------ assignment
    def assign(self, t, v, fr):
        if isinstance(t, ast.Name):
            if t.id in fr.globals_decl:
                self.st.globals[(fr.module.name, t.id)] = v
            else:
                fr.locals[t.id] = v
        elif isinstance(t, ast.Attribute):
            self.setattr_(self.ev(t.value, fr), t.attr, v)
        elif isinstance(t, ast.Subscript):
            self.setitem(self.ev(t.value, fr), self.ev_index(t.slice, fr), v)
        elif isinstance(t, (ast.Tuple, ast.List)):
            star = [i for i, e in enumerate(t.elts) if isinstance(e, ast.Starred)]
            vals = list(self.iterate(v))
            if not star:
                if len(vals) != len(t.elts):
                    self.raise_py("ValueError", f"not enough/too many values to unpack (expected {len(t.elts)}, got {len(vals)})")
                for e, x in zip(t.elts, vals):
                    self.assign(e, x, fr)
            else:
                i = star[0]
                nafter = len(t.elts) - i - 1
                if len(vals) < len(t.elts) - 1:
                    self.raise_py("ValueError", "not enough values to unpack")
                for e, x in zip(t.elts[:i], vals[:i]):
                    self.assign(e, x, fr)
                self.assign(t.elts[i].value, ListV(vals[i: len(vals) - nafter]), fr)
                for e, x in zip(t.elts[i + 1:], vals[len(vals) - nafter:]):
                    self.assign(e, x, fr)
        else:
            raise Unsupported(f"assignment target {type(t).__name__}")

    # ------------------------------------------------------------------ expressions
    def ev(self, n, fr):
        m = getattr(self, "e_" + type(n).__name__, None)
        if m is None:
            raise Unsupported(f"expression {type(n).__name__}")
        return m(n, fr)

    def e_Constant(self, n, fr):
        return n.value

    def e_Name(self, n, fr):
        return self.lookup_name(n.id, fr)

    def e_Attribute(self, n, fr):
        return self.getattr_(self.ev(n.value, fr), n.attr)

    def e_Tuple(self, n, fr):
        return tuple(self._elts(n.elts, fr))

    def e_List(self, n, fr):
        return ListV(self._elts(n.elts, fr))

    def e_Set(self, n, fr):
        return self.make_set(self._elts(n.elts, fr))

    def _elts(self, elts, fr):
        out = []
        for e in elts:
            if isinstance(e, ast.Starred):
                out.extend(self.iterate(self.ev(e.value, fr)))
            else:
                out.append(self.ev(e, fr))
        return out

    def e_Dict(self, n, fr):
        d = DictV()
        for k, v in zip(n.keys, n.values):
            if k is None:
                src = self.ev(v, fr)
                for kk in self.iterate(src):
                    self.dict_set(d, kk, self.getitem(src, kk))
            else:
                self.dict_set(d, self.ev(k, fr), self.ev(v, fr))
        return d

    def e_BinOp(self, n, fr):
        return self.binop(n.op, self.ev(n.left, fr), self.ev(n.right, fr))

    def e_UnaryOp(self, n, fr):
        return self.unaryop(n.op, self.ev(n.operand, fr))

    def e_BoolOp(self, n, fr):
        isand = isinstance(n.op, ast.And)
        v = None
        for i, e in enumerate(n.values):
            v = self.ev(e, fr)
            if i == len(n.values) - 1:
                return v
            # `x or <number>` on a symbolic number: both outcomes merge into one term (no path split);
            # python: x if x else c
            if (not isand and i == len(n.values) - 2 and isinstance(v, SV) and v.ty in ("int", "real")
                    and isinstance(n.values[-1], ast.Constant) and type(n.values[-1].value) in (int, float)):
                cst = n.values[-1].value
                w = "real" if (v.ty == "real" or isinstance(cst, float)) else "int"
                zv, zc = to_z3(v, w), to_z3(cst, w)
                return SV(z3.If(zv != 0, zv, zc), w)
            c = self.truth(v)
            t = self.st.branch(c, f"boolop@{n.lineno}")
            if isand and not t:
                return v
            if not isand and t:
                return v
        return v

    def e_Compare(self, n, fr):
        left = self.ev(n.left, fr)
        res = True
        for op, r in zip(n.ops, n.comparators):
            right = self.ev(r, fr)
            c = self.compare(op, left, right)
            if len(n.ops) == 1:
                return self.wrap_bool(c)
            if not self.st.branch(c, f"cmp@{n.lineno}"):
                return False
            left = right
        return True

    def e_IfExp(self, n, fr):
        if self.st.branch(self.truth(self.ev(n.test, fr)), f"ifexp@{n.lineno}"):
            return self.ev(n.body, fr)
        return self.ev(n.orelse, fr)

    def e_NamedExpr(self, n, fr):
        v = self.ev(n.value, fr)
        self.assign(n.target, v, fr)
        return v

    def e_Lambda(self, n, fr):
        return self.make_function(n, fr.module, fr.cls, fr, None)

    def e_Starred(self, n, fr):
        raise Unsupported("starred expression")

    def e_Slice(self, n, fr):
        return slice(None if n.lower is None else self.ev(n.lower, fr),
                     None if n.upper is None else self.ev(n.upper, fr),
                     None if n.step is None else self.ev(n.step, fr))

    def ev_index(self, n, fr):
        return self.ev(n, fr)

    def e_Subscript(self, n, fr):
        return self.getitem(self.ev(n.value, fr), self.ev_index(n.slice, fr))

    def e_JoinedStr(self, n, fr):
        parts = []
        for v in n.values:
            if isinstance(v, ast.Constant):
                parts.append(v.value)
            else:
                parts.append(self.ev(v, fr))
        return self.str_concat(parts)

    def e_FormattedValue(self, n, fr):
        v = self.ev(n.value, fr)
        spec = None
        if n.format_spec is not None:
            spec = self.ev(n.format_spec, fr)
        return self.format_value(v, n.conversion, spec)

    def e_Call(self, n, fr):
        # super() needs the frame
        if isinstance(n.func, ast.Name) and n.func.id == "super" and not n.args:
            if fr.cls is None:
                raise Unsupported("super() outside class")
            a = fr.func.node.args
            first = (a.posonlyargs + a.args)[0].arg
            return SuperV(fr.cls, fr.locals[first])
        f = self.ev(n.func, fr)
        args = self._elts(n.args, fr)
        kwargs = {}
        for kw in n.keywords:
            if kw.arg is None:
                d = self.ev(kw.value, fr)
                if isinstance(d, DictV):
                    for k, v in zip(d.keys, d.vals):
                        if not isinstance(k, str):
                            raise Unsupported("** with non-str key")
                        if k in kwargs:
                            self.raise_py("TypeError", f"got multiple values for keyword argument {k!r}")
                        kwargs[k] = v
                elif isinstance(d, Opaque):
                    kwargs["**"] = d
                else:
                    raise Unsupported(f"** on {d!r}")
            else:
                kwargs[kw.arg] = self.ev(kw.value, fr)
        return self.call(f, args, kwargs)

    # comprehensions: evaluated eagerly (generator expressions too -- stated assumption)
    def _comp(self, gens, fr, emit):
        cf = Frame(fr.func, fr.module, fr.cls, fr)
        cf.local_names = set()

        def rec(i):
            if i == len(gens):
                emit(cf)
                return
            g = gens[i]
            it = self.ev(g.iter, cf if i else fr)
            if self.is_symbolic_iterable(it):
                raise Unsupported("comprehension over symbolic sequence")
            for v in self.iterate(it):
                self.assign(g.target, v, cf)
                ok = True
                for c in g.ifs:
                    if not self.st.branch(self.truth(self.ev(c, cf)), "comp-if"):
                        ok = False
                        break
                if ok:
                    rec(i + 1)

        rec(0)

    def e_ListComp(self, n, fr):
        h = self.comp_hook(n, fr)
        if h is not NOT_IMPLEMENTED:
            return h
        out = []
        self._comp(n.generators, fr, lambda cf: out.append(self.ev(n.elt, cf)))
        return ListV(out)

    def e_GeneratorExp(self, n, fr):
        h = self.comp_hook(n, fr)
        if h is not NOT_IMPLEMENTED:
            return h
        out = []
        self._comp(n.generators, fr, lambda cf: out.append(self.ev(n.elt, cf)))
        return IterV(iter(out))

    def e_SetComp(self, n, fr):
        h = self.comp_hook(n, fr)
        if h is not NOT_IMPLEMENTED:
            return h
        out = []
        self._comp(n.generators, fr, lambda cf: out.append(self.ev(n.elt, cf)))
        return self.make_set(out)

    def e_DictComp(self, n, fr):
        d = DictV()
        self._comp(n.generators, fr, lambda cf: self.dict_set(d, self.ev(n.key, cf), self.ev(n.value, cf)))
        return d

    def comp_hook(self, n, fr):
        """symbolic comprehension rules (pointwise map / filter over SymSeq); see seqmodel"""
        from . import seqmodel
        return seqmodel.comprehension(self, n, fr)

    def e_Yield(self, n, fr):
        raise Unsupported("yield used as a sub-expression")

    def e_Await(self, n, fr):
        raise Unsupported("await")


def _dotted(n):
    if isinstance(n, ast.Name):
        return n.id
    if isinstance(n, ast.Attribute):
        b = _dotted(n.value)
        return None if b is None else b + "." + n.attr
    return None


def _as_list(x):
    if x is None:
        return []
    if isinstance(x, list):
        return x
    return [("inv", x)]


def _has_kwdefault(a, x):
    i = a.kwonlyargs.index(x)
    return a.kw_defaults[i] is not None


def _import_names(body):
    out = set()
    for n in body:
        for m in ast.walk(n):
            if isinstance(m, ast.Import):
                for al in m.names:
                    out.add(al.asname or al.name.split(".")[0])
            elif isinstance(m, ast.ImportFrom):
                for al in m.names:
                    out.add(al.asname or al.name)
    return out
