"""numpy model (shape algebra exact; element arithmetic over the reals) -- trusted base."""
from __future__ import annotations
import z3
from .values import *


def getitem(I, a, i):
    raise Unsupported("ndarray indexing (model not loaded)")


def setitem(I, a, i, v):
    raise Unsupported("ndarray item assignment (model not loaded)")


def attr(I, a, name):
    raise Unsupported(f"ndarray.{name} (model not loaded)")
