"""numpy model for arrays of concrete shape with symbolic elements (trusted base, DESIGN 2.4).

Shape algebra is exact; element arithmetic is over the reals (floats treated as reals, NaN kept
as the python float nan and propagated); a `None` element makes the array dtype=object.
"""
from __future__ import annotations
import ast, math, z3, itertools
from .values import *
from .ops import to_z3, pyclass_kind, num_kind, NOT_IMPLEMENTED

NAN = float("nan")
NEWAXIS = None


def is_nan(x):
    return isinstance(x, float) and x != x


def shape_of(d):
    if isinstance(d, list):
        if not d:
            return (0,)
        s0 = shape_of(d[0])
        return (len(d),) + s0
    return ()


def flat(d):
    if isinstance(d, list):
        out = []
        for x in d:
            out.extend(flat(x))
        return out
    return [d]


def build(shape, fl):
    if not shape:
        return fl[0]
    if len(shape) == 1:
        return list(fl[:shape[0]])
    step = 1
    for s in shape[1:]:
        step *= s
    return [build(shape[1:], fl[i * step:(i + 1) * step]) for i in range(shape[0])]


def size(shape):
    n = 1
    for s in shape:
        n *= s
    return n


def mk(data, dtype=None):
    if dtype is None:
        fl = flat(data) if isinstance(data, list) else [data]
        if any(x is None or isinstance(x, (Obj, Opaque, str)) for x in fl):
            dtype = "object"
        elif fl and all(isinstance(x, bool) or (isinstance(x, SV) and x.ty == "bool") for x in fl):
            dtype = "bool"
        elif fl and all((isinstance(x, int) and not isinstance(x, bool)) or (isinstance(x, SV) and x.ty == "int") or isinstance(x, EnumVal) for x in fl):
            dtype = "int"
        else:
            dtype = "float"
    return NdArr(data=data, dtype=dtype, tail=shape_of(data))


def ashape(a):
    return a.tail if a.data is not None and isinstance(a.data, list) else ()


def to_data(I, x, allow_ragged=False):
    """python-level nested list of scalars from any array-like"""
    if isinstance(x, NdArr):
        if x.data is None:
            raise Unsupported("symbolic-length ndarray in concrete-shape context")
        return _copy(x.data)
    if isinstance(x, (ListV, tuple)) or (isinstance(x, Obj) and x.tag in ("deque",)) or isinstance(x, (IterV, GenV)):
        items = list(I.iterate(x))
        rows = [to_data(I, y) for y in items]
        shapes = {shape_of(r) if isinstance(r, list) else () for r in rows}
        if len(shapes) > 1:
            I.raise_py("ValueError", "setting an array element with a sequence. The requested array has an inhomogeneous shape")
        return rows
    if isinstance(x, EnumVal) and x.cls.is_intenum:
        return x.value
    return x


def _copy(d):
    return [_copy(x) for x in d] if isinstance(d, list) else d


def asarray(I, x, dtype=None):
    if isinstance(x, NdArr) and dtype is None:
        return x
    if isinstance(x, NdArr) and x.data is not None and norm_dtype(dtype) == (x.dtype or "float"):
        return x          # numpy: asarray of an array that already has the requested dtype is that very array (no copy)
    d = to_data(I, x)
    dt = norm_dtype(dtype)
    if dt in ("float", "int"):
        fl = flat(d) if isinstance(d, list) else [d]
        for v in fl:
            if v is None:
                I.raise_py("TypeError", "float() argument must be a string or a real number, not 'NoneType'")
            if isinstance(v, (str, Obj, Opaque)) or pyclass_kind(v) == "str":
                I.raise_py("ValueError", "could not convert to float")
        if dt == "float":
            d = _map(d, lambda v: float(v) if isinstance(v, (int, bool)) and not isinstance(v, float) else (SV(to_z3(v, "real"), "real") if isinstance(v, SV) and v.ty in ("int", "bool") else v))
    return mk(d, dt)


def is_single(dt):
    """the dtype names a 32-bit (or narrower) float: values stored in such an array are rounded (not modelled exactly: an
    uninterpreted rounding function, so nothing can be proved to survive the store unchanged)"""
    if isinstance(dt, str):
        s = dt.lstrip("<>=|")
        return s in ("f4", "f2", "float32", "float16", "single", "half")
    if isinstance(dt, Opaque):
        h = str(dt.head)
        if h == "np.dtype" and dt.args:
            return is_single(dt.args[0])
        return any(t in h for t in ("float32", "float16", ":single"))
    return False


def f32(x):
    return z3.Function("round_to_float32", z3.RealSort(), z3.RealSort())(x)


def norm_dtype(dt):
    if dt is None:
        return None
    if isinstance(dt, str):
        s = dt.lstrip("<>=|")
        if s.startswith("f") or "float" in s:
            return "float"
        if s.startswith(("i", "u")) or "int" in s:
            return "int"
        if s.startswith("b") and "bool" in s or s == "?":
            return "bool"
        if s in ("object", "O"):
            return "object"
        return "float"
    if isinstance(dt, ClassV):
        return {"float": "float", "int": "int", "bool": "bool", "object": "object"}.get(dt.name, "float")
    if isinstance(dt, Opaque):
        h = str(dt.head)
        if "float" in h:
            return "float"
        if "int" in h:
            return "int"
        if "bool" in h:
            return "bool"
        return "float"
    return "float"


def _map(d, f):
    return [_map(x, f) for x in d] if isinstance(d, list) else f(d)


def _zip(a, b, f):
    if isinstance(a, list):
        return [_zip(x, y, f) for x, y in zip(a, b)]
    return f(a, b)


def broadcast_to(I, d, shp, target):
    """broadcast nested data `d` of shape shp to target shape"""
    if shp == target:
        return d
    if len(shp) < len(target):
        shp = (1,) * (len(target) - len(shp)) + shp
        for _ in range(len(target) - len(shape_of(d) if isinstance(d, list) else ())):
            d = [d]
    for s, t in zip(shp, target):
        if s != t and s != 1:
            I.raise_py("ValueError", f"operands could not be broadcast together with shapes {shp} {target}")

    def rec(x, sh, tg):
        if not tg:
            return x
        if sh[0] == tg[0]:
            return [rec(y, sh[1:], tg[1:]) for y in x]
        return [rec(x[0], sh[1:], tg[1:]) for _ in range(tg[0])]
    return rec(d, shp, target)


def bshape(I, s1, s2):
    n = max(len(s1), len(s2))
    a = (1,) * (n - len(s1)) + tuple(s1)
    b = (1,) * (n - len(s2)) + tuple(s2)
    out = []
    for x, y in zip(a, b):
        if x == y or y == 1:
            out.append(x)
        elif x == 1:
            out.append(y)
        else:
            I.raise_py("ValueError", f"operands could not be broadcast together with shapes {s1} {s2}")
    return tuple(out)


def scalar_op(I, op, x, y):
    if is_nan(x) or is_nan(y):
        if isinstance(op, (ast.Add, ast.Sub, ast.Mult, ast.Div, ast.Pow)):
            return NAN
    if x is None or y is None:
        I.raise_py("TypeError", "unsupported operand type(s) for NoneType")
    if isinstance(op, ast.Div):
        # numpy: division by zero gives inf/nan with a warning, not an exception; contracts demand definedness
        zy = None
        if isinstance(y, SV):
            if I.st.branch(to_z3(y, "real") == 0, "np-div0"):
                I.st.event("np-division-by-zero")
                return NAN
        elif y == 0:
            I.st.event("np-division-by-zero")
            return NAN
    return I.binop(op, x, y)


def elementwise(I, op, a, b):
    A = a if isinstance(a, NdArr) else None
    B = b if isinstance(b, NdArr) else None
    da = A.data if A is not None else to_data(I, a)
    db = B.data if B is not None else to_data(I, b)
    sa = A.tail if A is not None and isinstance(da, list) else (shape_of(da) if isinstance(da, list) else ())
    sb = B.tail if B is not None and isinstance(db, list) else (shape_of(db) if isinstance(db, list) else ())
    tg = bshape(I, sa, sb)
    if tg and size(tg) == 0:
        return NdArr(data=build(tg, []), dtype=(A or B).dtype if (A or B) is not None else "float", tail=tg)
    xa = broadcast_to(I, da, sa, tg)
    xb = broadcast_to(I, db, sb, tg)
    if isinstance(op, ast.cmpop):
        res = _zip(xa, xb, lambda x, y: _cmp(I, op, x, y)) if tg else _cmp(I, op, xa, xb)
        return mk(res, "bool") if tg else res
    res = _zip(xa, xb, lambda x, y: scalar_op(I, op, x, y)) if tg else scalar_op(I, op, xa, xb)
    if not tg:
        return res
    dt = "object" if "object" in ((A.dtype if A else None), (B.dtype if B else None)) else None
    r = mk(res, dt)
    if isinstance(op, ast.Div) and r.dtype == "int":
        r.dtype = "float"
    return r


def _cmp(I, op, x, y):
    if is_nan(x) or is_nan(y):
        return isinstance(op, ast.NotEq)
    return I.wrap_bool(I.compare(op, x, y))


def getitem(I, a, idx):
    if a.data is None:
        raise Unsupported("indexing a symbolic-length ndarray")
    if not isinstance(idx, tuple):
        idx = (idx,)
    idx = _masks_to_positions(I, a, idx)
    if len(idx) == 1 and isinstance(idx[0], _Positions):
        out = []
        for pos in idx[0].pos:
            d = a.data
            for p_ in pos:
                d = d[p_]
            out.append(d)
        r_ = mk(out, a.dtype)
        if not out:
            r_.tail = (0,) + tuple(a.tail[idx[0].ndim:])
        return r_

    def rec(d, ix):
        if not ix:
            return d
        i, rest = ix[0], ix[1:]
        if i is None:
            return [rec(d, rest)]
        if i is Ellipsis:
            nrest = len([x for x in rest if x is not None])
            depth = len(shape_of(d)) - nrest if isinstance(d, list) else 0
            return rec(d, (slice(None),) * depth + rest)
        if not isinstance(d, list):
            I.raise_py("IndexError", "too many indices for array")
        if isinstance(i, slice):
            sl = I.conc_slice(i, len(d))
            return [rec(x, rest) for x in d[sl]]
        if isinstance(i, (ListV, NdArr, tuple)):
            ii = list(I.iterate(i)) if not isinstance(i, NdArr) else flat(i.data)
            return [rec(d[I.norm_index(j, len(d))], rest) for j in ii]
        return rec(d[I.norm_index(i, len(d))], rest)
    r = rec(a.data, idx)
    if isinstance(r, list):
        out = mk(r, a.dtype)
        if len(idx) == 1 and isinstance(idx[0], (ListV, tuple, NdArr)) and not r:
            out.tail = (0,) + tuple(a.tail[1:])      # fancy indexing with an empty index list keeps the trailing shape
        return out
    return r


class _Positions:
    """the True positions of an n-d boolean mask used as the only index (row-major order)"""
    def __init__(self, pos, ndim):
        self.pos, self.ndim = pos, ndim


def _is_boolarr(x):
    return isinstance(x, NdArr) and x.data is not None and (x.dtype == "bool" or (flat(x.data) and all(
        isinstance(e, bool) or (isinstance(e, SV) and e.ty == "bool") for e in flat(x.data))))


def _masks_to_positions(I, a, idx):
    """boolean masks select data-dependent positions: decided by path splitting on each mask element (shapes stay concrete)"""
    if not any(_is_boolarr(i) for i in idx):
        return idx
    if len(idx) == 1:
        m = idx[0]
        if tuple(m.tail) != tuple(a.tail[:len(m.tail)]):
            I.raise_py("IndexError", "boolean index did not match indexed array")
        pos = [p_ for p_ in itertools.product(*[range(n) for n in m.tail])]
        sel = []
        for p_ in pos:
            d = m.data
            for q in p_:
                d = d[q]
            if I.st.branch(I.truth(d), "mask"):
                sel.append(p_)
        return (_Positions(sel, len(m.tail)),)
    out = []
    for ax, i in enumerate(idx):
        if _is_boolarr(i):
            if len(i.tail) != 1:
                raise Unsupported("n-d boolean mask mixed with other indices")
            out.append(ListV([j for j, e in enumerate(i.data) if I.st.branch(I.truth(e), "mask")]))
        else:
            out.append(i)
    return tuple(out)


def setitem(I, a, idx, v):
    if a.data is None:
        raise Unsupported("assignment into a symbolic-length ndarray")
    if not isinstance(idx, tuple):
        idx = (idx,)
    idx = _masks_to_positions(I, a, idx)
    if len(idx) == 1 and isinstance(idx[0], _Positions):
        P_ = idx[0]
        if len(a.tail) != P_.ndim:
            raise Unsupported("boolean mask assignment of sub-arrays")
        dv = v.data if isinstance(v, NdArr) else to_data(I, v)
        if isinstance(dv, list):
            fl = flat(dv)
            if len(fl) != len(P_.pos):
                if len(fl) == 1:
                    fl = fl * len(P_.pos)
                else:
                    I.raise_py("ValueError", f"NumPy boolean array indexing assignment cannot assign {len(fl)} input values to the {len(P_.pos)} output values where the mask is true")
        else:
            fl = [dv] * len(P_.pos)
        for pos, val in zip(P_.pos, fl):
            d = a.data
            for p_ in pos[:-1]:
                d = d[p_]
            d[pos[-1]] = val
        return
    # positions selected
    shp = a.tail
    sel_axes = []
    for ax, i in enumerate(idx):
        if isinstance(i, slice):
            sel_axes.append(list(range(shp[ax]))[I.conc_slice(i, shp[ax])])
        elif isinstance(i, (ListV, tuple)):
            sel_axes.append([I.norm_index(j, shp[ax]) for j in I.iterate(i)])
        elif i is Ellipsis:
            raise Unsupported("ellipsis assignment")
        else:
            sel_axes.append(I.norm_index(i, shp[ax]))
    for ax in range(len(idx), len(shp)):
        sel_axes.append(list(range(shp[ax])))
    tshape = tuple(len(s) for s in sel_axes if isinstance(s, list))
    dv = v.data if isinstance(v, NdArr) else to_data(I, v)
    sv = tuple(v.tail) if isinstance(v, NdArr) and isinstance(dv, list) else (shape_of(dv) if isinstance(dv, list) else ())
    if size(tshape) == 0 or (sv and size(sv) == 0):
        bshape(I, sv, tshape)      # shape compatibility still checked; nothing to store
        if size(tshape) != 0 and bshape(I, sv, tshape) != tshape:
            I.raise_py("ValueError", f"could not broadcast input array from shape {sv} into shape {tshape}")
        if size(tshape) == 0:
            return
    if len(sv) > len(tshape):
        # leading 1-dims may be dropped
        while len(sv) > len(tshape) and sv[0] == 1:
            dv = dv[0]
            sv = sv[1:]
        if len(sv) > len(tshape):
            I.raise_py("ValueError", f"could not broadcast input array from shape {sv} into shape {tshape}")
    bv = broadcast_to(I, dv, sv, tshape)
    fl = flat(bv) if tshape else [bv]
    if a.dtype in ("float", "int"):
        for x in fl:
            if x is None:
                I.raise_py("TypeError", "float() argument must be a string or a real number, not 'NoneType'")
    if getattr(a, "single", False):
        fl = [SV(f32(to_z3(x, "real")), "real") if (num_kind(x) or type(x) in (int, float)) and not is_nan(x) else x for x in fl]
    lists = [s if isinstance(s, list) else [s] for s in sel_axes]
    for pos, val in zip(itertools.product(*lists), fl):
        d = a.data
        for p in pos[:-1]:
            d = d[p]
        d[pos[-1]] = val


def inplace(I, op, a, v):
    r = elementwise(I, op, a, v)
    if tuple(r.tail) != tuple(a.tail):
        I.raise_py("ValueError", "non-broadcastable output operand")
    # numpy's in-place operators write into the array's own buffer: views of it (a row handed out earlier, or the array this one is
    # a view of) see the new numbers -- the nested lists are shared between an array and its views, so they are filled, not replaced
    def fill(dst, src):
        for i_ in range(len(dst)):
            if isinstance(dst[i_], list):
                fill(dst[i_], src[i_])
            else:
                dst[i_] = src[i_]
    if isinstance(a.data, list) and isinstance(r.data, list) and len(a.data) == len(r.data):
        fill(a.data, r.data)
    else:
        a.data = r.data
    return a


def attr(I, a, name):
    if name == "shape":
        if a.data is None:
            return (SV(a.n, "int"),) + tuple(a.tail)
        return tuple(a.tail)
    if name == "ndim":
        return len(a.tail) + (1 if a.data is None else 0)
    if name == "size":
        return size(a.tail)
    if name == "dtype":
        return Opaque(f"dtype:{a.dtype}")
    if name == "T":
        return transpose(I, a)
    m = METHODS.get(name)
    if m is None:
        raise Unsupported(f"ndarray.{name}")
    return Builtin(f"ndarray.{name}", lambda i, args, kw: m(i, a, args, kw))


def transpose(I, a):
    if len(a.tail) < 2:
        return a
    if len(a.tail) != 2:
        raise Unsupported("transpose of >2-d array")
    n, m = a.tail
    return mk([[a.data[i][j] for i in range(n)] for j in range(m)], a.dtype)


def reduce_sum(I, xs):
    acc = 0
    first = True
    for x in xs:
        acc = x if first else scalar_op(I, ast.Add(), acc, x)
        first = False
    return acc if not first else 0.0


def np_sum(I, a, axis=None):
    a = asarray(I, a)
    if axis is None:
        return reduce_sum(I, flat(a.data))
    return reduce_axis(I, a, axis, lambda xs: reduce_sum(I, xs))


def reduce_axis(I, a, axis, f):
    shp = a.tail
    if axis < 0:
        axis += len(shp)

    def rec(d, ax):
        if ax == 0:
            if len(shape_of(d)) == 1:
                return f(d)
            # reduce over first axis of nested
            inner = shape_of(d)[1:]
            cols = [flat(x) for x in d]
            red = [f([c[i] for c in cols]) for i in range(size(inner))]
            return build(inner, red)
        return [rec(x, ax - 1) for x in d]
    r = rec(a.data, axis)
    return mk(r) if isinstance(r, list) else r


def sqrt(I, x):
    if type(x) in (int, float, bool):
        if is_nan(x):
            return NAN
        if x < 0:
            return NAN
        return math.sqrt(x)
    z = to_z3(x, "real")
    st = I.st
    key = ("sqrt", z.get_id())
    if key in st.ghost:
        return st.ghost[key][0]
    r = st.fresh("sqrt", z3.RealSort())
    if st.branch(z < 0, "sqrt-negative"):
        st.event("np-sqrt-negative")
        return NAN
    st.assume(z3.And(r >= 0, r * r == z))
    v = SV(r, "real")
    st.ghost[key] = (v, z)
    return v


def sqrt_sumsq(I, xs):
    """euclidean norm: sqrt of a sum of squares is always defined (no negative branch)"""
    ssq = reduce_sum(I, [scalar_op(I, ast.Mult(), x, x) for x in xs])
    if type(ssq) in (int, float):
        return NAN if is_nan(ssq) else math.sqrt(ssq)
    st = I.st
    z = to_z3(ssq, "real")
    key = ("sqrt", z.get_id())
    if key in st.ghost:
        return st.ghost[key][0]
    r = st.fresh("norm", z3.RealSort())
    st.assume(z3.And(r >= 0, r * r == z))
    v = SV(r, "real")
    st.ghost[key] = (v, z)     # keep the term alive: z3 ast ids are reused after garbage collection
    return v


def norm(I, a, axis=None):
    a = asarray(I, a)
    if axis is None:
        return sqrt_sumsq(I, flat(a.data))
    return reduce_axis(I, a, axis, lambda xs: sqrt_sumsq(I, xs))


def trig(I, name, x):
    """sin/cos of a symbolic angle: symbols s, c with s*s + c*c == 1 (per angle term)"""
    if type(x) in (int, float):
        return getattr(math, name)(x)
    st = I.st
    z = to_z3(x, "real")
    key = ("trig", z.get_id())
    if key not in st.ghost:
        s_, c_ = st.fresh("sin", z3.RealSort()), st.fresh("cos", z3.RealSort())
        st.assume(s_ * s_ + c_ * c_ == 1)
        st.ghost[key] = (SV(s_, "real"), SV(c_, "real"), z)
    return st.ghost[key][0 if name == "sin" else 1]


def dot(I, a, b):
    a, b = asarray(I, a), asarray(I, b)
    sa, sb = a.tail, b.tail
    M = ast.Mult()
    if len(sa) == 1 and len(sb) == 1:
        if sa != sb:
            I.raise_py("ValueError", f"shapes {sa} and {sb} not aligned")
        return reduce_sum(I, [scalar_op(I, M, x, y) for x, y in zip(a.data, b.data)])
    if len(sa) == 2 and len(sb) == 1:
        if sa[1] != sb[0]:
            I.raise_py("ValueError", f"shapes {sa} and {sb} not aligned")
        return mk([reduce_sum(I, [scalar_op(I, M, x, y) for x, y in zip(row, b.data)]) for row in a.data])
    if len(sa) == 1 and len(sb) == 2:
        if sa[0] != sb[0]:
            I.raise_py("ValueError", f"shapes {sa} and {sb} not aligned")
        return mk([reduce_sum(I, [scalar_op(I, M, a.data[k], b.data[k][j]) for k in range(sa[0])]) for j in range(sb[1])])
    if len(sa) == 2 and len(sb) == 2:
        if sa[1] != sb[0]:
            I.raise_py("ValueError", f"shapes {sa} and {sb} not aligned")
        return mk([[reduce_sum(I, [scalar_op(I, M, a.data[i][k], b.data[k][j]) for k in range(sa[1])]) for j in range(sb[1])]
                   for i in range(sa[0])])
    if len(sa) == 3 and len(sb) == 2:
        r = mk([dot(I, mk(x), b).data for x in a.data])
        r.tail = (sa[0], sa[1], sb[1])
        return r
    if len(sa) == 3 and len(sb) == 3:
        # matmul semantics (the `@` operator): the leading axis is a batch axis and broadcasts (1 against n)
        if sa[0] != sb[0] and 1 not in (sa[0], sb[0]):
            I.raise_py("ValueError", f"matmul: operands could not be broadcast together with shapes {sa} {sb}")
        if sa[2] != sb[1]:
            I.raise_py("ValueError", f"matmul: shapes {sa} and {sb} not aligned")
        nb = max(sa[0], sb[0])
        r = mk([dot(I, mk(a.data[c if sa[0] > 1 else 0]), mk(b.data[c if sb[0] > 1 else 0])).data for c in range(nb)])
        r.tail = (nb, sa[1], sb[2])
        return r
    raise Unsupported(f"dot of shapes {sa} {sb}")


def cross(I, a, b):
    a, b = asarray(I, a), asarray(I, b)
    if a.tail != (3,) or b.tail != (3,):
        raise Unsupported("cross of non 3-vectors")
    x, y = a.data, b.data
    M, S = ast.Mult(), ast.Sub()
    f = lambda p, q, r, s: scalar_op(I, S, scalar_op(I, M, p, q), scalar_op(I, M, r, s))
    return mk([f(x[1], y[2], x[2], y[1]), f(x[2], y[0], x[0], y[2]), f(x[0], y[1], x[1], y[0])])


def outer(I, a, b):
    a, b = asarray(I, a), asarray(I, b)
    return mk([[scalar_op(I, ast.Mult(), x, y) for y in flat(b.data)] for x in flat(a.data)])


def m_copy(I, a, args, kw):
    return NdArr(data=_copy(a.data), dtype=a.dtype, tail=a.tail) if a.data is not None else NdArr(a.rows, a.n, a.tail, a.dtype)


def m_astype(I, a, args, kw):
    return mk(_copy(a.data), norm_dtype(args[0]))


def m_tolist(I, a, args, kw):
    def rec(d):
        return ListV([rec(x) for x in d]) if isinstance(d, list) else d
    return rec(a.data)


def m_reshape(I, a, args, kw):
    shp = args[0] if len(args) == 1 and isinstance(args[0], tuple) else tuple(args)
    shp = tuple(x.value if isinstance(x, EnumVal) else x for x in shp)
    if not all(isinstance(x, int) for x in shp):
        raise Unsupported("reshape with symbolic shape")
    fl = flat(a.data)
    shp = list(shp)
    if -1 in shp:
        k = shp.index(-1)
        rest = size([s for s in shp if s != -1])
        if rest == 0 or len(fl) % rest:
            I.raise_py("ValueError", f"cannot reshape array of size {len(fl)} into shape {tuple(shp)}")
        shp[k] = len(fl) // rest
    if size(shp) != len(fl):
        I.raise_py("ValueError", f"cannot reshape array of size {len(fl)} into shape {tuple(shp)}")
    r = mk(build(tuple(shp), fl), a.dtype)
    r.tail = tuple(shp)
    return r


METHODS = {"copy": m_copy, "astype": m_astype, "tolist": m_tolist, "reshape": m_reshape,
           "flatten": lambda I, a, args, kw: mk(flat(a.data), a.dtype), "ravel": lambda I, a, args, kw: mk(flat(a.data), a.dtype),
           "sum": lambda I, a, args, kw: np_sum(I, a, kw.get("axis", args[0] if args else None)),
           "dot": lambda I, a, args, kw: dot(I, a, args[0]),
           "any": lambda I, a, args, kw: I.wrap_bool(I.or_(*[I.truth(x) for x in flat(a.data)])),
           "all": lambda I, a, args, kw: I.wrap_bool(I.and_(*[I.truth(x) for x in flat(a.data)])),
           "__len__": lambda I, a, args, kw: a.tail[0],
           "transpose": lambda I, a, args, kw: transpose(I, a),
           "tobytes": lambda I, a, args, kw: Obj(I.builtins["bytes"], {"flat": flat(a.data) if a.data is not None else None,
                                                                       "dtype": a.dtype}, tag="npbytes"),
           }


def install(I, mkcls, meth):
    E = I.ext_models
    nd = I.builtins["ndarray"]
    E["numpy.ndarray"] = nd
    E["numpy.nan"] = NAN
    E["numpy.newaxis"] = None
    E["numpy.pi"] = math.pi
    E["numpy.inf"] = math.inf
    for n in ("float32", "float64", "float16", "int64", "int32", "float_", "double", "single"):
        E[f"numpy.{n}"] = Opaque(f"dtype:{'float' if 'float' in n or n in ('double', 'single') else 'int'}:{n}")
    E["numpy.typing.ArrayLike"] = Opaque("ArrayLike")
    T = "numpy: shape algebra exact; element arithmetic over the reals"

    def reg(name):
        def deco(fn):
            E[f"numpy.{name}"] = Builtin(f"np.{name}", fn, T)
            return fn
        return deco

    @reg("array")
    def _array(i, a, k):
        dt = k.get("dtype", a[1] if len(a) > 1 else None)
        r = asarray(i, a[0], dt)
        if isinstance(a[0], NdArr):
            r = NdArr(data=_copy(r.data), dtype=r.dtype, tail=r.tail)
        if not isinstance(r.data, list):
            r.tail = ()
        return r
    E["numpy.asarray"] = Builtin("np.asarray", lambda i, a, k: asarray(i, a[0], k.get("dtype", a[1] if len(a) > 1 else None)), T)

    def _full(i, shp, val, dt=None):
        if isinstance(shp, int):
            shp = (shp,)
        shp = tuple(x.value if isinstance(x, EnumVal) else x for x in (shp if isinstance(shp, tuple) else tuple(i.iterate(shp))))
        if not all(isinstance(x, int) for x in shp):
            raise Unsupported("array allocation with symbolic shape (concrete-shape numpy model)")
        r = NdArr(data=build(shp, [val] * size(shp)) if shp else val, dtype=norm_dtype(dt) or "float", tail=shp)
        if is_single(dt):
            r.single = True          # allocated as float32/float16: stores round
        if size(shp) == 0:
            r.data = build(shp, []) if len(shp) == 1 else [[] for _ in range(shp[0])] if shp[0] else []
        return r

    reg("empty")(lambda i, a, k: _full(i, a[0], i.st.fresh_sv("uninit", "real") if False else 0.0, k.get("dtype", a[1] if len(a) > 1 else None)))
    reg("zeros")(lambda i, a, k: _full(i, a[0], 0.0, k.get("dtype", a[1] if len(a) > 1 else None)))
    reg("ones")(lambda i, a, k: _full(i, a[0], 1.0, k.get("dtype", a[1] if len(a) > 1 else None)))
    reg("full")(lambda i, a, k: _full(i, a[0], a[1], k.get("dtype", a[2] if len(a) > 2 else None)))
    reg("zeros_like")(lambda i, a, k: _full(i, asarray(i, a[0]).tail, 0.0, k.get("dtype")))
    reg("eye")(lambda i, a, k: mk([[1.0 if r == c else 0.0 for c in range(a[0])] for r in range(a[0])]))
    # ascontiguousarray / asanyarray: like asarray, an array that already has the requested dtype is returned as it is (no copy)
    reg("ascontiguousarray")(lambda i, a, k: asarray(i, a[0], k.get("dtype", a[1] if len(a) > 1 else None)))
    reg("asanyarray")(lambda i, a, k: asarray(i, a[0], k.get("dtype", a[1] if len(a) > 1 else None)))
    reg("dtype")(lambda i, a, k: Opaque("np.dtype", (a[0],)))
    reg("reshape")(lambda i, a, k: m_reshape(i, asarray(i, a[0]) if not (isinstance(a[0], (ListV, tuple)) and not list(i.iterate(a[0]))) else mk([], "float"),
                                             [a[1]] if len(a) > 1 else [k.get("newshape", k.get("shape"))], {}))
    reg("dot")(lambda i, a, k: dot(i, a[0], a[1]))
    reg("matmul")(lambda i, a, k: dot(i, a[0], a[1]))
    reg("cross")(lambda i, a, k: cross(i, a[0], a[1]))
    reg("outer")(lambda i, a, k: outer(i, a[0], a[1]))
    reg("sum")(lambda i, a, k: np_sum(i, a[0], k.get("axis", a[1] if len(a) > 1 else None)))
    reg("sqrt")(lambda i, a, k: sqrt(i, a[0]) if not isinstance(a[0], NdArr) else mk(_map(a[0].data, lambda x: sqrt(i, x))))
    reg("abs")(lambda i, a, k: i.call(i.builtins["abs"], [a[0]], {}) if not isinstance(a[0], NdArr) else mk(_map(a[0].data, lambda x: i.call(i.builtins["abs"], [x], {}))))
    E["numpy.linalg.norm"] = Builtin("np.linalg.norm", lambda i, a, k: norm(i, a[0], k.get("axis")), T)

    def _rounding(kind):
        def one(i, x):
            if type(x) in (int, float):
                import numpy as _n
                return float({"rint": round, "round": round, "floor": __import__("math").floor, "ceil": __import__("math").ceil}[kind](x))
            kd = num_kind(x)
            if kd is None:
                raise Unsupported(f"np.{kind} on {x!r}")
            zx = to_z3(x, "real")
            f = z3.ToReal(z3.ToInt(zx))
            if kind == "floor":
                return SV(f, "real")
            if kind == "ceil":
                return SV(z3.If(f == zx, f, f + 1), "real")
            # round half to even
            d = zx - f
            even = z3.ToInt(zx) % 2 == 0
            return SV(z3.If(d < z3.RealVal("1/2"), f, z3.If(d > z3.RealVal("1/2"), f + 1, z3.If(even, f, f + 1))), "real")

        def fn(i, a, k):
            if len(a) > 1 or k.get("decimals"):
                raise Unsupported(f"np.{kind} with decimals")
            x = a[0]
            return mk(_map(x.data, lambda y: one(i, y))) if isinstance(x, NdArr) else one(i, x)
        return fn
    for _k in ("rint", "round", "floor", "ceil"):
        reg(_k)(_rounding(_k))

    @reg("vstack")
    def _vstack(i, a, k):
        parts = [asarray(i, x) for x in i.iterate(a[0])]
        rows = []
        for p in parts:
            rows.extend(p.data if len(p.tail) > 1 else [p.data])
        if len({len(r) for r in rows}) > 1:
            i.raise_py("ValueError", "all the input array dimensions except for the concatenation axis must match exactly")
        return mk(rows)

    @reg("append")
    def _append(i, a, k):
        arr, vals = asarray(i, a[0]), asarray(i, a[1])
        axis = k.get("axis", a[2] if len(a) > 2 else None)
        if axis is None:
            return mk(flat(arr.data) + flat(vals.data))
        if axis != 0:
            raise Unsupported("np.append axis != 0")
        if len(arr.tail) != len(vals.tail):
            i.raise_py("ValueError", "all the input arrays must have same number of dimensions")
        if arr.tail[1:] != vals.tail[1:]:
            i.raise_py("ValueError", "all the input array dimensions except for the concatenation axis must match exactly")
        dt = "object" if "object" in (arr.dtype, vals.dtype) else arr.dtype
        return mk(_copy(arr.data) + _copy(vals.data), dt)

    @reg("resize")
    def _resize(i, a, k):
        # np.resize(a, new_shape): a NEW array of that shape filled with (repeated) copies of a's elements in C order
        arr = asarray(i, a[0])
        shp = a[1] if len(a) > 1 else k.get("new_shape")
        shp = tuple(i.iterate(shp)) if not isinstance(shp, int) else (shp,)
        if not all(type(x) is int and x >= 0 for x in shp):
            raise Unsupported("np.resize with a symbolic shape")
        src = flat(_copy(arr.data)) if isinstance(arr.data, list) else [arr.data]
        n = 1
        for x in shp:
            n *= x
        if not src:
            fl = [0.0] * n
        else:
            fl = [src[j % len(src)] for j in range(n)]
        r = mk(build(shp, fl), arr.dtype)
        r.tail = shp
        return r

    @reg("delete")
    def _delete(i, a, k):
        arr = asarray(i, a[0])
        axis = k.get("axis", a[2] if len(a) > 2 else None)
        if axis != 0:
            raise Unsupported("np.delete axis != 0")
        idx = a[1]
        n = arr.tail[0]
        if isinstance(idx, (ListV, tuple)):
            js = sorted({i.norm_index(j, n) for j in i.iterate(idx)})
        else:
            js = [i.norm_index(idx, n)]
        d = [r for p, r in enumerate(_copy(arr.data)) if p not in js]
        r = mk(d, arr.dtype)
        r.tail = (len(d),) + arr.tail[1:]
        return r

    @reg("where")
    def _where(i, a, k):
        if len(a) == 3:
            c = asarray(i, a[0])
            x = broadcast_to(i, to_data(i, a[1]), shape_of(to_data(i, a[1])) if isinstance(to_data(i, a[1]), list) else (), c.tail)
            y = broadcast_to(i, to_data(i, a[2]), shape_of(to_data(i, a[2])) if isinstance(to_data(i, a[2]), list) else (), c.tail)
            fl = [xx if i.st.branch(i.truth(cc), "np.where") else yy for cc, xx, yy in zip(flat(c.data), flat(x), flat(y))]
            return mk(build(c.tail, fl))
        raise Unsupported("np.where with one argument")

    @reg("average")
    def _average(i, a, k):
        arr = asarray(i, a[0])
        axis = k.get("axis", a[1] if len(a) > 1 else None)
        w = k.get("weights")
        arr = mk(_map(arr.data, lambda x: _num(i, x)), "float") if flat(arr.data) else arr
        if w is not None:
            wv = flat(asarray(i, w).data)
            if axis is None:
                if len(arr.tail) != 1:
                    raise Unsupported("np.average with weights and axis=None on an n-d array")
                axis = 0
            if len(wv) != arr.tail[axis]:
                i.raise_py("ValueError", "Length of weights not compatible with specified axis.")
            tot = reduce_sum(i, wv)
            if isinstance(tot, SV):
                if i.st.branch(to_z3(tot, "real") == 0, "weights-sum-to-zero"):
                    i.raise_py("ZeroDivisionError", "Weights sum to zero, can't be normalized")
            elif tot == 0:
                i.raise_py("ZeroDivisionError", "Weights sum to zero, can't be normalized")
            if size(arr.tail) == 0:
                rest = arr.tail[:axis] + arr.tail[axis + 1:]
                return mk(build(rest, []))
            return reduce_axis(i, arr, axis, lambda xs: scalar_op(i, ast.Div(), reduce_sum(i, [i.binop(ast.Mult(), ww, xx) for ww, xx in zip(wv, xs)]), tot))
        if axis is None:
            fl = flat(arr.data)
            if not fl:
                i.st.event("np-mean-of-empty")
                return NAN
            return scalar_op(i, ast.Div(), reduce_sum(i, fl), float(len(fl)))
        n = arr.tail[axis]
        if n == 0:
            i.st.event("np-mean-of-empty")
            rest = arr.tail[:axis] + arr.tail[axis + 1:]
            return mk(build(rest, [NAN] * size(rest))) if rest else NAN
        return reduce_axis(i, arr, axis, lambda xs: scalar_op(i, ast.Div(), reduce_sum(i, xs), float(len(xs))))
    E["numpy.mean"] = E["numpy.average"]

    @reg("argmin")
    def _argmin(i, a, k):
        arr = asarray(i, a[0])
        if len(arr.tail) != 1 or k.get("axis") is not None:
            raise Unsupported("np.argmin on >1-d arrays")
        best, bj = arr.data[0], 0
        for j, x in enumerate(arr.data[1:], 1):
            if i.st.branch(i.compare(ast.Lt(), x, best), "argmin"):
                best, bj = x, j
        return bj

    reg("fromiter")(lambda i, a, k: mk(list(i.iterate(a[0])), norm_dtype(k.get("dtype", a[1] if len(a) > 1 else None))))
    def _anyall(which):
        def fn(i, a, k):
            arr = asarray(i, a[0])
            axis = k.get("axis", a[1] if len(a) > 1 else None)
            if axis is None:
                return METHODS[which](i, arr, [], {})
            comb = i.or_ if which == "any" else i.and_
            r = reduce_axis(i, arr, axis, lambda xs: i.wrap_bool(comb(*[i.truth(x) for x in xs])))
            if isinstance(r, NdArr):
                r.dtype = "bool"
            return r
        return fn
    reg("any")(_anyall("any"))
    reg("all")(_anyall("all"))

    def _num(i, x):
        """bool -> number, as numpy does in arithmetic reductions"""
        if isinstance(x, bool):
            return 1.0 if x else 0.0
        if isinstance(x, SV) and x.ty == "bool":
            return SV(z3.If(x.z, z3.RealVal(1), z3.RealVal(0)), "real")
        return x

    @reg("take")
    def _take(i, a, k):
        if k.get("axis") is not None or len(a) > 2:
            raise Unsupported("np.take with axis")
        src = flat(asarray(i, a[0]).data)
        n = len(src)

        def one(j):
            if isinstance(j, SV):
                zj = to_z3(j, "int")
                if i.st.branch(z3.Or(zj < -n, zj >= n), "take-out-of-range"):
                    i.raise_py("IndexError", "index out of range for np.take")
                zj = z3.If(zj < 0, zj + n, zj)
                if all(num_kind(x) for x in src):
                    w = "real" if any(num_kind(x) == "real" for x in src) else "int"
                    e = to_z3(src[-1], w)
                    for p_ in range(n - 2, -1, -1):
                        e = z3.If(zj == p_, to_z3(src[p_], w), e)
                    return SV(e, w)
                for p_ in range(n):
                    if i.st.branch(zj == p_, "take-index"):
                        return src[p_]
                raise PathEnd("unreachable take index")
            return src[i.norm_index(j, n)]
        ix = a[1]
        if isinstance(ix, NdArr):
            r_ = mk(_map(ix.data, one))
            if not flat(ix.data):
                r_.tail = tuple(ix.tail)
            return r_
        if isinstance(ix, (ListV, tuple)):
            return mk([one(j) for j in i.iterate(ix)])
        return one(ix)

    @reg("max")
    def _max(i, a, k):
        if k.get("axis") is not None or len(a) > 1:
            raise Unsupported("np.max with axis")
        fl = flat(asarray(i, a[0]).data)
        if not fl:
            i.raise_py("ValueError", "zero-size array to reduction operation maximum which has no identity")
        best = fl[0]
        for x in fl[1:]:
            if type(best) in (int, float) and type(x) in (int, float):
                best = max(best, x)
            else:
                zb, zx = to_z3(best, "real"), to_z3(x, "real")
                best = SV(z3.If(zx > zb, zx, zb), "real")
        return best
    E["numpy.amax"] = E["numpy.max"]
    reg("isnan")(lambda i, a, k: is_nan(a[0]) if not isinstance(a[0], NdArr) else mk(_map(a[0].data, is_nan), "bool"))
    reg("radians")(lambda i, a, k: i.binop(ast.Mult(), a[0], math.pi / 180))
    reg("allclose")(lambda i, a, k: (_ for _ in ()).throw(Unsupported("np.allclose")))
    for fn in ("arctan2", "arccos", "arctan", "sin", "cos", "linalg.svd", "linalg.inv", "random.rand", "linspace", "meshgrid",
               "column_stack", "arange"):
        E.setdefault(f"numpy.{fn}", Builtin(f"np.{fn}", (lambda name: lambda i, a, k: i.np_hook(name, a, k))(fn), T))

    def _frombuffer(i, a, k):
        b = a[0]
        if isinstance(b, Obj) and b.tag == "npbytes":
            # byte codec = identity on the reals (binary32 rounding is the stated precision of the claim)
            r = mk(list(b.fields["flat"]), "float")
            r.tail = (len(b.fields["flat"]),)
            return r
        raise Unsupported("np.frombuffer on non-numpy bytes")
    E["numpy.frombuffer"] = Builtin("np.frombuffer", _frombuffer, "numpy: frombuffer(tobytes(x)) = x up to binary32 rounding")

    def np_hook(name, a, k):
        h = I.st.ghost.get(("np", name))
        if h is None:
            raise Unsupported(f"no model for numpy.{name} in this unit")
        return h(I, a, k)
    I.np_hook = np_hook
