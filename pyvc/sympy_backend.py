"""sympy back end: polynomial identities over the reals by ideal membership.

A goal  And(l1 == r1, ...)  is proved when, for every conjunct, the numerator of l - r reduces to 0
modulo the Groebner basis of the polynomial equalities found in the path condition (e.g. n*n == v.v for
each norm symbol, s*s + c*c == 1 for sin/cos).  Denominators are non-zero by the path condition (the
executor branches on every division).  z3's nlsat returned `unknown` on these identities (DESIGN 2.7).
"""
from __future__ import annotations
import z3, sympy, time, fractions


class NotPolynomial(Exception):
    pass


def to_sympy(e, syms):
    if z3.is_rational_value(e):
        return sympy.Rational(e.numerator_as_long(), e.denominator_as_long())
    if z3.is_int_value(e):
        return sympy.Integer(e.as_long())
    if z3.is_algebraic_value(e):
        raise NotPolynomial("algebraic literal")
    if z3.is_app(e) and e.decl().kind() == z3.Z3_OP_UNINTERPRETED:
        n = e.decl().name() if e.num_args() == 0 else str(e)       # uninterpreted applications are opaque symbols
        if n not in syms:
            syms[n] = sympy.Symbol(n, real=True)
        return syms[n]
    k = e.decl().kind()
    ch = [to_sympy(c, syms) for c in e.children()]
    if k == z3.Z3_OP_ADD:
        return sympy.Add(*ch)
    if k == z3.Z3_OP_MUL:
        return sympy.Mul(*ch)
    if k == z3.Z3_OP_SUB:
        r = ch[0]
        for c in ch[1:]:
            r = r - c
        return r
    if k == z3.Z3_OP_UMINUS:
        return -ch[0]
    if k in (z3.Z3_OP_DIV,):
        return ch[0] / ch[1]
    if k == z3.Z3_OP_POWER:
        return ch[0] ** ch[1]
    if k == z3.Z3_OP_TO_REAL:
        return ch[0]
    raise NotPolynomial(f"operator {e.decl().name()}")


def conjuncts(f):
    if z3.is_and(f):
        for c in f.children():
            yield from conjuncts(c)
    else:
        yield f


def ideal_generators(pc, syms):
    gens = []
    for f in pc:
        for c in conjuncts(f):
            if z3.is_eq(c) and c.arg(0).sort() == z3.RealSort():
                try:
                    d = sympy.together(to_sympy(c.arg(0), syms) - to_sympy(c.arg(1), syms))
                    num, den = sympy.fraction(d)
                    num = sympy.expand(num)
                    if num != 0 and num.free_symbols:
                        gens.append(num)
                except NotPolynomial:
                    continue
    return gens


def prove(pc, goal, timeout_s=60, hyps=None):
    """-> ('proved'|'unknown'|'refuted-candidate', info)"""
    t0 = time.time()
    syms = {}
    eqs = []
    try:
        for c in conjuncts(goal):
            if z3.is_true(c):
                continue
            if not (z3.is_eq(c) and c.arg(0).sort() == z3.RealSort()):
                return "unknown", "goal is not a conjunction of real equalities"
            eqs.append(to_sympy(c.arg(0), syms) - to_sympy(c.arg(1), syms))
        gens = ideal_generators(pc if hyps is None else hyps, syms)
    except NotPolynomial as e:
        return "unknown", str(e)
    allsyms = sorted({s for g in gens for s in g.free_symbols} | {s for e in eqs for s in e.free_symbols}, key=lambda s: s.name)
    G = None
    # cheap complete-in-practice pre-pass: defining equations  n**2 == p  (norm symbols) used as rewrite rules
    rules = []
    def _idx(sym):
        nm = sym.name
        return int(nm.split("!")[1]) if "!" in nm and nm.split("!")[1].isdigit() else 0
    for g_ in gens:
        # the symbol a generator *defines* is the most recently created norm/sqrt symbol in it (deterministic choice)
        for sym in sorted(g_.free_symbols, key=lambda x: (-_idx(x), x.name)):
            pl = sympy.Poly(g_, sym)
            if pl.degree() == 2 and pl.coeff_monomial(sym) == 0 and sym not in pl.coeff_monomial(1).free_symbols \
                    and sym not in sympy.sympify(pl.coeff_monomial(sym ** 2)).free_symbols and sym.name.startswith(("norm", "sqrt", "sin")):
                rules.append((sym, sympy.together(-pl.coeff_monomial(1) / pl.coeff_monomial(sym ** 2))))
                break

    def rewrite(poly):
        # rules are applied innermost-last (later norm symbols are defined in terms of earlier ones)
        for _ in range(8):
            changed = False
            for sym, rhs in reversed(rules):
                if sym in poly.free_symbols:
                    pp = sympy.Poly(poly, sym)
                    if pp.degree() >= 2:
                        new = 0
                        for (k,), c in pp.terms():
                            new += c * sym ** (k % 2) * rhs ** (k // 2)
                        num_, _den = sympy.fraction(sympy.together(new))
                        poly = sympy.expand(num_)
                        changed = True
                        if poly == 0:
                            return poly
            if not changed:
                break
        return poly
    todo = []
    for e in eqs:
        num, den = sympy.fraction(sympy.together(e))
        num = sympy.expand(num)
        if num == 0:
            continue
        if rules and rewrite(num) == 0:
            continue
        todo.append(e)
    if not todo:
        return "proved", f"{len(eqs)} identities by rewriting with {len(rules)} defining equations"
    if time.time() - t0 > timeout_s:
        return "unknown", "timeout"
    try:
        G = sympy.groebner(gens, *allsyms, order="grevlex") if gens else None
    except Exception as e:
        return "unknown", f"groebner failed: {e}"
    for e in todo:
        num, den = sympy.fraction(sympy.together(e))
        num = sympy.expand(num)
        if num == 0:
            continue
        if G is None:
            return "unknown", f"non-zero polynomial {str(num)[:120]}"
        try:
            _, rem = G.reduce(num)
        except Exception as ex:
            return "unknown", f"reduce failed: {ex}"
        if sympy.expand(rem) != 0:
            return "unknown", f"remainder {str(rem)[:160]}"
        if time.time() - t0 > timeout_s:
            return "unknown", "timeout"
    return "proved", f"{len(eqs)} identities modulo {len(gens)} generators"
