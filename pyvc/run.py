"""Check driver: generate obligations from /repo's current source, discharge, replay, report."""
from __future__ import annotations
import sys, os, json, time, glob, importlib.util, traceback, subprocess, hashlib, argparse, tempfile
import concurrent.futures as cf

VERIF = os.path.dirname(os.path.dirname(os.path.abspath(__file__)))
sys.path.insert(0, VERIF)

import z3
from pyvc.values import *
from pyvc.state import State, explore
from pyvc import spec as S
from pyvc import REPO
from pyvc.ops import bytes_axioms

EXIT_OK, EXIT_VIOLATION, EXIT_UNDECIDED, EXIT_ERROR = 0, 1, 2, 3


def find_contract_module(pid):
    hits = sorted(glob.glob(os.path.join(VERIF, "contracts", f"{pid}_*.py")))
    if not hits:
        print(f"CHECKER-ERROR no contract module for {pid}")
        raise SystemExit(3)
    return hits[0]


def load_module(path):
    name = "contracts." + os.path.basename(path)[:-3]
    if name in sys.modules:
        return sys.modules[name]
    specm = importlib.util.spec_from_file_location(name, path)
    m = importlib.util.module_from_spec(specm)
    sys.modules[name] = m
    specm.loader.exec_module(m)
    return m


class ModelEval:
    def __init__(self, model):
        self.m = model

    def __call__(self, x, default=None):
        if isinstance(x, SV):
            x = x.z
        if not isinstance(x, z3.ExprRef):
            return x
        v = self.m.eval(x, model_completion=True)
        return z3_to_py(v)


def z3_to_py(v):
    if z3.is_int_value(v):
        return v.as_long()
    if z3.is_rational_value(v):
        return float(v.numerator_as_long()) / float(v.denominator_as_long())
    if z3.is_algebraic_value(v):
        return float(v.approx(12).as_fraction())
    if z3.is_true(v):
        return True
    if z3.is_false(v):
        return False
    if z3.is_string_value(v):
        return v.as_string()
    return str(v)


def discharge(ob, timeout_ms, use_cvc5=True, want_candidate=True):
    """-> dict(status=proved|refuted|unknown, backend, seconds, model?)"""
    t0 = time.time()
    g = ob.goal
    if z3.is_true(g):
        return {"status": "proved", "backend": "evaluation", "seconds": 0.0}
    gs = z3.simplify(g) if not z3.is_quantifier(g) else g
    if z3.is_true(gs):
        return {"status": "proved", "backend": "evaluation", "seconds": 0.0}
    if ob.info.get("only_hyps") is not None:
        # lemma chaining: the goal is checked from the listed hypotheses only (each is itself an obligation or a stated fact)
        s1 = z3.Solver()
        s1.set("timeout", max(timeout_ms, 90000))
        for c in ob.info["only_hyps"]:
            s1.add(c)
        s1.add(z3.Not(g))
        r1 = s1.check()
        if r1 == z3.unsat:
            return {"status": "proved", "backend": "z3", "seconds": time.time() - t0}
    if ob.info.get("backend") == "sympy":
        from pyvc import sympy_backend
        import signal

        class _TO(Exception):
            pass

        def _alarm(*_):
            raise _TO()
        old = signal.signal(signal.SIGALRM, _alarm)
        signal.alarm(300)
        try:
            st_, why = sympy_backend.prove(ob.pc, g, timeout_s=280, hyps=ob.info.get("hyps"))
        except _TO:
            st_, why = "unknown", "sympy timeout"
        except Exception as e:
            st_, why = "unknown", f"sympy error {e!r}"
        finally:
            signal.alarm(0)
            signal.signal(signal.SIGALRM, old)
        if st_ == "proved":
            return {"status": "proved", "backend": "sympy", "seconds": time.time() - t0}
        sympy_reason = why
    # cone of influence: first try with only the hypotheses that share symbols (transitively) with the goal.
    # Using fewer hypotheses is sound; it keeps unrelated nonlinear facts away from the solver.
    rel = relevant_pc(ob.pc, g) if any_nonlinear(ob.pc) else None
    if rel is not None:
        s0 = z3.Solver()
        s0.set("timeout", min(timeout_ms, 5000))
        for c in rel:
            s0.add(c)
        for c in bytes_axioms():
            s0.add(c)
        s0.add(z3.Not(g))
        if s0.check() == z3.unsat:
            return {"status": "proved", "backend": "z3", "seconds": time.time() - t0}
    s = z3.Solver()
    s.set("timeout", timeout_ms)
    for c in ob.pc:
        s.add(c)
    for c in bytes_axioms():
        s.add(c)
    for c in ob.info.get("axioms", []) or []:
        s.add(c)
    s.add(z3.Not(g))
    r = s.check()
    dt = time.time() - t0
    if r == z3.unsat:
        return {"status": "proved", "backend": "z3", "seconds": dt}
    if r == z3.sat:
        return {"status": "refuted", "backend": "z3", "seconds": dt, "model": s.model()}
    reason = s.reason_unknown()
    if ob.info.get("only_hyps") is not None:
        # lemma chaining: the goal is checked from the listed hypotheses only (each is itself an obligation or a stated fact)
        s1 = z3.Solver()
        s1.set("timeout", max(timeout_ms, 90000))
        for c in ob.info["only_hyps"]:
            s1.add(c)
        s1.add(z3.Not(g))
        r1 = s1.check()
        if r1 == z3.unsat:
            return {"status": "proved", "backend": "z3", "seconds": time.time() - t0}
    if ob.info.get("backend") == "sympy":
        reason = f"sympy: {sympy_reason}; z3: {reason}"
    if use_cvc5 and ob.info.get("backend") != "sympy":
        r2 = cvc5_check(s, timeout_ms)
        dt = time.time() - t0
        if r2 == "unsat":
            return {"status": "proved", "backend": "cvc5", "seconds": dt}
        if r2 == "sat":
            return {"status": "refuted", "backend": "cvc5", "seconds": dt, "model": None}
    if not want_candidate:
        return {"status": "unknown", "backend": "z3", "seconds": time.time() - t0, "reason": reason}
    # candidate counter-model: drop the quantified hypotheses (weaker theory, so the model may be
    # spurious); it only serves as a *replay candidate* -- the real code decides.
    cand = None
    try:
        from pyvc.state import has_quantifier, conjuncts
        s2 = z3.Solver()
        s2.set("timeout", min(timeout_ms, 10000))
        from pyvc.state import is_heavy
        for c in (relevant_pc(ob.pc, g) or ob.pc):
            for cc in conjuncts(c):
                if not is_heavy(cc):
                    s2.add(cc)
        for c in bytes_axioms():
            s2.add(c)
        ng = z3.Not(g)
        if not has_quantifier(ng):
            s2.add(ng)
        else:
            # negated universally quantified goal: instantiate the bound variables by fresh constants
            s2.add(skolemize_neg(g))
        for t in ground_blen_terms(s2.assertions()):
            s2.add(t >= 0)
        if s2.check() == z3.sat:
            cand = s2.model()
    except Exception:
        cand = None
    return {"status": "unknown", "backend": "z3+cvc5", "seconds": time.time() - t0, "reason": reason, "candidate": cand}


def ground_blen_terms(fs):
    out, seen, stack = [], set(), list(fs)
    while stack:
        e = stack.pop()
        if e.get_id() in seen:
            continue
        seen.add(e.get_id())
        if z3.is_quantifier(e):
            continue
        if z3.is_app(e) and e.decl().name() == "blen":
            out.append(e)
        stack.extend(e.children())
    return out


def skolemize_neg(g):
    """not(forall x. body) -> not body[x := fresh]  (top-level universal goals only)"""
    if z3.is_quantifier(g) and g.is_forall():
        vs = [z3.Const(f"sk!{g.var_name(i)}", g.var_sort(i)) for i in range(g.num_vars())]
        body = z3.substitute_vars(g.body(), *reversed(vs))
        return skolemize_neg(body)
    if z3.is_and(g):
        return z3.Or(*[skolemize_neg(c) for c in g.children()])
    if z3.is_implies(g):
        return z3.And(g.arg(0), skolemize_neg(g.arg(1))) if not has_q(g.arg(0)) else z3.BoolVal(True)
    return z3.Not(g) if not has_q(g) else z3.BoolVal(True)


def has_q(e):
    from pyvc.state import has_quantifier
    return has_quantifier(e)


def _consts(e, cache):
    i = e.get_id()
    if i in cache:
        return cache[i]
    out = set()
    stack = [e]
    seen = set()
    while stack:
        x = stack.pop()
        xi = x.get_id()
        if xi in seen:
            continue
        seen.add(xi)
        if z3.is_quantifier(x):
            stack.append(x.body())
            continue
        if z3.is_app(x):
            if x.num_args() == 0 and x.decl().kind() == z3.Z3_OP_UNINTERPRETED:
                out.add(x.decl().name())
            elif x.decl().kind() == z3.Z3_OP_UNINTERPRETED:
                out.add("fn:" + x.decl().name())
            stack.extend(x.children())
    cache[i] = out
    return out


def any_nonlinear(pc):
    from pyvc.state import is_heavy, conjuncts
    for c in pc:
        if z3.is_quantifier(c):
            continue
        for cc in conjuncts(c):
            if not z3.is_quantifier(cc) and is_heavy(cc):
                return True
    return False


def relevant_pc(pc, goal):
    try:
        from pyvc.state import conjuncts
        cache = {}
        items = []
        for c in pc:
            if z3.is_quantifier(c):
                items.append((c, None))      # quantified facts (axioms) are always kept
                continue
            for cc in conjuncts(c):
                items.append((cc, _consts(cc, cache)))
        cur = set(_consts(goal, cache))
        chosen = [False] * len(items)
        changed = True
        while changed:
            changed = False
            for k, (c, syms) in enumerate(items):
                if chosen[k]:
                    continue
                if syms is None or (syms & cur):
                    chosen[k] = True
                    if syms:
                        new = syms - cur
                        if new:
                            cur |= new
                            changed = True
        return [c for k, (c, _) in enumerate(items) if chosen[k]]
    except Exception:
        return None


def cvc5_check(solver, timeout_ms):
    try:
        smt = solver.to_smt2()
    except Exception:
        return "error"
    if "String" in smt or "Seq" in smt:
        flags = ["--strings-exp"]
    else:
        flags = []
    smt = "(set-logic ALL)\n" + smt
    with tempfile.NamedTemporaryFile("w", suffix=".smt2", delete=False, dir=os.environ.get("PYVC_TMP", None)) as f:
        f.write(smt)
        p = f.name
    try:
        out = subprocess.run(["/usr/bin/cvc5", "--lang=smt2", f"--tlimit={timeout_ms}"] + flags + [p],
                             capture_output=True, text=True, timeout=timeout_ms / 1000 + 10)
        ans = out.stdout.strip().splitlines()
        return ans[0] if ans else "error"
    except Exception:
        return "error"
    finally:
        os.unlink(p)


_OBLS = []      # obligations of the unit being discharged (inherited by forked workers)
_TIMEOUT = 20000
_FAILED = None  # shared dict label -> number of non-proved VCs (early termination per obligation)


def _discharge_idx(i):
    ob = _OBLS[i]
    if ob.info.get("kind") == "cover":
        d = discharge(ob, 2000, use_cvc5=False, want_candidate=False)
        return {"i": i, "label": ob.label, "status": d["status"], "backend": d["backend"], "seconds": d["seconds"], "kind": "cover"}
    if _FAILED is not None and _FAILED.get(ob.label, 0) >= 2:
        return {"i": i, "label": ob.label, "status": "skipped", "backend": "skipped", "seconds": 0.0,
                "kind": ob.info.get("kind", "post"), "fail": None}
    d = discharge(ob, _TIMEOUT)
    if d["status"] != "proved" and _FAILED is not None:
        try:
            _FAILED[ob.label] = _FAILED.get(ob.label, 0) + 1
        except Exception:
            pass
    out = {"i": i, "label": ob.label, "status": d["status"], "backend": d["backend"], "seconds": d["seconds"],
           "kind": ob.info.get("kind", "post")}
    if d["status"] != "proved":
        fail = {"status": d["status"], "case": _js(ob.info.get("case")), "branches": ob.info.get("branches"),
                "goal": str(ob.goal)[:2000], "reason": d.get("reason"), "backend": d["backend"]}
        extra = {k: _js(v) for k, v in ob.info.items() if k not in ("witness", "case", "branches", "kind", "backend", "hyps", "only_hyps", "axioms")}
        if extra:
            fail["details"] = extra
        wf = ob.info.get("witness")
        model = d.get("model") if d["status"] == "refuted" else d.get("candidate")
        if model is not None:
            fail["model"] = str(model)[:3000]
            if d["status"] == "unknown":
                fail["candidate_only"] = True
        if wf is not None:
            try:
                # without a model the witness builder still yields the case description (shape, route, operation): a candidate that the
                # replay harness tries on the real code -- only a reproduced failure is reported as a violation with an input
                fail["witness"] = _jsdeep(wf(ModelEval(model)) if model is not None else wf(lambda x, default=None: default))
                if model is None and d["status"] != "refuted":
                    fail["candidate_only"] = True
            except Exception as e:
                fail["witness_error"] = repr(e)
        out["fail"] = fail
    return out


def run_unit(args):
    global _OBLS, _TIMEOUT, _FAILED
    modpath, idx, tier, jobs = args
    t0 = time.time()
    res = {"unit": None, "functions": [], "paths": 0, "obligations": {}, "covers": {}, "error": None,
           "ungenerable": None, "inlined": [], "trusted": [], "solver_s": 0.0, "vcs": 0}
    try:
        m = load_module(modpath)
        P = m.P
        unit = P.units[idx]
        res["unit"] = unit.name
        res["qual"] = unit.qual
        res["functions"] = list(unit.functions)
        res["kind"] = unit.kind
        I = S.new_interp(P, unit)
        _TIMEOUT = 10000 if tier == "quick" else 60000
        if tier != "quick":
            os.environ.setdefault("PYVC_EXPLORE_S", "3600")
        obls = res["obligations"]

        def run(st):
            I.st = st
            I.depth = 0
            I.exc_stack = []
            v = S.V(unit, I, st)
            v.tier = tier
            unit.body(v)
            return v

        all_obls = []
        try:
            for st, out in explore(run):
                res["paths"] += 1
                res["trusted"] = sorted(set(res["trusted"]) | st.trusted_used)
                all_obls.extend(st.obls)
        except Unsupported as e:
            # out of exploration budget: the obligations of the paths explored so far are still discharged (a failure among them is a
            # failure), but the unit as a whole is reported as only partially explored, i.e. undecided
            if res["paths"] > 0 and ("time budget" in str(e) or "path explosion" in str(e)):
                res["partial"] = str(e)
            else:
                raise
        res["explore_s"] = time.time() - t0
        _OBLS = all_obls
        res["vcs"] = len(all_obls)
        trivial, hard = [], []
        seen_cov = set()
        for i, ob in enumerate(all_obls):
            if ob.info.get("kind") == "cover":
                ck = (ob.label, repr(ob.info.get("case")))
                if ck in seen_cov:
                    continue
                seen_cov.add(ck)
            (trivial if z3.is_true(ob.goal) else hard).append(i)
        results = [_discharge_idx(i) for i in trivial]
        if hard:
            if jobs > 1 and len(hard) > 1:
                import multiprocessing as mp
                ctx = mp.get_context("fork")
                with ctx.Manager() as mgr:
                    _FAILED = mgr.dict()
                    with ctx.Pool(min(jobs, len(hard))) as pool:
                        results += pool.map(_discharge_idx, hard, chunksize=1)
                    _FAILED = None
            else:
                results += [_discharge_idx(i) for i in hard]
        for d in results:
            res["solver_s"] += d["seconds"]
            if d["kind"] == "cover":
                c = res.setdefault("cover_vcs", {"n": 0, "vacuous": 0})
                c["n"] += 1
                if d["status"] == "proved":
                    c["vacuous"] += 1
                    res["error"] = f"vacuous: assumptions of {d['label']} are contradictory"
                continue
            o = obls.setdefault(d["label"], {"vcs": 0, "proved": 0, "backends": {}, "failures": [], "kind": d["kind"]})
            o["vcs"] += 1
            o["backends"][d["backend"]] = o["backends"].get(d["backend"], 0) + 1
            if d["status"] == "proved":
                o["proved"] += 1
            elif d["status"] == "skipped":
                o["skipped"] = o.get("skipped", 0) + 1
            elif len(o["failures"]) < 6:
                o["failures"].append(d["fail"])
            else:
                o["more_failures"] = o.get("more_failures", 0) + 1
        res["covers"] = {k: v for k, v in unit.covers.items()}
        res["inlined"] = sorted(I.inlined)
    except (Unsupported, IterationCap) as e:
        res["ungenerable"] = str(e)
        res["trace"] = traceback.format_exc()[-3000:]
    except PyExc as e:
        # a python exception of the code under verification escaped the contract body (the contract did not expect this call to
        # raise): the unit is undecided -- neither held nor violated -- and says which exception it was
        ev_ = getattr(e, "value", None)
        res["ungenerable"] = ("the code under contract raised an exception the contract does not handle: "
                              + getattr(getattr(ev_, "cls", None), "name", "?") + " " + repr(getattr(ev_, "fields", {}).get("args", ""))[:200])
        res["trace"] = traceback.format_exc()[-3000:]
    except Exception as e:
        res["error"] = repr(e)
        res["trace"] = traceback.format_exc()[-4000:]
    res["wall_s"] = time.time() - t0
    return res


def _js(x):
    try:
        json.dumps(x)
        return x
    except Exception:
        return repr(x)


def _jsdeep(x):
    """a witness as plain JSON data (enum members become their value, anything else unpicklable its repr)"""
    if isinstance(x, dict):
        return {str(k): _jsdeep(v) for k, v in x.items()}
    if isinstance(x, (list, tuple)):
        return [_jsdeep(v) for v in x]
    if hasattr(x, "value") and hasattr(x, "name") and hasattr(x, "cls"):
        return _jsdeep(getattr(x, "value"))
    return _js(x)


def load_known():
    p = os.path.join(VERIF, "known_findings.json")
    if os.path.exists(p):
        return json.load(open(p))
    return {"findings": [], "fixed": []}


def load_lock():
    p = os.path.join(VERIF, "obligations.lock.json")
    if os.path.exists(p):
        return json.load(open(p))
    return {}


def replay(P, pid, label, fail, outdir):
    """run the replay harness on the real code; returns (reproduced: bool|None, path, output)"""
    os.makedirs(outdir, exist_ok=True)
    h = hashlib.sha256((label + json.dumps(fail.get("witness"), sort_keys=True, default=str)).encode()).hexdigest()[:10]
    path = os.path.join(outdir, f"{label.replace('/', '_').replace(':', '.')}_{h}.json")
    doc = {"property": pid, "obligation": label, "status": fail["status"], "case": fail.get("case"),
           "branches": fail.get("branches"), "goal": fail.get("goal"), "witness": fail.get("witness"),
           "solver_model": fail.get("model"), "solver": fail.get("backend"), "reason": fail.get("reason"), "details": fail.get("details")}
    reproduced, out = None, ""
    script = os.path.join(VERIF, "replay", f"{(fail.get('details') or {}).get('replay_script') or pid}.py")
    if fail.get("witness") is not None and os.path.exists(script):
        with open(path, "w") as f:
            json.dump(doc, f, indent=1, default=str)
        try:
            r = subprocess.run(["/venv/bin/python", script, path], capture_output=True, text=True, timeout=300,
                               cwd=VERIF, env={**os.environ, "PYTHONPATH": REPO})
            out = (r.stdout + r.stderr)[-3000:]
            reproduced = (r.returncode == 0 and "REPRODUCED" in r.stdout)
        except Exception as e:
            out = repr(e)
    doc["replay_output"] = out
    doc["reproduced_on_real_code"] = reproduced
    with open(path, "w") as f:
        json.dump(doc, f, indent=1, default=str)
    return reproduced, path, out


def witness_search(pid, label, fail, outdir, seed, tier):
    """bounded search for a failing input on the real code (replay/<pid>.py --search); a replay aid only"""
    script = os.path.join(VERIF, "replay", f"{(fail.get('details') or {}).get('replay_script') or pid}.py")
    if not os.path.exists(script) or "--search" not in open(script).read():
        return None
    os.makedirs(outdir, exist_ok=True)
    h = hashlib.sha256(label.encode()).hexdigest()[:10]
    path = os.path.join(outdir, f"search_{label.replace('/', '_').replace(':', '.')}_{h}.json")
    try:
        r = subprocess.run(["/venv/bin/python", script, "--search", label, path, str(seed), tier], capture_output=True, text=True,
                           timeout=600, cwd=VERIF, env={**os.environ, "PYTHONPATH": REPO})
    except Exception:
        return None
    if r.returncode == 0 and "REPRODUCED" in r.stdout and os.path.exists(path):
        doc = json.load(open(path))
        doc.update({"property": pid, "obligation": label, "solver_status": fail.get("status"), "goal": fail.get("goal"),
                    "found_by": "witness search on the real code", "reproduced_on_real_code": True,
                    "replay_output": r.stdout[-2000:]})
        json.dump(doc, open(path, "w"), indent=1, default=str)
        return {"path": path, "signature": (doc.get("witness") or {}).get("signature")}
    return None


def main(argv=None):
    ap = argparse.ArgumentParser()
    ap.add_argument("pid")
    ap.add_argument("--tier", default=os.environ.get("VERIF_TIER", "quick"))
    ap.add_argument("--jobs", type=int, default=int(os.environ.get("PYVC_JOBS", "16")))
    ap.add_argument("--update-lock", action="store_true")
    ap.add_argument("--replay")
    ap.add_argument("--unit")
    ap.add_argument("-v", "--verbose", action="store_true")
    a = ap.parse_args(argv)
    seed = int(os.environ.get("VERIF_SEED", "0"))
    pid = a.pid
    t0 = time.time()
    if a.replay:
        script = os.path.join(VERIF, "replay", f"{pid}.py")
        r = subprocess.run(["/venv/bin/python", script, a.replay], cwd=VERIF, env={**os.environ, "PYTHONPATH": REPO})
        if r.returncode == 0:
            print(f"VIOLATION property={pid} replay={a.replay}")
            return EXIT_VIOLATION
        return EXIT_OK
    modpath = find_contract_module(pid)
    m = load_module(modpath)
    P = m.P
    idxs = [i for i, u in enumerate(P.units) if not a.unit or a.unit in u.name]
    if a.jobs > 1 and len(idxs) > 1:
        nw = min(len(idxs), 6)
        tasks = [(modpath, i, a.tier, max(3, a.jobs // nw + 1)) for i in idxs]
        with cf.ProcessPoolExecutor(max_workers=nw) as ex:
            results = list(ex.map(run_unit, tasks))
    else:
        tasks = [(modpath, i, a.tier, a.jobs) for i in idxs]
        results = [run_unit(t) for t in tasks]

    known = load_known()
    lock = load_lock().get(pid)
    violations, undecided, errors, known_seen = [], [], [], []
    failing = {}
    n_obl = n_dis = n_vcs = 0
    by_backend = {}
    solver_s = 0.0
    samples = []
    fuc = set()
    inlined = set()
    trusted = set(P.trusted)
    all_labels = set()
    for r in results:
        solver_s += r["solver_s"]
        n_vcs += r["vcs"]
        fuc |= set(r["functions"])
        inlined |= set(r["inlined"])
        trusted |= set(r["trusted"])
        if r["error"]:
            errors.append((r["unit"], r["error"], r.get("trace")))
            continue
        if r["ungenerable"]:
            undecided.append((r["unit"], "ungenerable: " + r["ungenerable"]))
            if a.verbose:
                print(r.get("trace"))
            continue
        if r.get("partial"):
            undecided.append((r["unit"], "only partially explored: " + r["partial"]))
        if r["paths"] == 0 or not r["obligations"]:
            errors.append((r["unit"], "vacuous: no paths / no obligations generated", None))
            continue
        for label, o in r["obligations"].items():
            all_labels.add(label)
            n_obl += 1
            for b, c in o["backends"].items():
                by_backend[b] = by_backend.get(b, 0) + c
            if o["proved"] == o["vcs"]:
                n_dis += 1
                if len(samples) < 6:
                    samples.append({"obligation": f"{pid}/{label}", "kind": o["kind"], "vcs": o["vcs"], "backends": o["backends"]})
                continue
            failing[label] = o["failures"]
    # ---- triage of failed obligations: replay (counter-model / candidate), witness search, lock history
    for label, fails in failing.items():
        decided = False
        best = None
        for fail in fails:
            if fail.get("witness") is None:
                continue
            sig = fail["witness"].get("signature") if isinstance(fail["witness"], dict) else None
            rep, path, out = replay(P, pid, label, fail, os.path.join(VERIF, "replays", pid))
            if rep:
                kf = [k for k in known["findings"] if k["property"] == pid and k["obligation"] == label and k.get("signature") == sig]
                if kf:
                    known_seen.append((label, kf[0]))
                else:
                    violations.append((label, path, True, fail))
                decided = True
                break
            if best is None and fail["status"] == "refuted":
                best = (label, path, False, fail)
        if decided:
            continue
        # witness search on the real code (bounded; a replay aid only)
        found = witness_search(pid, label, fails[0], os.path.join(VERIF, "replays", pid), seed, a.tier)
        if found is not None:
            sig = found.get("signature")
            kf = [k for k in known["findings"] if k["property"] == pid and k.get("signature") == sig and k["obligation"] in (label, "*")]
            if kf:
                known_seen.append((label, kf[0]))
            else:
                violations.append((label, found["path"], True, fails[0]))
            continue
        in_lock = lock is not None and label in lock
        if best is not None or in_lock:
            # refuted by the solver (model did not replay), or an obligation that was discharged on the accepted
            # tree and no longer is: reported, with the solver output, as no-failing-input-found
            fail = (best[3] if best else fails[0])
            rep, path, out = replay(P, pid, label, {**fail, "witness": None}, os.path.join(VERIF, "replays", pid))
            violations.append((label, path, False, fail))
        else:
            undecided.append((label, f"solver {fails[0]['status']} ({fails[0].get('reason')}), obligation not in lock"))
    if lock is not None and not a.unit:
        missing = sorted(set(lock) - all_labels)
        failed_units = {v[0].split("/")[0] for v in violations} | {u[0].split("/")[0] for u in undecided if u[0]}
        for l in missing:
            if l.split("/")[0] in failed_units:
                continue      # downstream of an obligation of the same function that already failed (unit returns early)
            if not any(l.startswith(u[0] or "") for u in undecided if u[0]) and not errors:
                undecided.append((l, "locked obligation was not generated"))
    if a.update_lock and not a.unit:
        lk = load_lock()
        lk[pid] = sorted(all_labels)
        json.dump(lk, open(os.path.join(VERIF, "obligations.lock.json"), "w"), indent=1, sort_keys=True)

    # bounded stand-ins (thorough tier; never counted as proved)
    bounded_res = []
    for name, bound, fn in P.bounded:
        if a.tier == "thorough" or os.environ.get("PYVC_BOUNDED") == "1" or getattr(P, "bounded_in_quick", False):
            try:
                br = fn(seed)
            except Exception as e:
                br = {"error": repr(e)}
            bounded_res.append({"name": name, "bound": bound, "result": br, "label": "bounded (not counted as proved)"})
            if not isinstance(br, dict) or "error" in br or "violations" not in br:
                # a stand-in that did not run to the end has decided nothing: undecided, never silently passed
                undecided.append((f"bounded:{name}", "the bounded stand-in did not complete: " + str((br or {}).get("error") if isinstance(br, dict) else br)[-300:].replace("\n", " | ")))
            for vio in (br or {}).get("violations", []) if isinstance(br, dict) else []:
                kf = [k for k in known["findings"] if k["property"] == pid and k["obligation"] == f"bounded:{name}" and k.get("signature") == vio.get("signature")]
                if kf:
                    known_seen.append((f"bounded:{name}", kf[0]))
                else:
                    os.makedirs(os.path.join(VERIF, "replays", pid), exist_ok=True)
                    import re as _re2
                    slug = _re2.sub(r"[^A-Za-z0-9]+", "-", name)[:40].strip("-")
                    pth = os.path.join(VERIF, "replays", pid, f"bounded_{slug}_{len(violations)}.json")
                    json.dump(vio, open(pth, "w"), indent=1, default=str)
                    violations.append((f"bounded:{name}", pth, True, vio))
        else:
            bounded_res.append({"name": name, "bound": bound, "result": "skipped in quick tier", "label": "bounded (not counted as proved)"})

    # obligations that fail only as recorded known findings are reported separately, not as proof obligations
    kf_only = {label for label, _ in known_seen} - {v[0] for v in violations} - {u[0] for u in undecided}
    n_obl -= len(kf_only)
    # ---- report
    seen_kf = set()
    for label, kf in known_seen:
        key = (label, kf.get("signature"))
        if key in seen_kf:
            continue
        seen_kf.add(key)
        print(f"KNOWN-FINDING: property={pid} {kf['what']} [obligation {label}]")
    for label, path, rep, fail in violations:
        rel = os.path.relpath(path, VERIF)
        tail = "" if rep else " no-failing-input-found"
        print(f"VIOLATION property={pid} replay={rel} obligation={label}{tail}" if False else
              f"VIOLATION property={pid} replay={rel}{tail}")
        print(f"  failed obligation: {pid}/{label}  case={fail.get('case')}")
    for u, why in undecided:
        print(f"UNDECIDED {pid}/{u}: {why}")
    for u, e, tr in errors:
        print(f"CHECKER-ERROR {pid}/{u}: {e}")
        if tr and a.verbose:
            print(tr)
    wall = time.time() - t0
    ev = {
        "property_id": pid, "tier": a.tier if a.tier in ("quick", "thorough") else "quick", "seed": seed,
        "level": getattr(P, "level", "proof"),
        "coverage": {
            "obligations": n_obl, "discharged": n_dis,
            "checker_cmd": f"./check {pid} --tier {a.tier}",
            "trusted_base": sorted(trusted),
            "vcs": n_vcs, "paths": sum(r["paths"] for r in results),
            "by_backend": by_backend, "solver_seconds": round(solver_s, 3),
            "functions_under_contract": sorted(fuc),
            "functions_inlined_into_units": sorted(inlined - fuc),
            "units": [{"unit": r["unit"], "paths": r["paths"], "vcs": r["vcs"], "wall_s": round(r["wall_s"], 2),
                       "covers": r["covers"], "status": "error" if r["error"] else "ungenerable" if r["ungenerable"] else "ok"} for r in results],
            "samples": samples,
            "bounded_standins": bounded_res,
            "undecided": [list(u) for u in undecided],
            "not_decided_clauses": list(P.not_decided),
            "known_findings_seen": [k[1]["what"] for k in known_seen],
            "obligations_failing_as_known_findings": sorted(kf_only),
            "explanation": getattr(P, "explanation", ""),
            "lock": "present" if lock is not None else "absent",
        },
        "assumptions": list(P.assumptions) + ["python semantics as encoded by pyvc (DESIGN 2.2); floats as reals"],
        "wall_s": round(wall, 2),
        "violations": len(violations),
    }
    os.makedirs(os.path.join(VERIF, "evidence"), exist_ok=True)
    evpath = os.path.join(VERIF, "evidence", f"{pid}.json") if not (a.unit or os.environ.get("PYVC_SCRATCH_EVIDENCE")) else os.path.join(VERIF, "replays", f"evidence_{pid}.scratch.json")
    os.makedirs(os.path.dirname(evpath), exist_ok=True)
    json.dump(ev, open(evpath, "w"), indent=1, default=str)
    print(f"{pid}: obligations={n_obl} discharged={n_dis} vcs={n_vcs} paths={ev['coverage']['paths']} "
          f"solver={solver_s:.1f}s wall={wall:.1f}s violations={len(violations)} undecided={len(undecided)} errors={len(errors)}")
    if errors:
        return EXIT_ERROR
    if violations:
        return EXIT_VIOLATION
    if undecided:
        return EXIT_UNDECIDED
    return EXIT_OK


if __name__ == "__main__":
    sys.exit(main())
