"""Python builtin functions (models follow the language reference)."""
from __future__ import annotations
import ast, z3, math
from .values import *
from .ops import to_z3, pyclass_kind, num_kind, blen, NOT_IMPLEMENTED


def install(I, ns):
    def reg(name):
        def deco(fn):
            ns[name] = Builtin(name, fn)
            return fn
        return deco

    ns["None"] = None
    ns["True"] = True
    ns["False"] = False
    ns["Ellipsis"] = Ellipsis
    ns["NotImplemented"] = NOT_IMPLEMENTED
    ns["__debug__"] = True

    @reg("len")
    def _len(i, a, k):
        return i.len_(a[0])

    @reg("isinstance")
    def _isinstance(i, a, k):
        return i.isinstance_(a[0], a[1])

    @reg("issubclass")
    def _issubclass(i, a, k):
        c, p = a
        if isinstance(p, tuple):
            return any(_issubclass(i, [c, x], {}) for x in p)
        if isinstance(c, ClassV) and isinstance(p, ClassV):
            return c.issub(p)
        raise Unsupported("issubclass on non-class")

    @reg("hasattr")
    def _hasattr(i, a, k):
        if not isinstance(a[1], str):
            raise Unsupported("hasattr with symbolic name")
        return i.hasattr_(a[0], a[1])

    @reg("getattr")
    def _getattr(i, a, k):
        if not isinstance(a[1], str):
            raise Unsupported("getattr with symbolic name")
        if len(a) == 3:
            try:
                return i.getattr_(a[0], a[1])
            except PyExc as e:
                if e.value.cls.issub(ns["AttributeError"]):
                    return a[2]
                raise
        return i.getattr_(a[0], a[1])

    @reg("setattr")
    def _setattr(i, a, k):
        if not isinstance(a[1], str):
            raise Unsupported("setattr with symbolic name")
        i.setattr_(a[0], a[1], a[2])

    @reg("delattr")
    def _delattr(i, a, k):
        i.delattr_(a[0], a[1])

    @reg("callable")
    def _callable(i, a, k):
        return isinstance(a[0], (FuncV, BoundMethod, Builtin, ClassV)) or (isinstance(a[0], Obj) and a[0].cls.lookup("__call__")[0] is not None)

    @reg("id")
    def _id(i, a, k):
        v = a[0]
        if isinstance(v, Obj):
            return v.oid
        if isinstance(v, SV) and isinstance(v.ty, tuple) and v.ty[0] == "ref":
            return SV(v.z, "int")
        if hasattr(v, "oid"):
            return v.oid
        raise Unsupported("id() of value without identity")

    @reg("print")
    def _print(i, a, k):
        i.st.event("print", tuple(a), k.get("file"))
        return None

    @reg("repr")
    def _repr(i, a, k):
        return i.format_value(a[0], ord("r"), None)

    @reg("iter")
    def _iter(i, a, k):
        v = a[0]
        if isinstance(v, (GenV, IterV)):
            return v
        if isinstance(v, Obj):
            f, _ = v.cls.lookup("__iter__")
            if f is not None:
                return i.call(i.bind(f, v), [], {})
        if i.is_symbolic_iterable(v):
            from . import seqmodel
            return seqmodel.sym_iter(i, v)
        return IterV(i.iterate(v))

    @reg("next")
    def _next(i, a, k):
        v = a[0]
        try:
            if isinstance(v, GenV):
                return i.gen_next(v)
            if isinstance(v, IterV):
                try:
                    return next(v.it)
                except StopIteration:
                    i.raise_py("StopIteration")
            if isinstance(v, Obj):
                f, _ = v.cls.lookup("__next__")
                if f is not None:
                    return i.call(i.bind(f, v), [], {})
        except PyExc as e:
            if len(a) > 1 and e.value.cls.issub(ns["StopIteration"]):
                return a[1]
            raise
        i.raise_py("TypeError", f"{pyclass_kind(v)} object is not an iterator")

    @reg("range")
    def _range(i, a, k):
        return Obj(ns["range_t"], {"args": tuple(_intify(x) for x in a)}, tag="range")

    @reg("enumerate")
    def _enumerate(i, a, k):
        start = k.get("start", a[1] if len(a) > 1 else 0)
        if i.is_symbolic_iterable(a[0]):
            from . import seqmodel
            return seqmodel.sym_enumerate(i, a[0], start)

        def gen():
            n = start
            for x in i.iterate(a[0]):
                yield (n, x)
                n = n + 1
        return IterV(gen())

    @reg("zip")
    def _zip(i, a, k):
        strict = k.get("strict", False)
        if any(i.is_symbolic_iterable(x) for x in a):
            from . import seqmodel
            return seqmodel.sym_zip(i, a, strict)

        def gen():
            its = [i.iterate(x) for x in a]
            while True:
                row = []
                for n, it in enumerate(its):
                    try:
                        row.append(next(it))
                    except StopIteration:
                        if strict and (n > 0 or _any_left(its[1:])):
                            i.raise_py("ValueError", "zip() arguments have different lengths")
                        return
                yield tuple(row)
        return IterV(gen())

    def _any_left(its):
        for it in its:
            try:
                next(it)
                return True
            except StopIteration:
                pass
        return False

    @reg("map")
    def _map(i, a, k):
        f = a[0]
        if any(i.is_symbolic_iterable(x) for x in a[1:]):
            from . import seqmodel
            return seqmodel.sym_map(i, f, a[1:])

        def gen():
            its = [i.iterate(x) for x in a[1:]]
            while True:
                row = []
                for it in its:
                    try:
                        row.append(next(it))
                    except StopIteration:
                        return
                yield i.call(f, row, {})
        return IterV(gen())

    @reg("filter")
    def _filter(i, a, k):
        f = a[0]

        def gen():
            for x in i.iterate(a[1]):
                c = i.truth(x if f is None else i.call(f, [x], {}))
                if i.st.branch(c, "filter"):
                    yield x
        return IterV(gen())

    @reg("reversed")
    def _reversed(i, a, k):
        return IterV(iter(list(i.iterate(a[0]))[::-1]))

    @reg("sorted")
    def _sorted(i, a, k):
        items = list(i.iterate(a[0]))
        key = k.get("key")
        keys = [x if key is None else i.call(key, [x], {}) for x in items]
        if all(type(x) in (int, float, str) for x in keys):
            order = sorted(range(len(items)), key=lambda j: keys[j], reverse=bool(k.get("reverse", False)))
            return ListV([items[j] for j in order])
        raise Unsupported("sorted() on symbolic keys")

    @reg("all")
    def _all(i, a, k):
        v = a[0]
        if isinstance(v, SV) and v.ty == "bool":
            return v   # produced by symbolic comprehension rule
        for x in i.iterate(v):
            if not i.st.branch(i.truth(x), "all"):
                return False
        return True

    @reg("any")
    def _any(i, a, k):
        v = a[0]
        if isinstance(v, SV) and v.ty == "bool":
            return v
        for x in i.iterate(v):
            if i.st.branch(i.truth(x), "any"):
                return True
        return False

    @reg("sum")
    def _sum(i, a, k):
        acc = a[1] if len(a) > 1 else k.get("start", 0)
        for x in i.iterate(a[0]):
            acc = i.binop(ast.Add(), acc, x)
        return acc

    def _minmax(i, a, k, op):
        items = list(i.iterate(a[0])) if len(a) == 1 else list(a)
        key = k.get("key")
        if not items:
            if "default" in k:
                return k["default"]
            i.raise_py("ValueError", "arg is an empty sequence")
        best = items[0]
        bk = best if key is None else i.call(key, [best], {})
        for x in items[1:]:
            xk = x if key is None else i.call(key, [x], {})
            if i.st.branch(i.compare(op, xk, bk), "minmax"):
                best, bk = x, xk
        return best

    reg("max")(lambda i, a, k: _minmax(i, a, k, ast.Gt()))
    reg("min")(lambda i, a, k: _minmax(i, a, k, ast.Lt()))

    @reg("abs")
    def _abs(i, a, k):
        v = a[0]
        if isinstance(v, EnumVal):
            v = v.value
        if type(v) in (int, float, bool):
            return abs(v)
        kd = num_kind(v)
        if kd:
            z = to_z3(v, kd)
            return SV(z3.If(z >= 0, z, -z), kd)
        if isinstance(v, Obj):
            f, _ = v.cls.lookup("__abs__")
            if f is not None:
                return i.call(i.bind(f, v), [], {})
        raise Unsupported(f"abs({v!r})")

    @reg("round")
    def _round(i, a, k):
        if type(a[0]) in (int, float) and (len(a) == 1 or isinstance(a[1], int)):
            return round(*a)
        if len(a) == 1 or a[1] is None:
            x = a[0]
            kd = num_kind(x)
            if kd == "int":
                return x
            if kd == "real":
                # python rounds halves to even and returns an int
                zx = to_z3(x, "real")
                f = z3.ToInt(zx)
                d = zx - z3.ToReal(f)
                half = z3.RealVal("1/2")
                return SV(z3.If(d < half, f, z3.If(d > half, f + 1, z3.If(f % 2 == 0, f, f + 1))), "int")
        raise Unsupported("round(x, ndigits) on symbolic")

    @reg("divmod")
    def _divmod(i, a, k):
        return (i.binop(ast.FloorDiv(), a[0], a[1]), i.binop(ast.Mod(), a[0], a[1]))

    @reg("pow")
    def _pow(i, a, k):
        return i.binop(ast.Pow(), a[0], a[1])

    @reg("hash")
    def _hash(i, a, k):
        v = a[0]
        if isinstance(v, Obj):
            f, owner = v.cls.lookup("__hash__")
            if f is not None and not owner.builtin:
                return i.call(i.bind(f, v), [], {})
            return v.oid
        if type(v) in (int, str, bytes, float, bool, tuple):
            return Opaque("hash", (v,))
        raise Unsupported("hash()")

    @reg("vars")
    def _vars(i, a, k):
        return i.getattr_(a[0], "__dict__")

    @reg("super")
    def _super(i, a, k):
        if len(a) == 2:
            return SuperV(a[0], a[1])
        raise Unsupported("super() with unusual arguments")

    # ---- type constructors (ClassV with __pyvc_new__)
    def ctor(name):
        def deco(fn):
            ns[name].ns["__pyvc_new__"] = lambda i, cls, a, k: fn(i, a, k)
            return fn
        return deco

    @ctor("type")
    def _type(i, a, k):
        if len(a) == 1:
            return i.type_of(a[0])
        raise Unsupported("3-argument type()")

    @ctor("int")
    def _int(i, a, k):
        if not a:
            return 0
        v = a[0]
        if isinstance(v, EnumVal):
            v = v.value
        if type(v).__name__ == "SStr":
            from . import textmodel
            return textmodel.to_int(i, v)
        if type(v) in (int, float, bool, str, bytes):
            try:
                return int(v, *a[1:]) if len(a) > 1 else int(v)
            except ValueError as e:
                i.raise_py("ValueError", str(e))
            except OverflowError as e:
                i.raise_py("OverflowError", str(e))
        if isinstance(v, SV):
            if v.ty in ("int",) or (isinstance(v.ty, tuple) and v.ty[0] == "enum"):
                return SV(v.z, "int")
            if v.ty == "bool":
                return SV(z3.If(v.z, 1, 0), "int")
            if v.ty == "real":
                z = v.z
                t = z3.ToInt(z)
                return SV(z3.If(z >= 0, t, z3.If(z3.ToReal(t) == z, t, t + 1)), "int")
            if v.ty == "str":
                return i.str_to_int(v)
        if isinstance(v, Obj):
            f, _ = v.cls.lookup("__int__")
            if f is not None:
                return i.call(i.bind(f, v), [], {})
        if v is None:
            i.raise_py("TypeError", "int() argument must be a string, a bytes-like object or a real number, not 'NoneType'")
        raise Unsupported(f"int({v!r})")

    @ctor("float")
    def _float(i, a, k):
        if not a:
            return 0.0
        v = a[0]
        if isinstance(v, EnumVal):
            v = v.value
        if type(v).__name__ == "SStr":
            from . import textmodel
            return textmodel.to_float(i, v)
        if type(v) in (int, float, bool, str):
            try:
                return float(v)
            except ValueError as e:
                i.raise_py("ValueError", str(e))
        if isinstance(v, SV):
            kd = num_kind(v)
            if kd:
                return SV(to_z3(v, "real"), "real")
            if v.ty == "str":
                return i.str_to_float(v)
        if v is None:
            i.raise_py("TypeError", "float() argument must be a string or a real number, not 'NoneType'")
        raise Unsupported(f"float({v!r})")

    @ctor("bool")
    def _bool(i, a, k):
        return i.wrap_bool(i.truth(a[0])) if a else False

    @ctor("str")
    def _str(i, a, k):
        if not a:
            return ""
        return i.str_(a[0])

    @ctor("bytes")
    def _bytes(i, a, k):
        if not a:
            return b""
        if isinstance(a[0], bytes):
            return a[0]
        if isinstance(a[0], SV) and a[0].ty == "bytes":
            return a[0]
        raise Unsupported("bytes()")

    @ctor("tuple")
    def _tuple(i, a, k):
        if not a:
            return ()
        v = a[0]
        if isinstance(v, tuple):
            return v
        if isinstance(v, SymSeq):
            return SymSeq(v.arr, v.n, v.elem_ty, "tuple")
        if i.is_symbolic_iterable(v):
            raise Unsupported("tuple() of symbolic iterable")
        if isinstance(v, Obj) and v.tag == "symiter":
            from . import seqmodel
            return seqmodel.materialize(i, v, "tuple")
        return tuple(i.iterate(v))

    @ctor("list")
    def _list(i, a, k):
        if not a:
            return ListV()
        v = a[0]
        if isinstance(v, SymSeq):
            return SymSeq(v.arr, v.n, v.elem_ty, "list")
        if isinstance(v, Obj) and v.tag == "symiter":
            from . import seqmodel
            return seqmodel.materialize(i, v, "list")
        if i.is_symbolic_iterable(v):
            raise Unsupported("list() of symbolic iterable")
        return ListV(list(i.iterate(v)))

    @ctor("dict")
    def _dict(i, a, k):
        d = DictV()
        if a:
            src = a[0]
            if isinstance(src, DictV):
                for kk, vv in zip(src.keys, src.vals):
                    i.dict_set(d, kk, vv)
            else:
                for pair in i.iterate(src):
                    kk, vv = list(i.iterate(pair))
                    i.dict_set(d, kk, vv)
        for kk, vv in k.items():
            i.dict_set(d, kk, vv)
        return d

    @ctor("set")
    def _set(i, a, k):
        if a and isinstance(a[0], Obj) and a[0].tag == "symset":
            return a[0]
        return i.make_set(list(i.iterate(a[0])) if a else [])

    @ctor("frozenset")
    def _frozenset(i, a, k):
        return i.make_set(list(i.iterate(a[0])) if a else [], frozen=True)

    @ctor("slice")
    def _slice(i, a, k):
        return slice(*a)

    # str() helper on the interpreter
    def str_(v):
        if isinstance(v, str):
            return v
        if isinstance(v, SV) and v.ty == "str":
            return v
        if isinstance(v, Obj):
            f, owner = v.cls.lookup("__str__")
            if f is not None and not (owner.builtin and owner.name == "object"):
                return I.call(I.bind(f, v), [], {})
        return I.format_value(v, -1, None)
    I.str_ = str_

    def str_to_int(v):
        f = z3.Function("str_to_int_py", z3.StringSort(), z3.IntSort())
        ok = z3.Function("str_is_int_py", z3.StringSort(), z3.BoolSort())
        if not I.st.branch(ok(v.z), "int(str) parses"):
            I.raise_py("ValueError", "invalid literal for int()")
        return SV(f(v.z), "int")
    I.str_to_int = str_to_int

    def str_to_float(v):
        f = z3.Function("str_to_float_py", z3.StringSort(), z3.RealSort())
        ok = z3.Function("str_is_float_py", z3.StringSort(), z3.BoolSort())
        if not I.st.branch(ok(v.z), "float(str) parses"):
            I.raise_py("ValueError", "could not convert string to float")
        return SV(f(v.z), "real")
    I.str_to_float = str_to_float

    for _mname in ("strip", "split", "lower", "upper", "startswith", "join"):
        ns["str"].ns[_mname] = Builtin(f"str.{_mname}", (lambda mn: lambda i, a, k: i.call(i.getattr_(a[0], mn), a[1:], k))(_mname))
    # decorators that appear as plain names in expressions
    ns["property"] = Builtin("property", lambda i, a, k: PropertyV(*a, **k))
    ns["classmethod"] = Builtin("classmethod", lambda i, a, k: ClassMethodV(a[0]))
    ns["staticmethod"] = Builtin("staticmethod", lambda i, a, k: StaticMethodV(a[0]))


def _intify(x):
    if isinstance(x, EnumVal):
        return x.value
    if isinstance(x, bool):
        return int(x)
    return x
