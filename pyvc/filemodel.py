"""Byte-store model: python bytes values and binary file streams as abstract sorts with
memory-model axioms (read-over-write), plus the two `struct` formats of molli/storage/ukvfile.py.

Trusted base (DESIGN 2.4): a file is a byte array + stream position; a short read happens only
at EOF; seek past EOF followed by write zero-fills; struct pack/unpack are mutually inverse on
their ranges and raise struct.error outside them.
"""
from __future__ import annotations
import z3, struct as _pystruct
from .values import *
from .ops import to_z3, pyclass_kind, blen, bcat, b_empty, bytes_const

Int = z3.IntSort()
bslice = z3.Function("bslice", BytesS, Int, Int, BytesS)      # bslice(b, off, len)
bwrite = z3.Function("bwrite", BytesS, Int, BytesS, BytesS)   # file content after writing d at p
btrunc = z3.Function("btrunc", BytesS, Int, BytesS)           # first n bytes
bextend = z3.Function("bextend", BytesS, Int, BytesS)         # zero-extended to n bytes
# >BI  block header
pack_BI = z3.Function("pack_BI", Int, Int, BytesS)
unp_B = z3.Function("unp_B", BytesS, Int)
unp_I = z3.Function("unp_I", BytesS, Int)
# >16sHI10x file header
pack_FH = z3.Function("pack_FH", BytesS, Int, Int, BytesS)
unp_FH_s = z3.Function("unp_FH_s", BytesS, BytesS)
unp_FH_H = z3.Function("unp_FH_H", BytesS, Int)
unp_FH_I = z3.Function("unp_FH_I", BytesS, Int)
pad16 = z3.Function("pad16", BytesS, BytesS)
s_encode = z3.Function("str_encode", z3.StringSort(), BytesS)
b_decode = z3.Function("bytes_decode", BytesS, z3.StringSort())
b_is_utf8 = z3.Function("bytes_is_utf8", BytesS, z3.BoolSort())

FH_SIZE = 32
BH_SIZE = 5


def theory():
    """Axioms of the byte store (quantified, with triggers)."""
    b, d, F = z3.Consts("b d F", BytesS)
    o, l, p, a, k, v, n = z3.Ints("o l p a k v n")
    s = z3.Const("s", z3.StringSort())
    ax = []
    A = ax.append
    A(z3.ForAll([b], blen(b) >= 0, patterns=[blen(b)]))
    A(blen(b_empty) == 0)
    A(z3.ForAll([b], z3.Implies(blen(b) == 0, b == b_empty), patterns=[blen(b)]))
    A(z3.ForAll([b, o, l], z3.Implies(z3.And(o >= 0, l >= 0, o + l <= blen(b)), blen(bslice(b, o, l)) == l),
                patterns=[bslice(b, o, l)]))
    A(z3.ForAll([b], bslice(b, 0, blen(b)) == b, patterns=[bslice(b, 0, blen(b))]))
    # write
    A(z3.ForAll([F, p, d], blen(bwrite(F, p, d)) == z3.If(p + blen(d) > blen(F), p + blen(d), blen(F)),
                patterns=[bwrite(F, p, d)]))
    A(z3.ForAll([F, p, d, a, l],
                z3.Implies(z3.And(a >= 0, l >= 0, a + l <= blen(d), p >= 0),
                           bslice(bwrite(F, p, d), p + a, l) == bslice(d, a, l)),
                patterns=[z3.MultiPattern(bslice(bwrite(F, p, d), p + a, l))]))
    A(z3.ForAll([F, p, d], z3.Implies(p >= 0, bslice(bwrite(F, p, d), p, blen(d)) == d),
                patterns=[bwrite(F, p, d)]))
    A(z3.ForAll([F, p, d, o, l],
                z3.Implies(z3.And(o >= 0, l >= 0, o + l <= blen(F), z3.Or(o + l <= p, o >= p + blen(d))),
                           bslice(bwrite(F, p, d), o, l) == bslice(F, o, l)),
                patterns=[bslice(bwrite(F, p, d), o, l)]))
    # truncate
    A(z3.ForAll([F, n], z3.Implies(z3.And(n >= 0, n <= blen(F)), blen(btrunc(F, n)) == n), patterns=[btrunc(F, n)]))
    A(z3.ForAll([F, n, o, l], z3.Implies(z3.And(o >= 0, l >= 0, o + l <= n, n <= blen(F)),
                                         bslice(btrunc(F, n), o, l) == bslice(F, o, l)),
                patterns=[bslice(btrunc(F, n), o, l)]))
    A(z3.ForAll([F, n], z3.Implies(n > blen(F), blen(bextend(F, n)) == n), patterns=[bextend(F, n)]))
    A(z3.ForAll([F, n, o, l], z3.Implies(z3.And(o >= 0, l >= 0, o + l <= blen(F), n > blen(F)),
                                         bslice(bextend(F, n), o, l) == bslice(F, o, l)),
                patterns=[bslice(bextend(F, n), o, l)]))
    # >BI
    rng = z3.And(k >= 0, k < 256, v >= 0, v < 2 ** 32)
    A(z3.ForAll([k, v], z3.Implies(rng, z3.And(blen(pack_BI(k, v)) == BH_SIZE, unp_B(pack_BI(k, v)) == k, unp_I(pack_BI(k, v)) == v)),
                patterns=[pack_BI(k, v)]))
    A(z3.ForAll([b], z3.Implies(blen(b) == BH_SIZE, z3.And(unp_B(b) >= 0, unp_B(b) < 256, unp_I(b) >= 0, unp_I(b) < 2 ** 32,
                                                           pack_BI(unp_B(b), unp_I(b)) == b)),
                patterns=[unp_B(b)]))
    # >16sHI10x
    rngh = z3.And(k >= 0, k < 65536, v >= 0, v < 2 ** 32)
    A(z3.ForAll([b, k, v], z3.Implies(rngh, z3.And(blen(pack_FH(b, k, v)) == FH_SIZE, unp_FH_s(pack_FH(b, k, v)) == pad16(b),
                                                   unp_FH_H(pack_FH(b, k, v)) == k, unp_FH_I(pack_FH(b, k, v)) == v)),
                patterns=[pack_FH(b, k, v)]))
    A(z3.ForAll([b], z3.Implies(blen(b) == FH_SIZE, z3.And(unp_FH_H(b) >= 0, unp_FH_H(b) < 65536, unp_FH_I(b) >= 0, unp_FH_I(b) < 2 ** 32,
                                                           blen(unp_FH_s(b)) == 16)),
                patterns=[unp_FH_H(b)]))
    A(z3.ForAll([b], z3.And(blen(pad16(b)) == 16, pad16(pad16(b)) == pad16(b)), patterns=[pad16(b)]))
    # str <-> bytes (utf-8): encode is injective with decode as left inverse
    A(z3.ForAll([s], z3.And(b_decode(s_encode(s)) == s, b_is_utf8(s_encode(s))), patterns=[s_encode(s)]))
    A(z3.ForAll([b], z3.Implies(b_is_utf8(b), s_encode(b_decode(b)) == b), patterns=[b_decode(b)]))
    return ax


def use_theory(V_or_st):
    st = getattr(V_or_st, "st", V_or_st)
    if st.ghost.get("bytes_theory"):
        return
    st.ghost["bytes_theory"] = True
    for a in theory():
        st.pc.append(a)
        if not z3.is_quantifier(a):
            st.solver.add(a)


def bz(v):
    """z3 Bytes term of a python-level bytes value"""
    if isinstance(v, SV) and v.ty == "bytes":
        return v.z
    if isinstance(v, bytes):
        return bytes_const(v)
    raise Unsupported(f"not bytes: {v!r}")


def install(I, mkcls, meth):
    ns = I.builtins
    E = I.ext_models
    obj = ns["object"]

    # ------------------------------------------------------------------ struct.Struct
    Struct = mkcls("Struct")
    E["struct.Struct"] = Struct

    def struct_new(i, cls, a, k):
        fmt = a[0]
        if isinstance(fmt, str):
            fmt = fmt.encode()
        if not isinstance(fmt, bytes):
            raise Unsupported("Struct with symbolic format")
        return Obj(Struct, {"fmt": fmt, "size": _pystruct.calcsize(fmt)}, tag="struct")
    Struct.ns["__pyvc_new__"] = struct_new
    Struct.ns["size"] = PropertyV(Builtin("Struct.size", lambda i, a, k: a[0].fields["size"]))

    @meth(Struct, "pack", "struct: pack/unpack inverse on their ranges, struct.error outside")
    def _pack(i, a, k):
        s, args = a[0], a[1:]
        fmt = s.fields["fmt"]
        if fmt == b">BI":
            if len(args) != 2:
                i.raise_py("struct.error", "pack expected 2 items for packing")
            kz, vz = to_z3(args[0], "int"), to_z3(args[1], "int")
            ok = z3.And(kz >= 0, kz < 256, vz >= 0, vz < 2 ** 32)
            if not i.st.branch(ok, "pack>BI in range"):
                i.raise_py("struct.error", "argument out of range")
            return SV(pack_BI(kz, vz), "bytes")
        if fmt == b">16sHI10x":
            if len(args) != 3:
                i.raise_py("struct.error", "pack expected 3 items for packing")
            if pyclass_kind(args[0]) != "bytes":
                i.raise_py("struct.error", "argument for 's' must be a bytes object")
            kz, vz = to_z3(args[1], "int"), to_z3(args[2], "int")
            ok = z3.And(kz >= 0, kz < 65536, vz >= 0, vz < 2 ** 32)
            if not i.st.branch(ok, "pack FH in range"):
                i.raise_py("struct.error", "argument out of range")
            return SV(pack_FH(bz(args[0]), kz, vz), "bytes")
        raise Unsupported(f"struct format {fmt!r}")

    @meth(Struct, "unpack", "struct: pack/unpack inverse on their ranges, struct.error outside")
    def _unpack(i, a, k):
        s, b = a[0], a[1]
        fmt = s.fields["fmt"]
        if pyclass_kind(b) != "bytes":
            i.raise_py("TypeError", "a bytes-like object is required")
        z = bz(b)
        if not i.st.branch(blen(z) == s.fields["size"], "unpack size ok"):
            i.raise_py("struct.error", f"unpack requires a buffer of {s.fields['size']} bytes")
        if fmt == b">BI":
            return (SV(unp_B(z), "int"), SV(unp_I(z), "int"))
        if fmt == b">16sHI10x":
            return (SV(unp_FH_s(z), "bytes"), SV(unp_FH_H(z), "int"), SV(unp_FH_I(z), "int"))
        raise Unsupported(f"struct format {fmt!r}")

    # ------------------------------------------------------------------ binary stream on a ghost file
    BS = mkcls("BufferedRandom")
    E["io.BufferedRandom"] = BS
    I.BinStreamCls = BS

    def _chk_open(i, s):
        if s.fields["closed"]:
            i.raise_py("ValueError", "I/O operation on closed file.")

    def _io_fault(i, s, what):
        """optional fault injection: any I/O call may raise OSError (enabled per unit)"""
        if i.st.ghost.get("io_faults") and not i.st.ghost.get("fault_done"):
            if i.st.branch(i.st.fresh(f"fault_{what}", z3.BoolSort()), f"io-fault:{what}"):
                i.st.ghost["fault_done"] = True       # single-fault enumeration: one injected fault per path
                i.st.event("io-fault", what)
                i.raise_py("OSError", f"injected fault in {what}")

    @meth(BS, "seek", "io: file = byte array + position")
    def _seek(i, a, k):
        s = a[0]
        _chk_open(i, s)
        off = a[1]
        wh = a[2] if len(a) > 2 else k.get("whence", 0)
        f = s.fields["file"]
        if wh == 0:
            zo = to_z3(off, "int")
            if not i.st.branch(zo >= 0, "seek>=0"):
                i.raise_py("OSError", "Invalid argument")
            s.fields["pos"] = SV(zo, "int")
        elif wh == 1:
            s.fields["pos"] = SV(to_z3(s.fields["pos"], "int") + to_z3(off, "int"), "int")
        elif wh == 2:
            s.fields["pos"] = SV(blen(bz(f.fields["content"])) + to_z3(off, "int"), "int")
        else:
            raise Unsupported("seek whence")
        return s.fields["pos"]

    @meth(BS, "tell")
    def _tell(i, a, k):
        _chk_open(i, a[0])
        return a[0].fields["pos"]

    @meth(BS, "read", "io: short read only at EOF")
    def _read(i, a, k):
        s = a[0]
        _chk_open(i, s)
        if not s.fields["r_ok"]:
            i.raise_py("UnsupportedOperation", "not readable")
        _io_fault(i, s, "read")
        f = s.fields["file"]
        F = bz(f.fields["content"])
        pos = to_z3(s.fields["pos"], "int")
        if len(a) < 2 or a[1] is None:
            raise Unsupported("read() without size")
        n = to_z3(a[1], "int")
        avail = z3.If(blen(F) - pos > 0, blen(F) - pos, 0)
        m = z3.If(z3.And(n >= 0, n < avail), n, avail)   # negative size = read to EOF
        s.fields["pos"] = SV(pos + m, "int")
        i.st.event("read", s, SV(pos, "int"), SV(m, "int"))
        return SV(bslice(F, pos, m), "bytes")

    @meth(BS, "write", "io: write at position, zero-fill beyond EOF")
    def _write(i, a, k):
        s = a[0]
        _chk_open(i, s)
        if not s.fields["w_ok"]:
            i.raise_py("UnsupportedOperation", "not writable")
        _io_fault(i, s, "write")
        f = s.fields["file"]
        d = bz(a[1])
        pos = to_z3(s.fields["pos"], "int")
        F = bz(f.fields["content"])
        f.fields["content"] = SV(bwrite(F, pos, d), "bytes")
        s.fields["pos"] = SV(pos + blen(d), "int")
        i.st.event("write", s, SV(pos, "int"), a[1])
        return SV(blen(d), "int")

    @meth(BS, "truncate")
    def _truncate(i, a, k):
        s = a[0]
        _chk_open(i, s)
        if not s.fields["w_ok"]:
            i.raise_py("UnsupportedOperation", "File not open for writing")
        f = s.fields["file"]
        n = to_z3(a[1], "int") if len(a) > 1 and a[1] is not None else to_z3(s.fields["pos"], "int")
        F = bz(f.fields["content"])
        if not i.st.branch(n >= 0, "truncate n>=0"):
            i.raise_py("OSError", "Invalid argument")
        # n <= |F|: prefix; n > |F|: zero-extension (bextend); both keep the first min(n,|F|) bytes
        f.fields["content"] = SV(z3.If(n <= blen(F), btrunc(F, n), bextend(F, n)), "bytes")
        i.st.event("truncate", s, SV(n, "int"))
        return SV(n, "int")

    @meth(BS, "close")
    def _close(i, a, k):
        s = a[0]
        if not s.fields["closed"]:
            s.fields["closed"] = True
            i.st.event("close", s)

    @meth(BS, "writable")
    def _writable(i, a, k):
        _chk_open(i, a[0])
        return a[0].fields["w_ok"]

    @meth(BS, "flush")
    def _flush(i, a, k):
        _chk_open(i, a[0])

    BS.ns["closed"] = PropertyV(Builtin("BufferedRandom.closed", lambda i, a, k: a[0].fields["closed"]))
    meth(BS, "__enter__")(lambda i, a, k: a[0])

    @meth(BS, "__exit__")
    def _exit(i, a, k):
        _close(i, a[:1], {})
        return False

    def open_binary(i, cell, mode):
        """cell: Obj(tag='file') with fields exists (bool|z3 Bool), content (SV bytes)"""
        st = i.st
        ex = cell.fields["exists"]
        if mode in ("rb", "r+b", "rb+"):
            if not st.branch(ex, "file exists"):
                i.raise_py("FileNotFoundError", "No such file")
        elif mode in ("x+b", "xb"):
            if st.branch(ex, "file exists"):
                i.raise_py("FileExistsError", "File exists")
            cell.fields["exists"] = True
            cell.fields["content"] = b""
        elif mode in ("w+b", "wb"):
            cell.fields["exists"] = True
            cell.fields["content"] = b""
        else:
            raise Unsupported(f"open mode {mode!r}")
        if st.ghost.get("io_faults") and not st.ghost.get("fault_done"):
            if st.branch(st.fresh("fault_open", z3.BoolSort()), "io-fault:open"):
                st.ghost["fault_done"] = True
                i.raise_py("OSError", "injected fault in open")
        s = Obj(BS, {"file": cell, "pos": 0, "closed": False, "r_ok": True,
                     "w_ok": mode != "rb", "mode": mode}, tag="binstream")
        st.event("open", s, cell, mode)
        return s
    I.open_binary = open_binary


def new_file_cell(I, name="F", exists=True, content=None):
    st = I.st
    c = Obj(I.builtins["object"], {"exists": exists,
                                   "content": content if content is not None else st.fresh_sv(name, "bytes")}, tag="file")
    return c
