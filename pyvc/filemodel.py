"""Byte-level file / struct model for the UKV store (filled in by the C02-C04 slice)."""
from __future__ import annotations
from .values import *


def install(I, mkcls, meth):
    pass
