"""Value domain of the symbolic executor (DESIGN.md section 2.3)."""
from __future__ import annotations
import z3, itertools, fractions

U = z3.DeclareSort("U")          # opaque (uninterpreted) python values
BytesS = z3.DeclareSort("Bytes")  # python bytes values (abstract, with blen / memory-model axioms)
RowS = z3.DeclareSort("Row")      # one row (axis-0 element) of an ndarray


class Unsupported(Exception):
    """Construct outside the supported subset: the obligation is *ungenerable* (undecided)."""


class IterationCap(Exception):
    """a loop without a loop specification ran far beyond anything its (concrete-size) input could need: suspected non-termination"""


class PathEnd(Exception):
    """The current path stops here (after an inductive step or an infeasible assumption)."""


class PyExc(Exception):
    """A python exception propagating through interpreted code."""

    def __init__(self, value):
        super().__init__(repr(value))
        self.value = value  # Obj whose cls is an exception ClassV


class SV:
    """Symbolic scalar: z3 term + python-level type tag.

    ty: 'int' | 'bool' | 'real' | 'str' | 'bytes' | 'row' | 'U' | ('enum', ClassV) | ('ref', ClassV)
    """
    __slots__ = ("z", "ty")

    def __init__(self, z, ty):
        self.z = z
        self.ty = ty

    def __repr__(self):
        return f"SV<{self.ty if isinstance(self.ty, str) else self.ty[0] + ':' + self.ty[1].name}>({self.z})"

    # contracts may use python operators on SV for convenience
    def _bin(self, other, f):
        return f(self.z, other.z if isinstance(other, SV) else other)

    def __add__(self, o): return SV(self._bin(o, lambda a, b: a + b), self.ty)
    def __sub__(self, o): return SV(self._bin(o, lambda a, b: a - b), self.ty)
    def __mul__(self, o): return SV(self._bin(o, lambda a, b: a * b), self.ty)
    def __lt__(self, o): return self._bin(o, lambda a, b: a < b)
    def __le__(self, o): return self._bin(o, lambda a, b: a <= b)
    def __gt__(self, o): return self._bin(o, lambda a, b: a > b)
    def __ge__(self, o): return self._bin(o, lambda a, b: a >= b)
    def __hash__(self): return id(self)


_oid = itertools.count(1)


class Obj:
    """Heap object with concrete identity; fields live in a python dict (per path, re-executed)."""
    __slots__ = ("cls", "fields", "oid", "tag")

    def __init__(self, cls, fields=None, tag=None):
        self.cls = cls
        self.fields = fields if fields is not None else {}
        self.oid = next(_oid)
        self.tag = tag

    def __repr__(self):
        return f"<{self.cls.name}#{self.oid}{' ' + str(self.tag) if self.tag else ''}>"


class ClassV:
    def __init__(self, name, module=None, node=None, bases=(), builtin=False):
        self.name = name
        self.module = module
        self.node = node
        self.bases = list(bases)
        self.builtin = builtin
        self.ns = {}            # class namespace (evaluated)
        self.mro = None
        self.is_enum = False
        self.is_intenum = False
        self.members = {}       # enum: name -> EnumVal
        self.attrs_fields = None  # list of AttrsField for attrs/dataclass classes
        self.attrs_opts = {}
        self.slots = None
        self.qual = (module.name + ":" + name) if module is not None else name

    def __repr__(self):
        return f"<class {self.qual}>"

    def compute_mro(self):
        seqs = [list(b.mro) for b in self.bases] + [list(self.bases)]
        res = [self]
        while True:
            seqs = [s for s in seqs if s]
            if not seqs:
                break
            for s in seqs:
                cand = s[0]
                if not any(cand in t[1:] for t in seqs):
                    break
            else:
                raise Unsupported(f"inconsistent MRO for {self.name}")
            res.append(cand)
            for s in seqs:
                if s[0] is cand:
                    del s[0]
        self.mro = res

    def lookup(self, name, after=None):
        """class-level attribute lookup along the MRO (optionally after class `after`)."""
        mro = self.mro
        if after is not None:
            mro = mro[mro.index(after) + 1:]
        for c in mro:
            if name in c.ns:
                return c.ns[name], c
        return None, None

    def issub(self, other):
        return other in self.mro


class EnumVal:
    """Concrete enum member."""
    __slots__ = ("cls", "name", "value")

    def __init__(self, cls, name, value):
        self.cls = cls
        self.name = name
        self.value = value

    def __repr__(self):
        return f"{self.cls.name}.{self.name}"

    def __eq__(self, o):
        return isinstance(o, EnumVal) and o.cls is self.cls and o.name == self.name

    def __hash__(self):
        return hash((self.cls.name, self.name))


class AttrsField:
    def __init__(self, name, default=None, has_default=False, factory=None, converter=None,
                 on_setattr=None, kw_only=False, init=True):
        self.name = name
        self.default = default
        self.has_default = has_default
        self.factory = factory
        self.converter = converter
        self.on_setattr = on_setattr
        self.kw_only = kw_only
        self.init = init

    @property
    def init_name(self):
        return self.name.lstrip("_")


class FuncV:
    def __init__(self, node, module, cls=None, closure=None, qual=None):
        self.node = node
        self.module = module
        self.cls = cls            # defining class (for super())
        self.closure = closure    # enclosing Frame or None
        self.defaults = None      # evaluated lazily once
        self.kw_defaults = None
        self.qual = qual
        self.name = getattr(node, "name", "<lambda>")
        self.is_gen = False
        self.wrapped_ctx = False   # @contextmanager

    def __repr__(self):
        return f"<function {self.qual or self.name}>"


class BoundMethod:
    __slots__ = ("func", "self")

    def __init__(self, func, self_):
        self.func = func
        self.self = self_

    def __repr__(self):
        return f"<bound {self.func!r} of {self.self!r}>"


class Builtin:
    """Model of a builtin / library callable: fn(interp, args, kwargs) -> value."""
    __slots__ = ("name", "fn", "trusted")

    def __init__(self, name, fn, trusted=None):
        self.name = name
        self.fn = fn
        self.trusted = trusted

    def __repr__(self):
        return f"<builtin {self.name}>"


class PropertyV:
    def __init__(self, fget=None, fset=None, fdel=None):
        self.fget, self.fset, self.fdel = fget, fset, fdel


class ClassMethodV:
    def __init__(self, func):
        self.func = func


class StaticMethodV:
    def __init__(self, func):
        self.func = func


class ModuleV:
    def __init__(self, name):
        self.name = name

    def __repr__(self):
        return f"<module {self.name}>"


class ExtModuleV:
    """A module outside the repository (stdlib / third party): attributes come from pyvc.models."""

    def __init__(self, name):
        self.name = name

    def __repr__(self):
        return f"<extmodule {self.name}>"


class ListV:
    """python list with concrete spine (elements may be symbolic)."""
    __slots__ = ("items", "oid")

    def __init__(self, items=None):
        self.items = list(items) if items is not None else []
        self.oid = next(_oid)

    def __repr__(self):
        return f"ListV{self.items!r}"


class DictV:
    """python dict with concrete spine; keys compared with the executor's equality (may branch)."""
    __slots__ = ("keys", "vals", "oid")

    def __init__(self, pairs=None):
        self.keys = []
        self.vals = []
        self.oid = next(_oid)
        for k, v in (pairs or []):
            self.keys.append(k)
            self.vals.append(v)

    def __repr__(self):
        return "DictV{" + ", ".join(f"{k!r}: {v!r}" for k, v in zip(self.keys, self.vals)) + "}"


class SetV:
    __slots__ = ("items", "oid", "frozen")

    def __init__(self, items=None, frozen=False):
        self.items = list(items) if items is not None else []
        self.oid = next(_oid)
        self.frozen = frozen

    def __repr__(self):
        return f"SetV{self.items!r}"


class SymSeq:
    """Sequence of unknown length: z3 array Int -> elem plus length (array property fragment).

    kind: 'list' | 'tuple' | 'deque' ; elem_ty is the SV type tag of the elements.
    Mutating operations replace (arr, n) and add the defining quantified axiom to the path.
    """
    __slots__ = ("arr", "n", "elem_ty", "kind", "oid")

    def __init__(self, arr, n, elem_ty, kind="list"):
        self.arr = arr
        self.n = n
        self.elem_ty = elem_ty
        self.kind = kind
        self.oid = next(_oid)

    def __repr__(self):
        return f"SymSeq<{self.kind}>({self.arr}, n={self.n})"


class SymMap:
    """dict with symbolic key set: has: Array K->Bool and one value array per value field."""
    __slots__ = ("has", "vals", "key_ty", "val_build", "val_split", "oid", "order")

    def __init__(self, has, vals, key_ty, val_build, val_split, order=None):
        self.has = has
        self.vals = vals          # dict fieldname -> z3 Array K -> sort
        self.key_ty = key_ty
        self.val_build = val_build  # (interp, {field: z3}) -> value
        self.val_split = val_split  # (interp, value) -> {field: z3}
        self.oid = next(_oid)
        self.order = order

    def __repr__(self):
        return f"SymMap({self.has})"


class SymSet:
    """set with symbolic membership: has: Array Elem -> Bool"""
    __slots__ = ("has", "elem_ty", "oid")

    def __init__(self, has, elem_ty):
        self.has = has
        self.elem_ty = elem_ty
        self.oid = next(_oid)

    def __repr__(self):
        return f"SymSet({self.has})"


class GenV:
    """Generator object: wraps the executor's own python generator (lazy, resumable)."""

    def __init__(self, pygen, name=""):
        self.pygen = pygen
        self.name = name
        self.done = False
        self.started = False


class IterV:
    """Lazy iterator over python-level values produced by a python iterator."""

    def __init__(self, it):
        self.it = it


class SuperV:
    def __init__(self, after_cls, self_):
        self.after = after_cls
        self.self = self_


class Opaque:
    """Uninterpreted value: a structural term (head, args) -- equality is structural."""
    __slots__ = ("head", "args")

    def __init__(self, head, args=()):
        self.head = head
        self.args = tuple(args)

    def __repr__(self):
        if not self.args:
            return f"${self.head}"
        return f"${self.head}({', '.join(map(repr, self.args))})"

    def __eq__(self, o):
        return isinstance(o, Opaque) and self.head == o.head and self.args == o.args

    def __hash__(self):
        return hash((self.head, len(self.args)))


class NdArr:
    """numpy ndarray model: axis 0 as (rows array, n), remaining shape as python tuple of ints/SV.

    `rows` : z3 Array Int -> Row (RowS) ; `tail`: tuple of trailing dims ; `dtype`: 'num' | 'object'
    A fully concrete small array may carry `data` (nested python lists of scalars) instead.
    """
    __slots__ = ("rows", "n", "tail", "dtype", "data", "oid", "single")

    def __init__(self, rows=None, n=None, tail=(), dtype="num", data=None):
        self.single = False
        self.rows = rows
        self.n = n
        self.tail = tuple(tail)
        self.dtype = dtype
        self.data = data
        self.oid = next(_oid)

    def __repr__(self):
        if self.data is not None:
            return f"NdArr(data={self.data!r})"
        return f"NdArr(n={self.n}, tail={self.tail}, dtype={self.dtype})"


def is_sym(v):
    return isinstance(v, SV)


def real_of_float(x: float):
    return z3.RealVal(str(fractions.Fraction(repr(x))))
