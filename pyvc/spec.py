"""Contract language (sidecar; python).  A *property module* under /verif/contracts declares

    P = Property("C09", title=...)
    @P.unit("molli.reader:load")           # function under contract, verified against its clauses
    def _(V): ...                          # builds the symbolic pre-state, calls V.call(...), states V.ensure(...)

Each unit body is executed once per path of the real function (paths are explored by
re-execution).  `V.ensure(label, formula)` records a verification condition  pc => formula.
"""
from __future__ import annotations
import z3, traceback, time, json, os, hashlib
from .values import *
from .state import State, explore, sort_of
from .symex import Interp, LoopSpec, LoopCtx
from .extract import Repo
from . import REPO


class Outcome:
    def __init__(self, kind, value=None, exc=None):
        self.kind = kind      # 'return' | 'raise'
        self.value = value
        self.exc = exc        # Obj (exception instance) when kind == 'raise'

    @property
    def returned(self):
        return self.kind == "return"

    def raised(self, I, name):
        return self.kind == "raise" and self.exc.cls.issub(I.builtins[name] if isinstance(name, str) else name)

    def __repr__(self):
        return f"Outcome({self.kind}, {self.value if self.kind == 'return' else self.exc})"


class V:
    """verification context handed to a unit body"""

    def __init__(self, unit, interp, st):
        self.unit = unit
        self.I = interp
        self.st = st
        self.witness_fn = None
        self.case = []
        self.tier = "quick"       # 'thorough' lets a contract explore larger shapes (same obligations, more cases)

    # -- building symbolic inputs
    def sym(self, name, ty):
        return self.st.fresh_sv(name, ty)

    def sym_enum(self, name, cls):
        return self.I.fresh_enum(name, cls)

    def cls(self, qual):
        mod, _, name = qual.partition(":")
        return self.I.module_global(mod, name)

    def glob(self, qual):
        mod, _, name = qual.partition(":")
        return self.I.module_global(mod, name)

    def choose(self, options, what="case"):
        i = self.st.choose(len(options), what)
        self.case.append((what, i if not isinstance(options[i], (str, int, type(None))) else options[i]))
        return options[i]

    def assume(self, f):
        self.st.assume(f.z if isinstance(f, SV) else f)

    def cover(self, label="pre"):
        """vacuity guard: the assumptions made so far must be satisfiable"""
        r = self.st.sat()
        self.unit.covers.setdefault(label, []).append(str(r))
        if r == z3.unsat:
            raise PathEnd("vacuous precondition")
        # full check (with the quantified facts) is discharged with the other VCs: `False` must NOT be provable
        self.st.check(f"{self.unit.qual}/cover:{label}", False, kind="cover", case=list(self.case))

    # -- running the real function
    def call(self, qual_or_fn, args=(), kwargs=None, target=True):
        f = self.glob(qual_or_fn) if isinstance(qual_or_fn, str) else qual_or_fn
        if target and isinstance(qual_or_fn, str):
            self.I.target = qual_or_fn
        try:
            r = self.I.call(f, list(args), dict(kwargs or {}))
            return Outcome("return", value=r)
        except PyExc as e:
            return Outcome("raise", exc=e.value)

    def method(self, obj, name, args=(), kwargs=None, qual=None):
        if qual:
            self.I.target = qual
        try:
            f = self.I.getattr_(obj, name)
            r = self.I.call(f, list(args), dict(kwargs or {}))
            return Outcome("return", value=r)
        except PyExc as e:
            return Outcome("raise", exc=e.value)

    # -- obligations
    def ensure(self, label, goal, **info):
        if self.witness_fn is not None and "witness" not in info:
            info["witness"] = self.witness_fn
        info.setdefault("case", list(self.case))
        if self.unit.owner is not self.unit.prop:
            info.setdefault("replay_script", self.unit.owner.id)      # shared unit: its witnesses are replayed by the owner's harness
        info.setdefault("branches", list(self.st.branch_log))
        self.st.check(f"{self.unit.qual}/{label}", goal, **info)

    def witness(self, fn):
        """fn(model_eval) -> json-able dict handed to the replay harness"""
        self.witness_fn = fn


class Unit:
    def __init__(self, prop, qual, body, name=None, functions=None, kind="contract"):
        self.prop = prop
        self.qual = qual
        self.body = body
        self.name = name or qual
        self.functions = functions or [qual]   # functions of /repo this unit puts under contract
        self.kind = kind
        self.covers = {}
        self.setup = None
        self.owner = prop       # the property whose setup functions this unit needs (differs from prop for shared units)


class Property:
    def __init__(self, pid, title="", replay=None):
        self.id = pid
        self.title = title
        self.units = []
        self.setup_fns = []
        self.trusted = []
        self.assumptions = []
        self.bounded = []       # bounded stand-ins (callables), never counted as proved
        self.replay = replay    # replay script name under /verif/replay
        self.lemmas = []
        self.not_decided = []

    def unit(self, qual, name=None, functions=None):
        def deco(fn):
            self.units.append(Unit(self, qual, fn, name, functions))
            return fn
        return deco

    def include(self, other, select, why=""):
        """share units of another property: this property's claim relies on those contracts (modular use), so a change that breaks
        them must fail THIS check too.  `select`: substrings of unit names."""
        for u in other.units:
            if any(sub in u.name for sub in select):
                nu = Unit(self, u.qual, u.body, f"{u.name} [contract shared with {other.id}{': ' + why if why else ''}]", list(u.functions), u.kind)
                nu.owner = other
                self.units.append(nu)

    def lemma(self, name, functions=()):
        """a lemma over contracts / spec functions: body(L) returns list of (label, pc-list, goal)"""
        def deco(fn):
            u = Unit(self, "lemma:" + name, fn, name, list(functions), kind="lemma")
            self.units.append(u)
            return fn
        return deco

    def setup(self, fn):
        """fn(interp): install stubs / loop specs / contract applications"""
        self.setup_fns.append(fn)
        return fn

    def assume(self, text):
        self.assumptions.append(text)

    def trust(self, text):
        self.trusted.append(text)

    def bounded_standin(self, name, bound):
        def deco(fn):
            self.bounded.append((name, bound, fn))
            return fn
        return deco


def new_interp(prop, unit=None):
    I = Interp(Repo(REPO))
    for fn in (unit.owner if unit is not None else prop).setup_fns:
        fn(I)
    return I
