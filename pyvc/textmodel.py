"""Structured-string domain (DESIGN 2.3): text produced by f-strings over symbolic values.

A string is a sequence of parts: python literals and *tokens* (a formatted symbolic int / float / str).  A token is
assumed to be non-empty and whitespace-free (an obligation on labels/names stated as the property's precondition);
the amount of padding is not tracked (readers use split()).  Numeric text codecs are assumptions:
    float(format(x, '<w>.<p>f')) = R_p(x)  with |R_p(x) - x| <= 0.5 * 10**-p  and  R_p(R_p(x)) = R_p(x);
    int(format(i, ...)) = i.
Enabled per unit with  st.ghost['textmodel'] = True.
"""
from __future__ import annotations
import re as _re
import z3
from .values import *
from .ops import to_z3, pyclass_kind, num_kind

WS = " \t\r\n\x0b\x0c"


class Tok:
    __slots__ = ("kind", "value", "spec")

    def __init__(self, kind, value, spec=""):
        self.kind = kind      # 'int' | 'float' | 'str'
        self.value = value
        self.spec = spec or ""

    def __repr__(self):
        return f"<{self.kind}:{self.value!r}:{self.spec}>"

    def precision(self):
        m = _re.search(r"\.(\d+)f", self.spec)
        return int(m.group(1)) if m else 6


class SStr:
    """structured string: list of str | Tok (adjacent literals merged)"""
    __slots__ = ("parts",)

    def __init__(self, parts=()):
        out = []
        for p in parts:
            if isinstance(p, SStr):
                ps = p.parts
            else:
                ps = [p]
            for q in ps:
                if isinstance(q, str):
                    if q == "":
                        continue
                    if out and isinstance(out[-1], str):
                        out[-1] += q
                    else:
                        out.append(q)
                else:
                    out.append(q)
        self.parts = out

    def __repr__(self):
        return "SStr" + repr(self.parts)

    def is_literal(self):
        return all(isinstance(p, str) for p in self.parts)

    def literal(self):
        return "".join(self.parts)


def rounding(p):
    """R_p : Real -> Real, the value read back from a '%.<p>f' rendering"""
    return z3.Function(f"round_dec{p}", z3.RealSort(), z3.RealSort())


def rounding_axioms(p):
    R = rounding(p)
    x = z3.Real("x!r")
    eps = z3.RealVal(5) / z3.RealVal(10 ** (p + 1))
    return [z3.ForAll([x], z3.And(R(x) - x <= eps, x - R(x) <= eps, R(R(x)) == R(x)), patterns=[R(x)]), R(0) == 0]


def use(st):
    if st.ghost.get("textmodel"):
        return
    st.ghost["textmodel"] = True
    for p in (3, 6):
        for a in rounding_axioms(p):
            st.pc.append(a)


def make(I, v, conv, spec):
    """format_value hook: token for a symbolic value (None if not applicable)"""
    if not I.st.ghost.get("textmodel"):
        return None
    if isinstance(v, SV):
        if v.ty == "str" and conv in (-1, ord("s")):
            m = _re.search(r"\.(\d+)", spec or "")
            if m:      # precision on a string truncates it
                n = int(m.group(1))
                v = SV(z3.SubString(v.z, 0, z3.If(z3.Length(v.z) < n, z3.Length(v.z), z3.IntVal(n))), "str")
            return SStr([Tok("str", v, spec)])
        if v.ty == "int" and conv == -1:
            return SStr([Tok("int", v, spec)])
        if v.ty == "real" and conv == -1 and (spec is None or spec == "" or spec.endswith("f")):
            return SStr([Tok("float", v, spec or "")])
    if isinstance(v, SStr) and conv in (-1, ord("s")):
        return v
    return None


def concat(parts):
    return SStr(parts)


def lines(s):
    """split into lines keeping the terminators (like iterating a text stream)"""
    out, cur = [], []
    for p in (s.parts if isinstance(s, SStr) else [s]):
        if isinstance(p, str):
            segs = p.split("\n")
            for i, seg in enumerate(segs):
                if i < len(segs) - 1:
                    cur.append(seg + "\n")
                    out.append(_norm(cur))
                    cur = []
                elif seg:
                    cur.append(seg)
        else:
            cur.append(p)
    if cur:
        out.append(_norm(cur))
    return out


def _norm(parts):
    s = SStr(parts)
    return s.literal() if s.is_literal() else s


def strip(s):
    parts = list(s.parts)
    while parts and isinstance(parts[0], str):
        parts[0] = parts[0].lstrip(WS)
        if parts[0] == "":
            parts.pop(0)
        else:
            break
    while parts and isinstance(parts[-1], str):
        parts[-1] = parts[-1].rstrip(WS)
        if parts[-1] == "":
            parts.pop()
        else:
            break
    return _norm(parts)


def isspace(I, s):
    """str.isspace(): non-empty and nothing but whitespace.  A number token is never blank; a symbolic string token stands for a
    blank-free token, so it contributes nothing exactly when it is empty (decided by a branch on its length)."""
    lits = [p for p in s.parts if isinstance(p, str)]
    if any(c not in WS for p in lits for c in p):
        return False
    for p in s.parts:
        if isinstance(p, str):
            continue
        if p.kind != "str" or not isinstance(p.value, SV):
            if isinstance(p.value, str) and p.kind == "str":
                if p.value.strip(WS) != "":
                    return False
                continue
            return False
        if not I.st.branch(z3.Length(p.value.z) == 0, "symbolic token is empty"):
            return False
    return any(len(p) > 0 for p in lits)


def split(I, s, maxsplit=-1):
    """str.split() with whitespace separator"""
    toks, cur = [], []

    def flush():
        if cur:
            toks.append(list(cur))
            del cur[:]
    for p in s.parts:
        if isinstance(p, str):
            i = 0
            while i < len(p):
                if p[i] in WS:
                    flush()
                    i += 1
                else:
                    j = i
                    while j < len(p) and p[j] not in WS:
                        j += 1
                    cur.append(p[i:j])
                    i = j
        else:
            cur.append(p)
    flush()
    if maxsplit is not None and maxsplit >= 0 and len(toks) > maxsplit + 1:
        raise Unsupported("split(maxsplit) that actually truncates a structured string")
    return ListV([unwrap(_norm(t)) for t in toks])


def unwrap(t):
    """a token that is exactly one symbolic str is that string"""
    if isinstance(t, SStr) and len(t.parts) == 1 and isinstance(t.parts[0], Tok) and t.parts[0].kind == "str":
        return t.parts[0].value
    return t


def to_int(I, s):
    s = strip(s) if isinstance(s, SStr) else s
    if isinstance(s, str):
        return None
    if len(s.parts) == 1 and isinstance(s.parts[0], Tok):
        t = s.parts[0]
        if t.kind == "int":
            return t.value
        if t.kind == "float":
            I.raise_py("ValueError", "invalid literal for int() with base 10")
        if t.kind == "str":
            return I.str_to_int(t.value)
    I.raise_py("ValueError", "invalid literal for int()")


def to_float(I, s):
    s = strip(s) if isinstance(s, SStr) else s
    if len(s.parts) == 1 and isinstance(s.parts[0], Tok):
        t = s.parts[0]
        if t.kind == "int":
            return SV(z3.ToReal(to_z3(t.value, "int")), "real")
        if t.kind == "float":
            return SV(rounding(t.precision())(to_z3(t.value, "real")), "real")
        if t.kind == "str":
            return I.str_to_float(t.value)
    I.raise_py("ValueError", "could not convert string to float")


def same_text(I, a, b):
    """formula: two structured strings render to the same text (tokens compared through their codecs)"""
    pa = a.parts if isinstance(a, SStr) else ([a] if a != "" else [])
    pb = b.parts if isinstance(b, SStr) else ([b] if b != "" else [])
    if len(pa) != len(pb):
        return False
    fs = []
    for x, y in zip(pa, pb):
        if isinstance(x, str) or isinstance(y, str):
            if not (isinstance(x, str) and isinstance(y, str)):
                # a literal zero written with the same precision as a float token: equal iff the token's value reads back as 0
                lit, tk = (x, y) if isinstance(x, str) else (y, x)
                if isinstance(tk, Tok) and tk.kind == "float" and _re.fullmatch(r"\s*0\.0+\s*", lit) and len(lit.strip().split(".")[1]) == tk.precision():
                    fs.append(rounding(tk.precision())(to_z3(tk.value, "real")) == 0)
                    continue
                return False
            # padding is not tracked: literal whitespace runs compare equal regardless of length
            if _squash(x) != _squash(y):
                return False
            continue
        if x.kind != y.kind:
            return False
        if x.kind == "float":
            R = rounding(x.precision())
            if x.precision() != y.precision():
                return False
            fs.append(R(to_z3(x.value, "real")) == R(to_z3(y.value, "real")))
        else:
            fs.append(I.eq(x.value, y.value))
    return I.and_(*fs)


def _squash(s):
    return _re.sub(r"[ \t]+", " ", s)


def starts_with(I, s, prefix):
    if not s.parts:
        return prefix == ""
    p0 = s.parts[0]
    if isinstance(p0, str):
        if len(p0) >= len(prefix):
            return p0.startswith(prefix)
        if not prefix.startswith(p0):
            return False
        raise Unsupported("prefix test spanning a token")
    if p0.kind in ("int", "float"):
        return prefix == "" or (prefix[0] in "0123456789-+. nia" and (_ for _ in ()).throw(Unsupported("prefix test on a number token"))) if prefix and prefix[0] in "0123456789-+." else (prefix == "")
    return z3.PrefixOf(z3.StringVal(prefix), to_z3(p0.value))


class ReModel:
    """re.compile for the patterns molli's parsers use, on structured strings (literal strings use python's re)"""

    def __init__(self, pattern):
        self.pattern = pattern
        self.rx = _re.compile(pattern)

    def match(self, I, s):
        if isinstance(s, str):
            m = self.rx.match(s)
            return None if m is None else Obj(I.builtins["object"], {"groups": [m.group(0)] + list(m.groups())}, tag="rematch")
        if isinstance(s, SV) and s.ty == "str":
            s = SStr([Tok("str", s)])
        if not isinstance(s, SStr):
            raise Unsupported(f"re.match on {s!r}")
        # literal prefix decides for the anchored patterns molli uses ("#.*", "@<TRIPOS>([A-Z_]+)")
        if not s.parts:
            return self.match(I, "")
        p0 = s.parts[0]
        if isinstance(p0, str):
            lead = self.pattern[0] if self.pattern and self.pattern[0] not in "^([" else None
            if lead is not None and not p0.startswith(lead):
                return None
            m = self.rx.match(p0)
            if m is not None and m.end() < len(p0):
                return Obj(I.builtins["object"], {"groups": [m.group(0)] + list(m.groups())}, tag="rematch")
            raise Unsupported("regex match reaching into a token")
        if p0.kind in ("int", "float"):
            if self.pattern[:1] in ("#", "@"):
                return None
            raise Unsupported("regex on a number token")
        lead = self.pattern[:1]
        if lead in ("#", "@"):
            c = z3.PrefixOf(z3.StringVal(lead), to_z3(p0.value))
            if I.st.branch(c, f"token starts with {lead!r}"):
                raise Unsupported("a symbolic token that looks like a directive/comment (excluded by the name/label precondition)")
            return None
        raise Unsupported("regex on a symbolic token")
