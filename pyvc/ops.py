"""Operators on the value domain: truthiness, equality, arithmetic, comparison (DESIGN 2.2)."""
from __future__ import annotations
import z3, operator, ast
from .values import *
from .state import sort_of

# uninterpreted helpers
blen = z3.Function("blen", BytesS, z3.IntSort())
bcat = z3.Function("bcat", BytesS, BytesS, BytesS)
b_empty = z3.Const("b_empty", BytesS)


def is_num_ty(ty):
    return ty in ("int", "bool", "real") or (isinstance(ty, tuple) and ty[0] == "enum" and ty[1].is_intenum)


def pyclass_kind(v):
    """static python type tag of a value"""
    if isinstance(v, SV):
        return v.ty
    if isinstance(v, bool):
        return "bool"
    if isinstance(v, int):
        return "int"
    if isinstance(v, float):
        return "real"
    if isinstance(v, str):
        return "str"
    if isinstance(v, bytes):
        return "bytes"
    if v is None:
        return "none"
    if isinstance(v, EnumVal):
        return ("enum", v.cls)
    return type(v).__name__


def to_z3(v, want=None):
    """z3 term of a scalar value"""
    if isinstance(v, SV):
        z = v.z
        if want == "real" and z.sort() == z3.IntSort():
            return z3.ToReal(z)
        if want in ("int", "real") and v.ty == "bool":
            z = z3.If(z, 1, 0)
            return z3.ToReal(z) if want == "real" else z
        return z
    if isinstance(v, bool):
        if want == "int":
            return z3.IntVal(int(v))
        if want == "real":
            return z3.RealVal(int(v))
        return z3.BoolVal(v)
    if isinstance(v, int):
        return z3.RealVal(v) if want == "real" else z3.IntVal(v)
    if isinstance(v, float):
        return real_of_float(v)
    if isinstance(v, str):
        return z3.StringVal(v)
    if isinstance(v, EnumVal):
        if isinstance(v.value, int):
            return z3.RealVal(v.value) if want == "real" else z3.IntVal(v.value)
        raise Unsupported("non-int enum to z3")
    if isinstance(v, bytes):
        return bytes_const(v)
    if isinstance(v, Obj):
        return z3.IntVal(v.oid)
    if v is None and want in ("ref", "int"):
        return z3.IntVal(0)
    raise Unsupported(f"to_z3({v!r})")


_bytes_consts = {}


def bytes_const(b: bytes):
    if b == b"":
        return b_empty
    if b not in _bytes_consts:
        _bytes_consts[b] = z3.Const("b_" + b.hex(), BytesS)
    return _bytes_consts[b]


def bytes_axioms():
    """facts about bytes literals used so far (lengths; distinctness by length only)."""
    ax = [blen(b_empty) == 0]
    for b, c in _bytes_consts.items():
        ax.append(blen(c) == len(b))
    cs = list(_bytes_consts.values())
    if len(cs) > 1:
        ax.append(z3.Distinct(*cs))
    for c in cs:
        ax.append(c != b_empty)
    return ax


def num_kind(v):
    k = pyclass_kind(v)
    if k in ("int", "bool"):
        return "int"
    if k == "real":
        return "real"
    if isinstance(k, tuple) and k[0] == "enum" and k[1].is_intenum:
        return "int"
    return None


class Ops:
    """mixin for Interp"""

    # ---------------------------------------------------------------- truth
    def truth(self, v):
        """python truthiness -> bool | z3 Bool"""
        if isinstance(v, SV):
            if v.ty == "bool":
                return v.z
            if v.ty == "int" or (isinstance(v.ty, tuple) and v.ty[0] == "enum"):
                return v.z != 0
            if v.ty == "real":
                return v.z != 0
            if v.ty == "str":
                return z3.Length(v.z) > 0
            if v.ty == "bytes":
                return blen(v.z) > 0
            if isinstance(v.ty, tuple) and v.ty[0] == "ref":
                return self.truth_ref(v)
            raise Unsupported(f"truth of {v!r}")
        if v is None or isinstance(v, (bool, int, float, str, bytes, tuple)):
            return bool(v)
        if isinstance(v, EnumVal):
            return bool(v.value) if v.cls.is_intenum else True
        if type(v).__name__ == "SStr":
            return len(v.parts) > 0        # tokens are non-empty
        if isinstance(v, (ListV, SetV)):
            return len(v.items) > 0
        if isinstance(v, DictV):
            return len(v.keys) > 0
        if isinstance(v, SymSeq):
            return v.n > 0
        if isinstance(v, NdArr):
            raise Unsupported("truth value of an ndarray")
        if isinstance(v, Obj):
            f, _ = v.cls.lookup("__bool__")
            if f is not None:
                return self.truth(self.call(self.bind(f, v), [], {}))
            f, _ = v.cls.lookup("__len__")
            if f is not None:
                n = self.call(self.bind(f, v), [], {})
                return self.truth(self.compare(ast.Gt(), n, 0))
            return True
        if isinstance(v, Opaque):
            raise Unsupported(f"truth of opaque {v!r}")
        return True

    def truth_ref(self, v):
        return True

    def not_(self, c):
        return (not c) if isinstance(c, bool) else z3.Not(c)

    def and_(self, *cs):
        out = []
        for c in cs:
            if isinstance(c, bool):
                if not c:
                    return False
            else:
                out.append(c)
        if not out:
            return True
        return z3.And(*out) if len(out) > 1 else out[0]

    def or_(self, *cs):
        out = []
        for c in cs:
            if isinstance(c, bool):
                if c:
                    return True
            else:
                out.append(c)
        if not out:
            return False
        return z3.Or(*out) if len(out) > 1 else out[0]

    def wrap_bool(self, c):
        if isinstance(c, (bool, NdArr, SV)):
            return c          # an elementwise comparison of arrays is an array
        return SV(c, "bool")

    # ---------------------------------------------------------------- equality
    def eq(self, a, b):
        """python == -> bool | z3 Bool"""
        if type(a).__name__ == "SStr" or type(b).__name__ == "SStr":
            from . import textmodel
            x, y = (a, b) if type(a).__name__ == "SStr" else (b, a)
            if isinstance(y, str) or type(y).__name__ == "SStr":
                return textmodel.same_text(self, x, y)
            if isinstance(y, SV) and y.ty == "str":
                u = textmodel.unwrap(x)
                if isinstance(u, SV):
                    return u.z == y.z
                return False
            return False
        if (isinstance(a, float) and a != a) or (isinstance(b, float) and b != b):
            return False
        if a is b and not isinstance(a, float):
            if isinstance(a, SV) and a.ty == "real":
                return True  # reals: NaN is out of model (assumption: floats are reals)
            return True
        # user-defined __eq__
        for x, y in ((a, b), (b, a)):
            if isinstance(x, Obj):
                f, owner = x.cls.lookup("__eq__")
                if f is not None and (not owner.builtin or (owner.name != "object" and "__eq__" in owner.ns)):
                    # (model classes that define their own equality, e.g. pathlib.Path: equal paths are equal objects for ==, hashing, caches)
                    r = self.call(self.bind(f, x), [y], {})
                    if r is NOT_IMPLEMENTED:
                        continue
                    return self.truth(r)
                if isinstance(y, Obj):
                    return x is y
                return False
            if isinstance(x, SV) and isinstance(x.ty, tuple) and x.ty[0] == "ref":
                return self.eq_ref(x, y)
        ka, kb = num_kind(a), num_kind(b)
        if ka and kb:
            if not isinstance(a, SV) and not isinstance(b, SV):
                return _num(a) == _num(b)
            w = "real" if "real" in (ka, kb) else "int"
            return to_z3(a, w) == to_z3(b, w)
        if isinstance(a, SV) or isinstance(b, SV):
            ta, tb = pyclass_kind(a), pyclass_kind(b)
            sa = _eqclass(ta)
            sb = _eqclass(tb)
            if sa != sb:
                return False
            if sa == "enum":
                if ta[1] is not tb[1] and not (ta[1].is_intenum and tb[1].is_intenum):
                    return False
            return to_z3(a) == to_z3(b)
        if isinstance(a, tuple) and isinstance(b, tuple):
            if len(a) != len(b):
                return False
            return self.and_(*[self.eq(x, y) for x, y in zip(a, b)])
        if isinstance(a, ListV) and isinstance(b, ListV):
            if len(a.items) != len(b.items):
                return False
            return self.and_(*[self.eq(x, y) for x, y in zip(a.items, b.items)])
        if isinstance(a, EnumVal) or isinstance(b, EnumVal):
            if isinstance(a, EnumVal) and isinstance(b, EnumVal):
                if a.cls is b.cls:
                    return a.name == b.name
                if a.cls.is_intenum and b.cls.is_intenum:
                    return a.value == b.value
                return False
            return False
        if isinstance(a, (ClassV, FuncV, ModuleV, ExtModuleV, Builtin)) or isinstance(b, (ClassV, FuncV, ModuleV, ExtModuleV, Builtin)):
            return a is b
        if isinstance(a, Opaque) or isinstance(b, Opaque):
            if isinstance(a, Opaque) and isinstance(b, Opaque) and a == b:
                return True
            for x, y in ((a, b), (b, a)):
                if isinstance(x, Opaque) and isinstance(x.head, str) and x.head.startswith("obj:"):
                    # declared to be a plain object with identity equality
                    if not isinstance(y, Opaque):
                        return False
                    if isinstance(y.head, str) and y.head.startswith("obj:"):
                        return x == y
            raise Unsupported(f"equality on opaque values {a!r} == {b!r}")
        if type(a) in (int, float, str, bytes, bool, type(None)) and type(b) in (int, float, str, bytes, bool, type(None)):
            return a == b
        if isinstance(a, SetV) and isinstance(b, SetV):
            return self.and_(*[self.contains(b, x) for x in a.items], *[self.contains(a, y) for y in b.items])
        return a is b

    def eq_ref(self, x, y):
        if isinstance(y, SV) and isinstance(y.ty, tuple) and y.ty[0] == "ref":
            return x.z == y.z
        if isinstance(y, Obj):
            return x.z == y.oid
        return False

    def identical(self, a, b):
        """python `is`"""
        if a is b:
            return True
        if a is None or b is None:
            if isinstance(a, SV) and isinstance(a.ty, tuple) and a.ty[0] == "ref":
                return False if not self.ref_nullable(a) else a.z == 0
            if isinstance(b, SV) and isinstance(b.ty, tuple) and b.ty[0] == "ref":
                return False if not self.ref_nullable(b) else b.z == 0
            return False
        if isinstance(a, SV) and isinstance(a.ty, tuple) and a.ty[0] == "ref":
            return self.eq_ref(a, b)
        if isinstance(b, SV) and isinstance(b.ty, tuple) and b.ty[0] == "ref":
            return self.eq_ref(b, a)
        if isinstance(a, EnumVal) and isinstance(b, EnumVal):
            return a == b
        if isinstance(a, SV) and isinstance(b, EnumVal) or isinstance(b, SV) and isinstance(a, EnumVal):
            return self.eq(a, b)
        if isinstance(a, SV) and isinstance(a.ty, tuple) and a.ty[0] == "enum" and isinstance(b, SV) and b.ty == a.ty:
            return a.z == b.z
        if isinstance(a, bool) and isinstance(b, bool):
            return a == b
        if isinstance(a, SV) and a.ty == "bool" and isinstance(b, (bool, SV)) and pyclass_kind(b) == "bool":
            return to_z3(a) == to_z3(b)
        if isinstance(b, SV) and b.ty == "bool" and isinstance(a, bool):
            return to_z3(a) == to_z3(b)
        if isinstance(a, (int, str, float, bytes, tuple)) or isinstance(b, (int, str, float, bytes, tuple)) \
                or isinstance(a, SV) or isinstance(b, SV):
            if type(a) in (int, str) and type(b) in (int, str) and a == b:
                # small ints / interned strings: implementation-defined; molli only uses `is` with None/classes
                raise Unsupported("`is` on int/str values")
            if type(a) != type(b):
                return False
            raise Unsupported(f"`is` on values {a!r}, {b!r}")
        return False

    def ref_nullable(self, r):
        return False

    # ---------------------------------------------------------------- arithmetic
    def binop(self, op, a, b):
        if (isinstance(a, float) and a != a) or (isinstance(b, float) and b != b):
            if num_kind(a) and num_kind(b):
                return float("nan")
        if isinstance(a, NdArr) or isinstance(b, NdArr):
            from . import npmodel
            if isinstance(op, ast.MatMult):
                return npmodel.dot(self, a, b)
            return npmodel.elementwise(self, op, a, b)
        # concrete fast path
        if _is_conc_scalar(a) and _is_conc_scalar(b):
            return self._conc_binop(op, a, b)
        if isinstance(a, EnumVal) and a.cls.is_intenum:
            a = a.value
        if isinstance(b, EnumVal) and b.cls.is_intenum:
            b = b.value
        if _is_conc_scalar(a) and _is_conc_scalar(b):
            return self._conc_binop(op, a, b)
        if isinstance(op, (ast.BitAnd, ast.BitOr, ast.BitXor)) and pyclass_kind(a) == "bool" and pyclass_kind(b) == "bool":
            za, zb = to_z3(a), to_z3(b)
            f = {ast.BitAnd: z3.And, ast.BitOr: z3.Or, ast.BitXor: z3.Xor}[type(op)]
            return SV(f(za, zb), "bool")
        ka, kb = num_kind(a), num_kind(b)
        if ka and kb:
            return self._num_binop(op, a, b, ka, kb)
        # sequences
        if isinstance(op, ast.Add):
            if isinstance(a, tuple) and isinstance(b, tuple):
                return a + b
            if isinstance(a, ListV) and isinstance(b, ListV):
                return ListV(a.items + b.items)
            ta, tb = pyclass_kind(a), pyclass_kind(b)
            if ta == "str" and tb == "str":
                return SV(z3.Concat(to_z3(a), to_z3(b)), "str")
            if ta == "bytes" and tb == "bytes":
                return SV(bcat(to_z3(a), to_z3(b)), "bytes")
        if isinstance(op, ast.Mult):
            if isinstance(a, (tuple,)) and isinstance(b, int):
                return a * b
            if isinstance(a, ListV) and isinstance(b, int):
                return ListV(a.items * b)
            if isinstance(a, int) and isinstance(b, ListV):
                return ListV(b.items * a)
        if isinstance(op, ast.BitOr):
            if isinstance(a, DictV) and isinstance(b, DictV):
                return self.dict_union(a, b)
            if isinstance(a, SetV) and isinstance(b, SetV):
                return self.set_union(a, b)
            if isinstance(a, ClassV) or isinstance(b, ClassV) or a is None or b is None:
                return Opaque("UnionType", (a, b)) if not isinstance(a, tuple) else a
        if isinstance(op, ast.Sub) and isinstance(a, SetV) and isinstance(b, SetV):
            return self.set_diff(a, b)
        if isinstance(op, ast.BitXor) and isinstance(a, SetV) and isinstance(b, SetV):
            return self.set_union(self.set_diff(a, b), self.set_diff(b, a))
        if isinstance(op, ast.BitAnd) and isinstance(a, SetV) and isinstance(b, SetV):
            return self.set_diff(a, self.set_diff(a, b))
        if isinstance(op, ast.Mod) and pyclass_kind(a) == "str":
            raise Unsupported("% string formatting on symbolic value")
        # user-defined / model operators
        r = self.binop_hook(op, a, b)
        if r is not NOT_IMPLEMENTED:
            return r
        raise Unsupported(f"binop {type(op).__name__} on {a!r}, {b!r}")

    def binop_hook(self, op, a, b):
        name = _OPNAME.get(type(op))
        if name:
            for x, y, nm in ((a, b, f"__{name}__"), (b, a, f"__r{name}__")):
                if isinstance(x, Obj):
                    f, _ = x.cls.lookup(nm)
                    if f is not None:
                        r = self.call(self.bind(f, x), [y], {})
                        if r is not NOT_IMPLEMENTED:
                            return r
        return NOT_IMPLEMENTED

    def _conc_binop(self, op, a, b):
        f = _PYOPS[type(op)]
        if isinstance(a, EnumVal):
            a = a.value
        if isinstance(b, EnumVal):
            b = b.value
        try:
            return f(a, b)
        except ZeroDivisionError:
            self.raise_py("ZeroDivisionError", "division by zero")
        except TypeError as e:
            self.raise_py("TypeError", str(e))

    def _num_binop(self, op, a, b, ka, kb):
        w = "real" if "real" in (ka, kb) else "int"
        za, zb = to_z3(a, w), to_z3(b, w)
        t = type(op)
        if t is ast.Add:
            return SV(za + zb, w)
        if t is ast.Sub:
            return SV(za - zb, w)
        if t is ast.Mult:
            return SV(za * zb, w)
        if t is ast.Div:
            za, zb = to_z3(a, "real"), to_z3(b, "real")
            if self.st.branch(zb == 0, "div0"):
                self.raise_py("ZeroDivisionError", "division by zero")
            return SV(za / zb, "real")
        if t in (ast.FloorDiv, ast.Mod) and w == "real":
            if self.st.branch(zb == 0, "div0"):
                self.raise_py("ZeroDivisionError", "float floor division by zero")
            q = z3.ToReal(z3.ToInt(za / zb))          # floor of the real quotient (python float // float)
            if t is ast.FloorDiv:
                return SV(q, "real")
            return SV(za - zb * q, "real")
        if t in (ast.FloorDiv, ast.Mod):
            if self.st.branch(zb == 0, "div0"):
                self.raise_py("ZeroDivisionError", "integer division or modulo by zero")
            q = z3.If(zb > 0, za / zb, (-za) / (-zb))
            if t is ast.FloorDiv:
                return SV(q, "int")
            return SV(za - zb * q, "int")
        if t is ast.Pow:
            if isinstance(b, int) and not isinstance(b, bool) and 0 <= b <= 6:
                r = to_z3(1, w)
                for _ in range(b):
                    r = r * za
                return SV(r, w)
            if isinstance(b, float) and b == 0.5:
                return self.sqrt_model(a)
            raise Unsupported("pow with symbolic exponent")
        raise Unsupported(f"numeric op {t.__name__} on symbolic values")

    def unaryop(self, op, a):
        t = type(op)
        if t is ast.Not:
            c = self.truth(a)
            return self.wrap_bool(self.not_(c))
        if isinstance(a, EnumVal) and a.cls.is_intenum:
            a = a.value
        if _is_conc_scalar(a):
            return {ast.USub: operator.neg, ast.UAdd: operator.pos, ast.Invert: operator.invert}[t](a)
        if isinstance(a, NdArr):
            from . import npmodel
            if t is ast.USub:
                return npmodel.elementwise(self, ast.Mult(), a, -1.0)
            if t is ast.UAdd:
                return a
            if t is ast.Invert and a.dtype == "bool":
                return npmodel.mk(npmodel._map(a.data, lambda x: self.wrap_bool(self.not_(self.truth(x)))), "bool")
        k = num_kind(a)
        if k:
            z = to_z3(a, k)
            if t is ast.USub:
                return SV(-z, k)
            if t is ast.UAdd:
                return SV(z, k)
        r = self.unary_hook(op, a)
        if r is not NOT_IMPLEMENTED:
            return r
        raise Unsupported(f"unary {t.__name__} on {a!r}")

    def unary_hook(self, op, a):
        return NOT_IMPLEMENTED

    # ---------------------------------------------------------------- comparison
    def compare(self, op, a, b):
        """-> bool | z3 Bool"""
        t = type(op)
        if t in (ast.Eq, ast.NotEq) and (isinstance(a, NdArr) or isinstance(b, NdArr)):
            from . import npmodel
            return npmodel.elementwise(self, op, a, b)
        if t is ast.Eq:
            return self.eq(a, b)
        if t is ast.NotEq:
            return self.not_(self.eq(a, b))
        if t is ast.Is:
            return self.identical(a, b)
        if t is ast.IsNot:
            return self.not_(self.identical(a, b))
        if t is ast.In:
            return self.contains(b, a)
        if t is ast.NotIn:
            return self.not_(self.contains(b, a))
        if isinstance(a, NdArr) or isinstance(b, NdArr):
            from . import npmodel
            return npmodel.elementwise(self, op, a, b)
        if isinstance(a, EnumVal) and a.cls.is_intenum:
            a = a.value
        if isinstance(b, EnumVal) and b.cls.is_intenum:
            b = b.value
        if _is_conc_scalar(a) and _is_conc_scalar(b):
            try:
                return _PYCMP[t](a, b)
            except TypeError as e:
                self.raise_py("TypeError", str(e))
        if (isinstance(a, float) and a != a) or (isinstance(b, float) and b != b):
            return False
        ka, kb = num_kind(a), num_kind(b)
        if ka and kb:
            w = "real" if "real" in (ka, kb) else "int"
            za, zb = to_z3(a, w), to_z3(b, w)
            return {ast.Lt: lambda: za < zb, ast.LtE: lambda: za <= zb,
                    ast.Gt: lambda: za > zb, ast.GtE: lambda: za >= zb}[t]()
        if isinstance(a, tuple) and isinstance(b, tuple):
            raise Unsupported("tuple ordering on symbolic values")
        r = self.compare_hook(op, a, b)
        if r is not NOT_IMPLEMENTED:
            return r
        raise Unsupported(f"compare {t.__name__} on {a!r}, {b!r}")

    def compare_hook(self, op, a, b):
        return NOT_IMPLEMENTED

    def sqrt_model(self, a):
        from . import npmodel
        return npmodel.sqrt(self, a)


class _NotImpl:
    def __repr__(self):
        return "NotImplemented"


NOT_IMPLEMENTED = _NotImpl()


def _eqclass(t):
    if isinstance(t, tuple):
        return t[0]
    if t in ("int", "bool", "real"):
        return "num"
    return t


def _num(x):
    return x.value if isinstance(x, EnumVal) else x


def _is_conc_scalar(v):
    return type(v) in (int, float, bool, str, bytes)


_PYOPS = {ast.Add: operator.add, ast.Sub: operator.sub, ast.Mult: operator.mul, ast.Div: operator.truediv,
          ast.FloorDiv: operator.floordiv, ast.Mod: operator.mod, ast.Pow: operator.pow,
          ast.BitOr: operator.or_, ast.BitAnd: operator.and_, ast.BitXor: operator.xor,
          ast.LShift: operator.lshift, ast.RShift: operator.rshift, ast.MatMult: operator.matmul}
_PYCMP = {ast.Lt: operator.lt, ast.LtE: operator.le, ast.Gt: operator.gt, ast.GtE: operator.ge}
_OPNAME = {ast.Add: "add", ast.Sub: "sub", ast.Mult: "mul", ast.Div: "truediv", ast.FloorDiv: "floordiv",
           ast.Mod: "mod", ast.Pow: "pow", ast.BitOr: "or", ast.BitAnd: "and", ast.BitXor: "xor",
           ast.MatMult: "matmul"}
