"""pyvc -- contract-based deductive verification of the real Python source of /repo.

The functions under contract are re-read from the working tree with `ast.parse` on every
run and executed symbolically (pyvc.symex); every contract clause becomes a verification
condition discharged by z3 / cvc5 / sympy (pyvc.solve).  See /verif/DESIGN.md.
"""
import os

REPO = os.environ.get("PYVC_REPO", "/repo")
