"""Methods of builtin container / scalar types on executor values."""
from __future__ import annotations
import ast, z3
from .values import *
from .ops import to_z3, pyclass_kind, num_kind, blen, bytes_const

u_lower = z3.Function("str_lower", z3.StringSort(), z3.StringSort())
u_upper = z3.Function("str_upper", z3.StringSort(), z3.StringSort())
u_strip = z3.Function("str_strip", z3.StringSort(), z3.StringSort())
u_capitalize = z3.Function("str_capitalize", z3.StringSort(), z3.StringSort())
u_encode = z3.Function("str_encode", z3.StringSort(), BytesS)
u_decode = z3.Function("bytes_decode", BytesS, z3.StringSort())


def bm(name, fn):
    return Builtin(name, fn)


def lookup(I, o, name):
    k = pyclass_kind(o)
    if isinstance(o, ListV):
        f = LIST.get(name)
    elif isinstance(o, DictV):
        f = DICT.get(name)
    elif isinstance(o, SetV):
        f = SET.get(name)
    elif isinstance(o, tuple):
        f = TUPLE.get(name)
    elif k == "str":
        f = STR.get(name)
    elif k == "bytes":
        f = BYTES.get(name)
    elif k in ("int", "bool", "real"):
        f = NUM.get(name)
        if f is None and name in ("real", "numerator"):
            return o
        if f is None and name == "imag":
            return 0
    elif isinstance(o, SymSeq):
        from . import seqmodel
        f = seqmodel.SEQ_METHODS.get(name)
    elif isinstance(o, SymSet):
        f = SYMSET.get(name)
    elif isinstance(o, SymMap):
        from . import seqmodel
        f = seqmodel.MAP_METHODS.get(name)
    elif isinstance(o, NdArr):
        from . import npmodel
        return npmodel.attr(I, o, name)
    elif type(o).__name__ == "SStr":
        from . import textmodel as T
        f = {"strip": lambda i, o_, a, kw: T.strip(o_),
             "split": lambda i, o_, a, kw: T.split(i, o_, kw.get("maxsplit", a[1] if len(a) > 1 else -1)) if (not a or a[0] is None) else (_ for _ in ()).throw(Unsupported("split(sep) on a structured string")),
             "startswith": lambda i, o_, a, kw: i.wrap_bool(T.starts_with(i, o_, a[0])),
             "isspace": lambda i, o_, a, kw: T.isspace(i, o_),
             "splitlines": lambda i, o_, a, kw: ListV([T.strip(x) if False else x for x in T.lines(o_)])}.get(name)
    elif isinstance(o, slice):
        if name == "indices":
            def f(i, o_, a, kw):
                n = a[0]
                if not isinstance(n, int) or not all(x is None or isinstance(x, int) for x in (o_.start, o_.stop, o_.step)):
                    raise Unsupported("slice.indices on symbolic values")
                return o_.indices(n)
        elif name in ("start", "stop", "step"):
            return getattr(o, name)
        else:
            f = None
    elif isinstance(o, (GenV, IterV)):
        f = None
    else:
        f = None
    if f is None:
        return None
    return Builtin(f"{k}.{name}", lambda i, a, kw, f=f, o=o: f(i, o, a, kw))


# ---------------------------------------------------------------------------- list
def l_append(i, o, a, k):
    o.items.append(a[0])


def l_extend(i, o, a, k):
    o.items.extend(list(i.iterate(a[0])))


def l_pop(i, o, a, k):
    if not o.items:
        i.raise_py("IndexError", "pop from empty list")
    j = i.norm_index(a[0] if a else -1, len(o.items))
    return o.items.pop(j)


def l_index(i, o, a, k):
    for j, y in enumerate(o.items):
        if i.st.branch(i.eq(y, a[0]), "list.index"):
            return j
    i.raise_py("ValueError", "x not in list")


def l_remove(i, o, a, k):
    j = l_index(i, o, a, k)
    del o.items[j]


def l_insert(i, o, a, k):
    idx = a[0]
    if not isinstance(idx, int):
        raise Unsupported("list.insert symbolic index")
    o.items.insert(idx, a[1])


def l_copy(i, o, a, k):
    return ListV(o.items)


def l_count(i, o, a, k):
    n = 0
    for y in o.items:
        if i.st.branch(i.eq(y, a[0]), "list.count"):
            n += 1
    return n


def l_clear(i, o, a, k):
    o.items.clear()


def l_reverse(i, o, a, k):
    o.items.reverse()


def l_sort(i, o, a, k):
    r = i.call(i.builtins["sorted"], [o], k)
    o.items[:] = r.items


LIST = {"append": l_append, "extend": l_extend, "pop": l_pop, "index": l_index, "remove": l_remove,
        "insert": l_insert, "copy": l_copy, "count": l_count, "clear": l_clear, "reverse": l_reverse, "sort": l_sort}

TUPLE = {"index": lambda i, o, a, k: l_index(i, ListV(o), a, k), "count": lambda i, o, a, k: l_count(i, ListV(o), a, k)}


# ---------------------------------------------------------------------------- dict
def d_get(i, o, a, k):
    j = i.dict_find(o, a[0])
    if j < 0:
        return a[1] if len(a) > 1 else None
    return o.vals[j]


def d_pop(i, o, a, k):
    j = i.dict_find(o, a[0])
    if j < 0:
        if len(a) > 1:
            return a[1]
        i.raise_py("KeyError", a[0])
    v = o.vals[j]
    if isinstance(type(o).keys, property):
        del o.obj.fields[a[0]]
    else:
        del o.keys[j]
        del o.vals[j]
    return v


def d_view(tag):
    def f(i, o, a, k):
        return Obj(i.builtins["object"], {"d": o}, tag=tag)
    return f


def d_copy(i, o, a, k):
    return DictV(list(zip(o.keys, o.vals)))


def d_update(i, o, a, k):
    if a:
        src = a[0]
        if isinstance(src, DictV):
            for kk, vv in zip(src.keys, src.vals):
                _dset(i, o, kk, vv)
        else:
            for pair in i.iterate(src):
                kk, vv = list(i.iterate(pair))
                _dset(i, o, kk, vv)
    for kk, vv in k.items():
        _dset(i, o, kk, vv)


def _dset(i, o, kk, vv):
    if isinstance(type(o).keys, property):
        o.obj.fields[kk] = vv
    else:
        i.dict_set(o, kk, vv)


def d_setdefault(i, o, a, k):
    j = i.dict_find(o, a[0])
    if j >= 0:
        return o.vals[j]
    v = a[1] if len(a) > 1 else None
    o.keys.append(a[0])
    o.vals.append(v)
    return v


def d_clear(i, o, a, k):
    o.keys.clear()
    o.vals.clear()


DICT = {"get": d_get, "pop": d_pop, "keys": d_view("dict_keys"), "values": d_view("dict_values"),
        "items": d_view("dict_items"), "copy": d_copy, "update": d_update, "setdefault": d_setdefault, "clear": d_clear}


# ---------------------------------------------------------------------------- set
def s_add(i, o, a, k):
    i.set_add(o, a[0])


def s_discard(i, o, a, k):
    for j, y in enumerate(o.items):
        if i.st.branch(i.eq(y, a[0]), "set.discard"):
            del o.items[j]
            return


def s_remove(i, o, a, k):
    n = len(o.items)
    s_discard(i, o, a, k)
    if len(o.items) == n:
        i.raise_py("KeyError", a[0])


def s_update(i, o, a, k):
    for src in a:
        for x in i.iterate(src):
            i.set_add(o, x)


def s_union(i, o, a, k):
    r = SetV(list(o.items), o.frozen)
    s_update(i, r, a, k)
    return r


def s_copy(i, o, a, k):
    return SetV(list(o.items), o.frozen)


def s_difference(i, o, a, k):
    r = o
    for src in a:
        r = i.set_diff(r, src if isinstance(src, SetV) else i.make_set(list(i.iterate(src))))
    return r


def s_issubset(i, o, a, k):
    return i.wrap_bool(i.and_(*[i.contains(a[0], x) for x in o.items]))


SET = {"add": s_add, "discard": s_discard, "remove": s_remove, "update": s_update, "union": s_union,
       "copy": s_copy, "difference": s_difference, "issubset": s_issubset,
       "intersection": lambda i, o, a, k: i.set_diff(o, i.set_diff(o, a[0])),
       "clear": lambda i, o, a, k: o.items.clear()}


# ---------------------------------------------------------------------------- str
def _conc_str_method(name):
    def f(i, o, a, k):
        if isinstance(o, str) and all(_conc(x) for x in a) and all(_conc(x) for x in k.values()):
            try:
                r = getattr(o, name)(*a, **k)
            except (ValueError, IndexError, KeyError, TypeError, UnicodeError) as e:
                i.raise_py(type(e).__name__, str(e))
            if isinstance(r, list):
                return ListV(r)
            return r
        g = STR_SYM.get(name)
        if g is None:
            raise Unsupported(f"str.{name} on symbolic string")
        return g(i, o, a, k)
    return f


def _conc(x):
    return x is None or type(x) in (int, float, str, bytes, bool, tuple)


def ss_lower(i, o, a, k):
    return SV(u_lower(to_z3(o)), "str")


def ss_upper(i, o, a, k):
    return SV(u_upper(to_z3(o)), "str")


def ss_strip(i, o, a, k):
    if a:
        raise Unsupported("strip(chars) symbolic")
    return SV(u_strip(to_z3(o)), "str")


def ss_capitalize(i, o, a, k):
    return SV(u_capitalize(to_z3(o)), "str")


def ss_startswith(i, o, a, k):
    p = a[0]
    if isinstance(p, tuple):
        return i.wrap_bool(i.or_(*[z3.PrefixOf(to_z3(x), to_z3(o)) for x in p]))
    return SV(z3.PrefixOf(to_z3(p), to_z3(o)), "bool")


def ss_endswith(i, o, a, k):
    p = a[0]
    if isinstance(p, tuple):
        return i.wrap_bool(i.or_(*[z3.SuffixOf(to_z3(x), to_z3(o)) for x in p]))
    return SV(z3.SuffixOf(to_z3(p), to_z3(o)), "bool")


def ss_encode(i, o, a, k):
    if isinstance(o, str):
        return o.encode(*a, **k)
    return SV(u_encode(to_z3(o)), "bytes")


def ss_join(i, o, a, k):
    parts = list(i.iterate(a[0]))
    out = []
    for n, p in enumerate(parts):
        if n:
            out.append(o)
        out.append(p)
    if any(type(p).__name__ == "SStr" for p in out):
        from . import textmodel
        return textmodel.concat([p if isinstance(p, (str, textmodel.SStr)) else textmodel.SStr([textmodel.Tok("str", p)]) for p in out])
    if not all(pyclass_kind(p) == "str" for p in out):
        i.raise_py("TypeError", "sequence item: expected str instance")
    return i.str_concat(out) if out else ""


def ss_format(i, o, a, k):
    raise Unsupported("str.format on symbolic operands")


def ss_split(i, o, a, k):
    return i.str_split(o, a, k)


STR_SYM = {"lower": ss_lower, "upper": ss_upper, "strip": ss_strip, "capitalize": ss_capitalize,
           "startswith": ss_startswith, "endswith": ss_endswith, "encode": ss_encode, "join": ss_join,
           "format": ss_format, "split": ss_split}

STR = {n: _conc_str_method(n) for n in
       ["lower", "upper", "strip", "lstrip", "rstrip", "capitalize", "startswith", "endswith", "encode", "join", "format",
        "split", "rsplit", "splitlines", "replace", "find", "rfind", "index", "count", "isdigit", "isalpha", "isalnum",
        "isspace", "title", "ljust", "rjust", "center", "zfill", "partition", "rpartition", "removeprefix", "removesuffix",
        "isnumeric", "isupper", "islower", "swapcase", "casefold", "expandtabs"]}
STR["join"] = lambda i, o, a, k: ss_join(i, o, a, k)


# ---------------------------------------------------------------------------- bytes
def b_decode(i, o, a, k):
    if isinstance(o, bytes):
        try:
            return o.decode(*a, **k)
        except UnicodeDecodeError as e:
            i.raise_py("UnicodeDecodeError", str(e))
    return SV(u_decode(to_z3(o)), "str")


BYTES = {"decode": b_decode,
         "hex": lambda i, o, a, k: o.hex() if isinstance(o, bytes) else (_ for _ in ()).throw(Unsupported("bytes.hex symbolic")),
         "startswith": lambda i, o, a, k: i.bytes_startswith(o, a[0])}


# ---------------------------------------------------------------------------- numbers
def n_is_integer(i, o, a, k):
    if isinstance(o, float):
        return o.is_integer()
    z = to_z3(o, "real")
    return SV(z3.IsInt(z), "bool")


NUM = {"is_integer": n_is_integer,
       "bit_length": lambda i, o, a, k: o.bit_length() if isinstance(o, int) else (_ for _ in ()).throw(Unsupported("bit_length")),
       "conjugate": lambda i, o, a, k: o}


# ---------------------------------------------------------------------------- symbolic set
def ss_add(i, o, a, k):
    o.has = z3.Store(o.has, to_z3(a[0]), True)


def ss_discard(i, o, a, k):
    o.has = z3.Store(o.has, to_z3(a[0]), False)


SYMSET = {"add": ss_add, "discard": ss_discard, "copy": lambda i, o, a, k: SymSet(o.has, o.elem_ty)}
