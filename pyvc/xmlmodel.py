"""xml.etree element model: concrete tree spine (tags, children, attribute presence), attribute VALUES may be symbolic
(python str, symbolic str, or a structured string of tokens from the text model).  Only the ElementPath subset molli's CDXML
reader uses is implemented:  . | .. | tag | tag[@attr] | [childtag]  separated by '/'."""
from __future__ import annotations
import re
from .values import *


def _cls(I):
    c = I.builtins.get("XElement")
    if c is not None:
        return c
    c = ClassV("Element", builtin=True, bases=[I.builtins["object"]])
    c.compute_mro()

    def get(i, a, k):
        node, name = a[0], a[1]
        default = a[2] if len(a) > 2 else k.get("default")
        at = node.fields["_attrs"]
        if not isinstance(name, str):
            raise Unsupported("Element.get with a symbolic attribute name")
        return at[name] if name in at else default

    def find(i, a, k):
        r = select(a[0], a[1])
        return r[0] if r else None

    def findall(i, a, k):
        return ListV(select(a[0], a[1]))

    c.ns["get"] = Builtin("Element.get", get)
    c.ns["find"] = Builtin("Element.find", find)
    c.ns["findall"] = Builtin("Element.findall", findall)
    c.ns["__iter__"] = Builtin("Element.__iter__", lambda i, a, k: ListV(list(a[0].fields["_children"])))
    c.ns["__len__"] = Builtin("Element.__len__", lambda i, a, k: len(a[0].fields["_children"]))
    c.ns["__getitem__"] = Builtin("Element.__getitem__", lambda i, a, k: i.getitem(ListV(list(a[0].fields["_children"])), a[1]))
    I.builtins["XElement"] = c
    return c


def elem(I, tag, attrs=None, children=(), text=None):
    attrs = dict(attrs or {})
    n = Obj(_cls(I), {"tag": tag, "text": text, "_attrs": attrs, "_children": list(children), "_parent": None,
                      "attrib": DictV(list(attrs.items()))}, tag=f"<{tag}>")
    for ch in children:
        ch.fields["_parent"] = n
    return n


def select(node, path):
    if not isinstance(path, str):
        raise Unsupported("symbolic element path")
    cur = [node]
    for step in path.split("/"):
        if step == "" :
            continue
        if step == ".":
            continue
        if step == "..":
            nxt = []
            for c in cur:
                # ElementPath resolves '..' through a parent map of the CONTEXT node's subtree: the context node itself has no parent
                p = None if c is node else c.fields["_parent"]
                if p is not None and all(p is not q for q in nxt):
                    nxt.append(p)
            cur = nxt
            continue
        m = re.fullmatch(r"\[(\w+)\]", step)
        if m:
            cur = [c for c in cur if any(ch.fields["tag"] == m.group(1) for ch in c.fields["_children"])]
            continue
        m = re.fullmatch(r"(\w+|\*)(?:\[@(\w+)\])?", step)
        if not m:
            raise Unsupported(f"element path step {step!r}")
        tag, attr = m.group(1), m.group(2)
        nxt = []
        for c in cur:
            for ch in c.fields["_children"]:
                if (tag == "*" or ch.fields["tag"] == tag) and (attr is None or attr in ch.fields["_attrs"]):
                    nxt.append(ch)
        cur = nxt
    return cur
