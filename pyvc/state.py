"""Per-path state of the symbolic executor: path condition, decisions, obligations, ghost trace."""
from __future__ import annotations
import z3
from .values import *


class Obligation:
    __slots__ = ("label", "pc", "goal", "info", "path_id")

    def __init__(self, label, pc, goal, info, path_id):
        self.label = label
        self.pc = pc
        self.goal = goal
        self.info = info
        self.path_id = path_id


class State:
    """One execution path.  Paths are explored by re-execution with a decision prefix."""

    BRANCH_TIMEOUT_MS = 4000

    def __init__(self, decisions=(), path_id=0):
        self.decisions = list(decisions)
        self.pos = 0
        self.alts = []            # alternative prefixes discovered on this path
        self.pc = []
        self.solver = z3.Solver()
        self.solver.set("timeout", self.BRANCH_TIMEOUT_MS)
        self.trace = []           # ghost trace of external effects
        self.obls = []
        self.counter = {}
        self.heap = {}            # (classname, field) -> z3 array  (symbolic refs)
        self.ghost = {}           # free-form, for contracts
        self.path_id = path_id
        self.func_defaults = {}
        self.globals = {}         # per-path module globals (mutable module-level values)
        self.notes = []
        self.branch_log = []      # textual description of decisions (for replay files)
        self.n_solver_calls = 0
        self.trusted_used = set()

    # ---- symbols
    def fresh_name(self, base):
        i = self.counter.get(base, 0)
        self.counter[base] = i + 1
        return f"{base}!{i}" if i else base

    def fresh(self, base, sort):
        return z3.Const(self.fresh_name(base), sort)

    def fresh_sv(self, base, ty):
        return SV(self.fresh(base, sort_of(ty)), ty)

    # ---- path condition
    def assume(self, f):
        if isinstance(f, bool):
            if not f:
                raise PathEnd("assume False")
            return
        f = z3.simplify(f) if not z3.is_quantifier(f) else f
        if z3.is_true(f):
            return
        if z3.is_false(f):
            raise PathEnd("assume false")
        self.pc.append(f)
        for c in conjuncts(f):
            if not is_heavy(c):
                self.solver.add(c)
            else:
                g = self.abstract(c)
                if g is not None:
                    self.solver.add(g)

    def sat(self, extra=None):
        self.n_solver_calls += 1
        if extra is None:
            r = self.solver.check()
        else:
            r = self.solver.check(extra)
        return r

    def feasible(self, f):
        """True unless pc ∧ f is *proved* unsatisfiable (unknown counts as feasible: sound)."""
        if is_heavy(f):
            g = self.abstract(f)
            if g is None:
                return True
            return self.sat(g) != z3.unsat
        return self.sat(f) != z3.unsat

    def abstract(self, f):
        """propositional abstraction of a heavy (nonlinear) condition for the light solver: every nonlinear atom becomes a boolean
        proxy (one per syntactically equal atom), the boolean structure is kept.  An over-approximation (the proxies know no
        arithmetic), so no feasible path is lost; it only stops the same atom from being decided twice in different ways.
        Quantified facts are not abstracted (None)."""
        if has_quantifier(f):
            return None
        if not hasattr(self, "_proxies"):
            self._proxies = {}
            self._proxy_keep = []

        def rec(e):
            if not is_heavy(e):
                return e
            if z3.is_app(e) and e.sort() == z3.BoolSort():
                k = e.decl().kind()
                if k in (z3.Z3_OP_AND, z3.Z3_OP_OR, z3.Z3_OP_NOT, z3.Z3_OP_IMPLIES) or (k in (z3.Z3_OP_EQ, z3.Z3_OP_ITE, z3.Z3_OP_XOR) and all(c.sort() == z3.BoolSort() for c in e.children())):
                    return e.decl()(*[rec(c) for c in e.children()])
            i = e.get_id()
            p_ = self._proxies.get(i)
            if p_ is None:
                p_ = z3.Bool(f"heavy!{len(self._proxies)}")
                self._proxies[i] = p_
                self._proxy_keep.append(e)       # keeps the term alive so that its id is not reused
            return p_
        return rec(f)

    def must(self, f):
        """pc ⇒ f proved now (used only for optimisation / model decisions, never for verdicts)."""
        if isinstance(f, bool):
            return f
        return self.sat(z3.Not(f)) == z3.unsat

    def branch(self, cond, what=""):
        if isinstance(cond, bool):
            return cond
        if isinstance(cond, SV):
            cond = cond.z
        cond = z3.simplify(cond) if not z3.is_quantifier(cond) else cond
        if z3.is_true(cond):
            return True
        if z3.is_false(cond):
            return False
        if self.pos < len(self.decisions):
            d = self.decisions[self.pos]
        else:
            t = self.feasible(cond)
            f = self.feasible(z3.Not(cond))
            if t and f:
                d = True
                self.alts.append(self.decisions[: self.pos] + [False])
            elif t:
                d = True
            elif f:
                d = False
            else:
                raise PathEnd("infeasible path")
            self.decisions.append(d)
        self.pos += 1
        c = cond if d else z3.Not(cond)
        self.pc.append(c)
        if not is_heavy(c):
            self.solver.add(c)
        else:
            g = self.abstract(c)
            if g is not None:
                self.solver.add(g)
        if what:
            self.branch_log.append(f"{what}={d}")
        return d

    def choose(self, n, what=""):
        """non-deterministic choice among n alternatives (binary encoded through branch())."""
        for i in range(n - 1):
            b = self.fresh(f"choice_{what}", z3.BoolSort())
            if self.branch(b, what and f"{what}#{i}"):
                return i
        return n - 1

    # ---- obligations
    def check(self, label, goal, **info):
        if isinstance(goal, SV):
            goal = goal.z
        if isinstance(goal, bool):
            goal = z3.BoolVal(goal)
        self.obls.append(Obligation(label, list(self.pc), goal, info, self.path_id))

    def event(self, *ev):
        self.trace.append(tuple(ev))


def conjuncts(f):
    if z3.is_and(f):
        for c in f.children():
            yield from conjuncts(c)
    else:
        yield f



def is_heavy(f):
    """quantified or nonlinear-real facts are kept out of the light branch-feasibility solver (sound: fewer constraints)"""
    seen = set()
    stack = [f]
    while stack:
        e = stack.pop()
        i = e.get_id()
        if i in seen:
            continue
        seen.add(i)
        if z3.is_quantifier(e):
            return True
        if z3.is_app(e):
            k = e.decl().kind()
            if k == z3.Z3_OP_MUL:
                nonconst = [c for c in e.children() if not (z3.is_rational_value(c) or z3.is_int_value(c))]
                if len(nonconst) > 1:
                    return True
            elif k in (z3.Z3_OP_DIV, z3.Z3_OP_POWER) and e.sort() == z3.RealSort():
                if not (z3.is_rational_value(e.arg(1)) or z3.is_int_value(e.arg(1))):
                    return True
        stack.extend(e.children())
    return False


def has_quantifier(f):
    """quantified facts are kept out of the (light) branch-feasibility solver: fewer constraints
    only make more paths look feasible, which is sound; VCs always carry the full path condition."""
    seen = set()
    stack = [f]
    while stack:
        e = stack.pop()
        i = e.get_id()
        if i in seen:
            continue
        seen.add(i)
        if z3.is_quantifier(e):
            return True
        stack.extend(e.children())
    return False


def sort_of(ty):
    if ty == "int":
        return z3.IntSort()
    if ty == "bool":
        return z3.BoolSort()
    if ty == "real":
        return z3.RealSort()
    if ty == "str":
        return z3.StringSort()
    if ty == "bytes":
        return BytesS
    if ty == "row":
        return RowS
    if ty == "U":
        return U
    if isinstance(ty, tuple) and ty[0] in ("enum", "ref"):
        return z3.IntSort()
    raise Unsupported(f"no sort for {ty!r}")


def explore(run, max_paths=20000, max_seconds=None):
    """DFS over decision prefixes by re-execution.  `run(state)` executes one path and returns
    an arbitrary outcome object.  Yields (state, outcome, error).  Exploration of one unit is bounded in paths and in wall-clock
    time (PYVC_EXPLORE_S, default 420 s): beyond that the unit is reported as undecided, never as held or violated."""
    import time as _time, os as _os
    if max_seconds is None:
        max_seconds = float(_os.environ.get("PYVC_EXPLORE_S", "420"))
    t0 = _time.time()
    stack = [[]]
    n = 0
    while stack:
        prefix = stack.pop()
        st = State(prefix, path_id=n)
        n += 1
        if n > max_paths:
            raise Unsupported("path explosion")
        if _time.time() - t0 > max_seconds:
            raise Unsupported(f"path exploration exceeded its time budget ({int(max_seconds)} s, {n} paths so far)")
        outcome = None
        err = None
        try:
            outcome = run(st)
        except PathEnd as e:
            outcome = ("pathend", str(e))
        stack.extend(st.alts)
        yield st, outcome
