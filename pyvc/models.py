"""Trusted models of library calls (DESIGN 2.4).  Each is an *assumption* listed in the evidence."""
from __future__ import annotations
import ast, z3, math
from .values import *
from .ops import to_z3, pyclass_kind, num_kind, blen, NOT_IMPLEMENTED

path_suffix = z3.Function("path_suffix", z3.StringSort(), z3.StringSort())


def install(I):
    ns = I.builtins
    E = I.ext_models
    obj = ns["object"]

    def mkcls(name, *bases):
        c = ClassV(name, builtin=True, bases=list(bases) or [obj])
        c.compute_mro()
        return c

    def meth(cls, name, trusted=None):
        def deco(fn):
            cls.ns[name] = Builtin(f"{cls.name}.{name}", fn, trusted)
            return fn
        return deco

    # ------------------------------------------------------------------ pathlib.Path (abstract)
    Path = mkcls("Path")
    E["pathlib.Path"] = Path
    Path.ns["__pyvc_new__"] = lambda i, cls, a, k: _path_new(i, Path, a)

    def _path_new(i, cls, a):
        if len(a) != 1:
            raise Unsupported("Path() with != 1 argument")
        p = a[0]
        if isinstance(p, Obj) and p.cls is Path:
            return Obj(Path, {"s": p.fields["s"]}, tag="path")
        if pyclass_kind(p) == "str":
            return Obj(Path, {"s": p}, tag="path")
        if p is None:
            i.raise_py("TypeError", "expected str, bytes or os.PathLike object, not NoneType")
        if isinstance(p, Opaque):
            return Obj(Path, {"s": p}, tag="path")
        i.raise_py("TypeError", f"expected str, bytes or os.PathLike object, not {pyclass_kind(p)}")

    def _path_suffix(i, a, k):
        s = a[0].fields["s"]
        if isinstance(s, str):
            import pathlib
            return pathlib.PurePosixPath(s).suffix
        if isinstance(s, Opaque):
            key = ("path_suffix", s)
            if key not in i.st.ghost:
                i.st.ghost[key] = i.st.fresh_sv("suffix", "str")
            return i.st.ghost[key]
        return SV(path_suffix(to_z3(s)), "str")
    Path.ns["suffix"] = PropertyV(Builtin("Path.suffix", _path_suffix, "pathlib: suffix is a function of the path string"))

    @meth(Path, "open", "pathlib/io: open() either raises OSError or returns a fresh stream")
    def _path_open(i, a, k):
        mode = a[1] if len(a) > 1 else k.get("mode", "r")
        return i.open_model(a[0], mode)

    @meth(Path, "__eq__")
    def _path_eq(i, a, k):
        o = a[1]
        if isinstance(o, Obj) and o.cls is Path:
            return i.wrap_bool(i.eq(a[0].fields["s"], o.fields["s"]))
        return False

    # ------------------------------------------------------------------ abstract text/binary stream
    IOBase = mkcls("IOBase")
    TextIOBase = mkcls("TextIOBase", IOBase)
    E["io.TextIOBase"] = TextIOBase
    Stream = mkcls("TextIOWrapper", TextIOBase)
    E["io.TextIOWrapper"] = Stream
    I.StreamCls = Stream

    def open_model(path, mode="r", **kw):
        st = I.st
        hook = st.ghost.get("open_hook")
        if hook is not None:
            return hook(I, path, mode)
        if st.branch(st.fresh("open_fails", z3.BoolSort()), "open-raises"):
            st.event("open-failed", path, mode)
            I.raise_py("OSError", "open failed")
        s = Obj(Stream, {"path": path, "mode": mode, "closed": False, "owned": True}, tag="stream")
        st.event("open", s, path, mode)
        return s
    I.open_model = open_model
    def _b_open(i, a, k):
        # how the file is opened beyond path and mode (buffering, encoding, errors, newline ...) is recorded for the contracts
        names = ("buffering", "encoding", "errors", "newline", "closefd", "opener")
        opts = {n_: v_ for n_, v_ in zip(names, a[2:])}
        opts.update({k_: v_ for k_, v_ in k.items() if k_ != "mode"})
        i.st.event("open-options", a[0], a[1] if len(a) > 1 else k.get("mode", "r"), opts)
        return open_model(a[0], a[1] if len(a) > 1 else k.get("mode", "r"))
    ns["open"] = Builtin("open", _b_open, "io: open() either raises OSError or returns a fresh stream")

    @meth(Stream, "close")
    def _s_close(i, a, k):
        s = a[0]
        if not s.fields["closed"]:
            s.fields["closed"] = True
            i.st.event("close", s)

    @meth(Stream, "__enter__")
    def _s_enter(i, a, k):
        return a[0]

    @meth(Stream, "__exit__")
    def _s_exit(i, a, k):
        _s_close(i, a[:1], {})
        return False

    @meth(Stream, "write")
    def _s_write(i, a, k):
        s = a[0]
        if s.fields["closed"]:
            i.raise_py("ValueError", "I/O operation on closed file.")
        i.st.event("write", s, a[1])
        if type(a[1]).__name__ == "SStr":
            return i.st.fresh_sv("nwritten", "int")
        return i.len_(a[1])

    Stream.ns["closed"] = PropertyV(Builtin("Stream.closed", lambda i, a, k: a[0].fields["closed"]))

    StringIO = mkcls("StringIO", Stream)
    E["io.StringIO"] = StringIO

    def _sio_new(i, cls, a, k):
        s = Obj(StringIO, {"path": None, "mode": "w+", "closed": False, "owned": False, "init": a[0] if a else "", "cursor": None}, tag="stream")
        i.st.event("stringio", s)
        return s
    StringIO.ns["__pyvc_new__"] = _sio_new

    def _sio_next(i, a, k):
        from . import textmodel
        s = a[0]
        if s.fields["closed"]:
            i.raise_py("ValueError", "I/O operation on closed file.")
        if s.fields.get("cursor") is None:
            content = _sio_getvalue(i, [s], {})
            s.fields["lines"] = textmodel.lines(content) if not isinstance(content, Opaque) else None
            if s.fields["lines"] is None:
                raise Unsupported("iterating a stream with opaque content")
            s.fields["cursor"] = 0
        n = s.fields["cursor"]
        if n >= len(s.fields["lines"]):
            i.raise_py("StopIteration")
        s.fields["cursor"] = n + 1
        return s.fields["lines"][n]
    StringIO.ns["__next__"] = Builtin("StringIO.__next__", _sio_next)
    StringIO.ns["__iter__"] = Builtin("StringIO.__iter__", lambda i, a, k: a[0])

    @meth(StringIO, "getvalue")
    def _sio_getvalue(i, a, k):
        s = a[0]
        parts = [s.fields["init"]] if s.fields.get("init") else []
        for ev in i.st.trace:
            if ev[0] == "write" and ev[1] is s:
                parts.append(ev[2])
            elif ev[0] == "call-writes" and ev[1] is s:
                parts.append(ev[2])
        if all(pyclass_kind(p) in ("str", "SStr") for p in parts):
            return i.str_concat(parts) if parts else ""
        return Opaque("text", tuple(parts))

    RePat = mkcls("re.Pattern")

    def _re_compile(i, a, k):
        from . import textmodel
        return Obj(RePat, {"model": textmodel.ReModel(a[0])}, tag="repattern")
    E["re.compile"] = Builtin("re.compile", _re_compile)
    RePat.ns["match"] = Builtin("Pattern.match", lambda i, a, k: a[0].fields["model"].match(i, a[1]))
    E["io.UnsupportedOperation"] = ns["UnsupportedOperation"]
    E["io.IOBase"] = IOBase
    E["typing.IO"] = Stream

    # ------------------------------------------------------------------ misc stdlib
    E["enum.IntEnum"] = ns["IntEnum"]
    E["enum.Enum"] = ns["Enum"]
    E["enum.IntFlag"] = ns["IntFlag"]
    E["contextlib.contextmanager"] = Builtin("contextmanager", lambda i, a, k: _mark_ctx(a[0]))
    E["os.fsdecode"] = Builtin("os.fsdecode", lambda i, a, k: a[0].fields["s"] if isinstance(a[0], Obj) and "s" in a[0].fields else a[0])
    E["os.fspath"] = E["os.fsdecode"]
    E["os.PathLike"] = I.ext_models.get("pathlib.Path", obj)

    # os.path functions that rewrite a path / string depending on the file system or the environment (symbolic links, variables, the
    # current directory): uninterpreted functions str -> str -- nothing may be assumed about the result, in particular not result == argument
    def _ospath(nm):
        import z3 as _z3
        f_ = _z3.Function("os_path_" + nm, _z3.StringSort(), _z3.StringSort())

        def call(i, a, k):
            x = a[0].fields["s"] if isinstance(a[0], Obj) and "s" in a[0].fields else a[0]
            if isinstance(x, str):
                x = SV(_z3.StringVal(x), "str")
            if not (isinstance(x, SV) and x.ty == "str"):
                raise Unsupported(f"os.path.{nm} of a non-string")
            return SV(f_(x.z), "str")
        return Builtin("os.path." + nm, call)
    for _nm in ("realpath", "abspath", "expandvars", "expanduser", "normpath"):
        E["os.path." + _nm] = _ospath(_nm)
    E["functools.cache"] = Builtin("cache", lambda i, a, k: __import__("pyvc.builtins_", fromlist=["CachedFunc"]).CachedFunc(a[0]))
    E["functools.partial"] = Builtin("partial", lambda i, a, k: Builtin("partial.call", (lambda f_, a0, k0: lambda i2, a2, k2: i2.call(f_, list(a0) + list(a2), {**k0, **k2}))(a[0], list(a[1:]), dict(k))))
    def _reduce(i, a, k):
        it = list(i.iterate(a[1]))
        if len(a) > 2:
            acc = a[2]
        elif it:
            acc, it = it[0], it[1:]
        else:
            i.raise_py("TypeError", "reduce() of empty iterable with no initial value")
        for x in it:
            acc = i.call(a[0], [acc, x], {})
        return acc
    E["functools.reduce"] = Builtin("reduce", _reduce)
    import ast as _ast
    for _nm, _op in (("or_", _ast.BitOr), ("and_", _ast.BitAnd), ("add", _ast.Add), ("sub", _ast.Sub), ("mul", _ast.Mult), ("xor", _ast.BitXor)):
        if "operator." + _nm not in E:
            E["operator." + _nm] = Builtin("operator." + _nm, (lambda op_: lambda i, a, k: i.binop(op_(), a[0], a[1]))(_op))
    # contextlib.suppress(*exceptions): a context manager whose __exit__ swallows exactly instances of the listed classes
    Suppress = mkcls("suppress")
    Suppress.ns["__pyvc_new__"] = lambda i, cls, a, k: Obj(Suppress, {"excs": tuple(a)}, tag="suppress")
    Suppress.ns["__enter__"] = Builtin("suppress.__enter__", lambda i, a, k: None)

    def _suppress_exit(i, a, k):
        et = a[1] if len(a) > 1 else None
        if et is None:
            return False
        return any(c_ in getattr(et, "mro", []) for c_ in a[0].fields["excs"])
    Suppress.ns["__exit__"] = Builtin("suppress.__exit__", _suppress_exit)
    E["contextlib.suppress"] = Suppress
    E["functools.wraps"] = Builtin("wraps", lambda i, a, k: Builtin("wraps.deco", lambda i2, a2, k2: a2[0]))
    E["abc.abstractmethod"] = Builtin("abstractmethod", lambda i, a, k: a[0])
    E["abc.ABCMeta"] = ns["type"]
    E["abc.ABC"] = obj
    E["warnings.warn"] = Builtin("warn", lambda i, a, k: i.st.event("warn", a[0]))
    E["struct.error"] = ns["struct.error"]
    E["math.ceil"] = Builtin("math.ceil", _ceil)
    E["math.floor"] = Builtin("math.floor", _floor)
    E["math.radians"] = Builtin("math.radians", lambda i, a, k: math.radians(a[0]) if type(a[0]) in (int, float)
                                else i.binop(__import__("ast").Mult(), a[0], math.pi / 180.0))
    E["math.pi"] = math.pi
    E["math.inf"] = math.inf
    E["math.sin"] = Builtin("math.sin", lambda i, a, k: __import__("pyvc.npmodel", fromlist=["trig"]).trig(i, "sin", a[0]),
                            "math: sin/cos of an angle are reals s, c with s*s + c*c = 1")
    E["math.cos"] = Builtin("math.cos", lambda i, a, k: __import__("pyvc.npmodel", fromlist=["trig"]).trig(i, "cos", a[0]),
                            "math: sin/cos of an angle are reals s, c with s*s + c*c = 1")
    E["math.sqrt"] = Builtin("math.sqrt", lambda i, a, k: i.sqrt_model(a[0]))
    E["math.isclose"] = Builtin("math.isclose", lambda i, a, k: (_ for _ in ()).throw(Unsupported("math.isclose")))
    WR = mkcls("weakref")
    WR.ns["__pyvc_new__"] = lambda i, cls, a, k: Obj(WR, {"ref": a[0]}, tag="weakref")
    WR.ns["__call__"] = Builtin("weakref.__call__", lambda i, a, k: a[0].fields["ref"],
                                "weakref: a referent reachable from the verified state is alive")
    E["weakref.ref"] = WR
    E["weakref.ReferenceType"] = WR
    I.WeakrefCls = WR
    E["attrs.field"] = Builtin("attrs.field", lambda i, a, k: (_ for _ in ()).throw(Unsupported("attrs.field outside class body")))
    E["dataclasses.field"] = E["attrs.field"]
    E["dataclasses.dataclass"] = Builtin("dataclass", lambda i, a, k: a[0] if a else Builtin("dataclass.deco", lambda i2, a2, k2: a2[0]))
    E["attrs.Factory"] = Builtin("attrs.Factory", lambda i, a, k: Obj(obj, {"factory": a[0]}, tag="attrs.Factory"))
    E["attrs.define"] = Builtin("attrs.define", lambda i, a, k: a[0] if a else Builtin("define.deco", lambda i2, a2, k2: a2[0]))
    E["attr.define"] = E["attrs.define"]
    E["attrs.evolve"] = Builtin("attrs.evolve", _attrs_evolve, "attrs.evolve = cls(**{init-name: getattr}) i.e. shallow")
    E["attrs.asdict"] = Builtin("attrs.asdict", _attrs_asdict)
    E["attrs.fields"] = Builtin("attrs.fields", _attrs_fields)
    E["attrs.filters.exclude"] = Builtin("attrs.filters.exclude", _attrs_filter(False))
    E["attrs.filters.include"] = Builtin("attrs.filters.include", _attrs_filter(True))
    E["attrs.astuple"] = Builtin("attrs.astuple", _attrs_astuple)
    E["deprecated.deprecated"] = Builtin("deprecated", lambda i, a, k: Builtin("deprecated.deco", lambda i2, a2, k2: a2[0]))
    E["collections.deque"] = _deque_class(I, mkcls, meth)
    E["collections.Counter"] = _counter_class(I, mkcls, meth)
    def _chain(i, a, k):
        def gen():
            for x in a:
                yield from i.iterate(x)
        return IterV(gen())

    def _chain_from_iterable(i, a, k):
        def gen():
            for x in i.iterate(a[0]):
                yield from i.iterate(x)
        return IterV(gen())
    chain_cls = mkcls("chain")
    chain_cls.ns["__pyvc_new__"] = lambda i, cls, a, k: _chain(i, a, k)
    chain_cls.ns["from_iterable"] = StaticMethodV(Builtin("chain.from_iterable", _chain_from_iterable))
    E["itertools.chain"] = chain_cls

    def _islice(i, a, k):
        it = i.iterate(a[0])
        if len(a) == 2:
            start, stop, step = 0, a[1], 1
        else:
            start, stop, step = a[1] or 0, a[2], (a[3] if len(a) > 3 and a[3] is not None else 1)
        if not all(x is None or type(x) is int for x in (start, stop, step)):
            raise Unsupported("itertools.islice with symbolic bounds")

        def gen():
            n = 0
            while stop is None or n < stop:
                try:
                    x = next(it)
                except StopIteration:
                    return
                if n >= start and (n - start) % step == 0:
                    yield x
                n += 1
        return IterV(gen())
    E["itertools.islice"] = Builtin("itertools.islice", _islice)
    Bidict = mkcls("bidict")

    def _bidict_new(i, cls, a, k):
        d = a[0] if a else DictV()
        inv = DictV([(v, kk) for kk, v in zip(d.keys, d.vals)])
        o = Obj(Bidict, {"d": d, "inverse": None}, tag="bidict")
        o.fields["inverse"] = Obj(Bidict, {"d": inv, "inverse": o}, tag="bidict")
        return o
    Bidict.ns["__pyvc_new__"] = _bidict_new
    Bidict.ns["__getitem__"] = Builtin("bidict.__getitem__", lambda i, a, k: i.getitem(a[0].fields["d"], a[1]), "bidict: bijection of the literal given in the source")
    Bidict.ns["__contains__"] = Builtin("bidict.__contains__", lambda i, a, k: i.wrap_bool(i.contains(a[0].fields["d"], a[1])))
    Bidict.ns["__iter__"] = Builtin("bidict.__iter__", lambda i, a, k: IterV(i.iterate(a[0].fields["d"])))
    def _bidict_get(i, a, k):
        d = a[0].fields["d"]
        j = i.dict_find(d, a[1])
        return d.vals[j] if j >= 0 else (a[2] if len(a) > 2 else k.get("default"))
    Bidict.ns["get"] = Builtin("bidict.get", _bidict_get)
    Bidict.ns["keys"] = Builtin("bidict.keys", lambda i, a, k: ListV(list(a[0].fields["d"].keys)))
    Bidict.ns["values"] = Builtin("bidict.values", lambda i, a, k: ListV(list(a[0].fields["d"].vals)))
    Bidict.ns["items"] = Builtin("bidict.items", lambda i, a, k: ListV(list(zip(a[0].fields["d"].keys, a[0].fields["d"].vals))))
    Bidict.ns["__len__"] = Builtin("bidict.__len__", lambda i, a, k: len(a[0].fields["d"].keys))
    E["bidict.bidict"] = Bidict
    E["atexit.register"] = Builtin("atexit.register", lambda i, a, k: i.st.event("atexit", a[0]))
    def _shallow_copy(i, a, k):
        x = a[0]
        if isinstance(x, Obj):
            f, owner = x.cls.lookup("__copy__")
            if f is not None:
                return i.call(i.bind(f, x), [], {})
            return Obj(x.cls, dict(x.fields), tag=x.tag)
        if isinstance(x, ListV):
            return ListV(x.items)
        if isinstance(x, DictV):
            return DictV(list(zip(x.keys, x.vals)))
        if isinstance(x, SetV):
            return SetV(list(x.items), x.frozen)
        return x
    E["copy.copy"] = Builtin("copy.copy", _shallow_copy, "copy.copy: new object of the same class with the same attribute bindings")
    E["shutil.which"] = Builtin("shutil.which", lambda i, a, k: i.st.ghost["which"](i, a[0]) if "which" in i.st.ghost else (_ for _ in ()).throw(Unsupported("shutil.which")))
    E["copy.deepcopy"] = Builtin("deepcopy", lambda i, a, k: (_ for _ in ()).throw(Unsupported("deepcopy")))
    E["collections.abc.MutableMapping"] = obj
    E["typing.TypeVar"] = Builtin("TypeVar", lambda i, a, k: Opaque("TypeVar", (a[0],)))
    E["typing.Generic"] = obj

    # ------------------------------------------------------------------ fasteners reader/writer lock
    Lock = mkcls("InterProcessReaderWriterLock")
    E["fasteners.InterProcessReaderWriterLock"] = Lock
    I.LockCls = Lock
    Lock.ns["__pyvc_new__"] = lambda i, cls, a, k: Obj(Lock, {"path": a[0] if a else None, "held": None}, tag="rwlock")
    TR = "fasteners: acquire returns False only on timeout; readers-writer exclusion across processes (assumed)"

    def _acq(kind):
        def f(i, a, k):
            lk = a[0]
            timeout = k.get("timeout", a[2] if len(a) > 2 else None)
            if lk.fields["held"] is not None:
                raise Unsupported("nested lock acquisition in one process (outside the claim of C04)")
            if timeout is not None:
                if not i.st.branch(i.st.fresh("lock_acquired", z3.BoolSort()), "lock-acquired"):
                    i.st.event("lock-timeout", lk, kind)
                    return False
            lk.fields["held"] = kind
            i.st.event("acquire", lk, kind)
            return True
        return f

    def _rel(kind):
        def f(i, a, k):
            lk = a[0]
            if lk.fields["held"] != kind:
                i.raise_py("RuntimeError", f"cannot release a {kind} lock that is not held")
            lk.fields["held"] = None
            i.st.event("release", lk, kind)
        return f

    Lock.ns["acquire_read_lock"] = Builtin("acquire_read_lock", _acq("read"), TR)
    Lock.ns["acquire_write_lock"] = Builtin("acquire_write_lock", _acq("write"), TR)
    Lock.ns["release_read_lock"] = Builtin("release_read_lock", _rel("read"), TR)
    Lock.ns["release_write_lock"] = Builtin("release_write_lock", _rel("write"), TR)

    def _lock_ctx(kind):
        def f(i, a, k):
            lk = a[0]
            cm = Obj(LockCtx, {"lock": lk, "kind": kind}, tag="lockctx")
            return cm
        return f
    LockCtx = mkcls("_LockCtx")
    meth(LockCtx, "__enter__")(lambda i, a, k: _acq(a[0].fields["kind"])(i, [a[0].fields["lock"]], {}))
    meth(LockCtx, "__exit__")(lambda i, a, k: (_rel(a[0].fields["kind"])(i, [a[0].fields["lock"]], {}), False)[1])
    Lock.ns["write_lock"] = Builtin("write_lock", _lock_ctx("write"), TR)
    Lock.ns["read_lock"] = Builtin("read_lock", _lock_ctx("read"), TR)
    E["fasteners.InterProcessLock"] = Lock

    from . import filemodel
    filemodel.install(I, mkcls, meth)
    from . import npmodel
    if hasattr(npmodel, "install"):
        npmodel.install(I, mkcls, meth)


def _mark_ctx(f):
    f.wrapped_ctx = True
    return f


def _ceil(i, a, k):
    v = a[0]
    if type(v) in (int, float, bool):
        return math.ceil(v)
    kd = num_kind(v)
    if kd == "int":
        return SV(to_z3(v, "int"), "int")
    if kd == "real":
        z = to_z3(v, "real")
        t = z3.ToInt(z)   # floor
        return SV(z3.If(z3.ToReal(t) == z, t, t + 1), "int")
    raise Unsupported("math.ceil")


def _floor(i, a, k):
    v = a[0]
    if type(v) in (int, float, bool):
        return math.floor(v)
    kd = num_kind(v)
    if kd == "int":
        return SV(to_z3(v, "int"), "int")
    if kd == "real":
        return SV(z3.ToInt(to_z3(v, "real")), "int")
    raise Unsupported("math.floor")


def _weakref(i, a, k):
    cls = i.builtins.get("weakref")
    if cls is None:
        cls = ClassV("weakref", builtin=True, bases=[i.builtins["object"]])
        cls.compute_mro()
        cls.ns["__call__"] = Builtin("weakref.__call__", lambda i2, a2, k2: a2[0].fields["ref"])
        i.builtins["weakref"] = cls
        i.ext_models["weakref.ReferenceType"] = cls
    return Obj(cls, {"ref": a[0]}, tag="weakref")


def _attrs_evolve(i, a, k):
    inst = a[0]
    cls = i.type_of(inst)
    kwargs = {}
    for f in cls.attrs_fields:
        if not f.init:
            continue
        if f.init_name in k:
            kwargs[f.init_name] = k[f.init_name]
        else:
            kwargs[f.init_name] = i.getattr_(inst, f.name)
    for n in k:
        if n not in kwargs:
            i.raise_py("TypeError", f"unexpected keyword {n}")
    return i.instantiate(cls, [], kwargs)


def _attrs_asdict(i, a, k):
    """attrs.asdict(inst, recurse=True, filter=None): nested attrs instances are converted too; filter(attribute, value) selects fields"""
    inst = a[0]
    cls = i.type_of(inst)
    flt = k.get("filter")
    out = []
    for f in cls.attrs_fields:
        v = i.getattr_(inst, f.name)
        if flt is not None and not i.st.branch(i.truth(i.call(flt, [_attr_descr(i, cls, f), v], {})), "asdict-filter"):
            continue
        if k.get("recurse", True) and isinstance(v, Obj) and getattr(v.cls, "attrs_fields", None) is not None:
            v = _attrs_asdict(i, [v], {kk: vv for kk, vv in k.items() if kk != "filter"} | ({"filter": flt} if flt is not None else {}))
        out.append((f.name, v))
    return DictV(out)


def _attr_descr(i, cls, f):
    """one attrs.Attribute object per (class, field), so that identity/equality tests in filters work"""
    cache = i.__dict__.setdefault("_attr_descr_cache", {})
    key = (id(cls), f.name)
    if key not in cache:
        cache[key] = Obj(i.builtins["object"], {"name": f.name, "init": f.init, "kw_only": getattr(f, "kw_only", False)}, tag=f"attrs.Attribute:{f.name}")
    return cache[key]


def _attrs_fields(i, a, k):
    cls = a[0]
    if getattr(cls, "attrs_fields", None) is None:
        i.raise_py("TypeError", "Passed object must be an attrs class")
    return Obj(i.builtins["object"], {f.name: _attr_descr(i, cls, f) for f in cls.attrs_fields}, tag="attrs.fields")


def _attrs_filter(include):
    def mk(i, a, k):
        what = list(a)

        def flt(i2, a2, k2):
            attr, value = a2[0], a2[1]
            hit = any(w is attr or (isinstance(w, str) and w == attr.fields["name"]) or (isinstance(w, ClassV) and i2.type_of(value) is w) for w in what)
            return hit if include else not hit
        return Builtin("attrs.filter", flt)
    return mk


def _attrs_astuple(i, a, k):
    inst = a[0]
    cls = i.type_of(inst)
    return tuple(i.getattr_(inst, f.name) for f in cls.attrs_fields)


def _counter_class(I, mkcls, meth):
    """collections.Counter over a concrete-spine dict (keys compared with the executor's equality, counts are ints / symbolic ints)"""
    import ast as _ast
    C = mkcls("Counter")

    def count_into(i, d, it):
        if isinstance(it, DictV):
            for k_, v_ in zip(list(it.keys), list(it.vals)):
                j = i.dict_find(d, k_)
                if j >= 0:
                    d.vals[j] = i.binop(_ast.Add(), d.vals[j], v_)
                else:
                    d.keys.append(k_)
                    d.vals.append(v_)
            return
        if isinstance(it, Obj) and it.tag == "Counter":
            return count_into(i, d, it.fields["d"])
        for x in i.iterate(it):
            i.check_hashable(x)
            j = i.dict_find(d, x)
            if j >= 0:
                d.vals[j] = i.binop(_ast.Add(), d.vals[j], 1)
            else:
                d.keys.append(x)
                d.vals.append(1)

    def new(i, cls, a, k):
        d = DictV()
        if a and a[0] is not None:
            count_into(i, d, a[0])
        for k_, v_ in k.items():
            i.dict_set(d, k_, v_)
        return Obj(C, {"d": d}, tag="Counter")
    C.ns["__pyvc_new__"] = new

    def D(x):
        return x.fields["d"]

    @meth(C, "__getitem__")
    def _get(i, a, k):
        j = i.dict_find(D(a[0]), a[1])
        return D(a[0]).vals[j] if j >= 0 else 0
    meth(C, "__setitem__")(lambda i, a, k: i.dict_set(D(a[0]), a[1], a[2]))
    meth(C, "__len__")(lambda i, a, k: len(D(a[0]).keys))
    meth(C, "__iter__")(lambda i, a, k: ListV(list(D(a[0]).keys)))
    meth(C, "__contains__")(lambda i, a, k: i.dict_find(D(a[0]), a[1]) >= 0)
    meth(C, "keys")(lambda i, a, k: ListV(list(D(a[0]).keys)))
    meth(C, "values")(lambda i, a, k: ListV(list(D(a[0]).vals)))
    meth(C, "items")(lambda i, a, k: ListV(list(zip(D(a[0]).keys, D(a[0]).vals))))
    meth(C, "update")(lambda i, a, k: count_into(i, D(a[0]), a[1]) if len(a) > 1 else None)

    @meth(C, "get")
    def _getd(i, a, k):
        j = i.dict_find(D(a[0]), a[1])
        return D(a[0]).vals[j] if j >= 0 else (a[2] if len(a) > 2 else None)

    @meth(C, "total")
    def _total(i, a, k):
        t = 0
        for v_ in D(a[0]).vals:
            t = i.binop(_ast.Add(), t, v_)
        return t

    def combine(sign):
        def fn(i, a, k):
            x, y = a[0], a[1]
            if not (isinstance(y, Obj) and y.tag == "Counter"):
                return NOT_IMPLEMENTED
            out = DictV()
            keys = list(D(x).keys)
            for k_ in D(y).keys:
                if i.dict_find(D(x), k_) < 0:
                    keys.append(k_)
            for k_ in keys:
                jx, jy = i.dict_find(D(x), k_), i.dict_find(D(y), k_)
                vx = D(x).vals[jx] if jx >= 0 else 0
                vy = D(y).vals[jy] if jy >= 0 else 0
                v_ = i.binop(_ast.Add() if sign > 0 else _ast.Sub(), vx, vy)
                # only positive counts are kept
                if i.st.branch(i.truth(i.wrap_bool(i.compare(_ast.Gt(), v_, 0))), "counter-positive"):
                    out.keys.append(k_)
                    out.vals.append(v_)
            return Obj(C, {"d": out}, tag="Counter")
        return fn
    meth(C, "__sub__")(combine(-1))
    meth(C, "__add__")(combine(+1))

    @meth(C, "__eq__")
    def _eq(i, a, k):
        raise Unsupported("Counter equality")
    return C


def _deque_class(I, mkcls, meth):
    D = I.builtins["deque"]

    def new(i, cls, a, k):
        return Obj(D, {"items": list(i.iterate(a[0])) if a else []}, tag="deque")
    D.ns["__pyvc_new__"] = new
    meth(D, "append")(lambda i, a, k: a[0].fields["items"].append(a[1]))
    meth(D, "appendleft")(lambda i, a, k: a[0].fields["items"].insert(0, a[1]))

    @meth(D, "pop")
    def _pop(i, a, k):
        if not a[0].fields["items"]:
            i.raise_py("IndexError", "pop from an empty deque")
        return a[0].fields["items"].pop()

    @meth(D, "popleft")
    def _popleft(i, a, k):
        if not a[0].fields["items"]:
            i.raise_py("IndexError", "pop from an empty deque")
        return a[0].fields["items"].pop(0)
    meth(D, "__len__")(lambda i, a, k: len(a[0].fields["items"]))
    meth(D, "clear")(lambda i, a, k: a[0].fields["items"].clear())
    meth(D, "extend")(lambda i, a, k: a[0].fields["items"].extend(list(i.iterate(a[1]))))
    return D
