"""Mechanical extraction: locate modules / classes / functions of /repo by qualified name.

Nothing is imported or executed from /repo; the files are parsed with `ast.parse` and the
executor walks these AST nodes directly.  What is dropped: docstrings, comments, type
annotations (never trusted as types).  Decorators are interpreted by the executor.
"""
from __future__ import annotations
import ast, os, hashlib


class ModuleInfo:
    def __init__(self, name, path, is_pkg):
        self.name = name
        self.path = path
        self.is_pkg = is_pkg
        with open(path, "r", encoding="utf8") as f:
            self.src = f.read()
        self.tree = ast.parse(self.src, filename=path)
        self.functions = {}
        self.classes = {}
        self.assigns = {}     # name -> list of (target node, value node) in source order
        self.imports = {}     # local name -> ("module", modname) | ("from", modname, attr)
        self.stars = []       # modules star-imported, in order
        self.order = {}       # name -> ordinal of last binding statement
        self._scan(self.tree.body)

    def package(self):
        return self.name if self.is_pkg else self.name.rpartition(".")[0]

    def _resolve_rel(self, node: ast.ImportFrom):
        if node.level == 0:
            return node.module
        base = self.package().split(".")
        if node.level > 1:
            base = base[: len(base) - (node.level - 1)]
        if node.module:
            base = base + node.module.split(".")
        return ".".join(base)

    def _scan(self, body):
        for i, st in enumerate(body):
            if isinstance(st, (ast.FunctionDef, ast.AsyncFunctionDef)):
                self.functions[st.name] = st
                self.order[st.name] = ("func", st)
            elif isinstance(st, ast.ClassDef):
                self.classes[st.name] = st
                self.order[st.name] = ("class", st)
            elif isinstance(st, ast.Assign):
                for t in st.targets:
                    for n in _target_names(t):
                        self.order[n] = ("assign", st)
            elif isinstance(st, ast.AnnAssign) and st.value is not None:
                for n in _target_names(st.target):
                    self.order[n] = ("assign", st)
            elif isinstance(st, ast.Import):
                for al in st.names:
                    if al.asname:
                        self.imports[al.asname] = ("module", al.name)
                        self.order[al.asname] = ("import",)
                    else:
                        top = al.name.split(".")[0]
                        self.imports[top] = ("module", top)
                        self.order[top] = ("import",)
            elif isinstance(st, ast.ImportFrom):
                mod = self._resolve_rel(st)
                for al in st.names:
                    if al.name == "*":
                        self.stars.append(mod)
                    else:
                        self.imports[al.asname or al.name] = ("from", mod, al.name)
                        self.order[al.asname or al.name] = ("import",)
            elif isinstance(st, (ast.If, ast.Try)):
                # module-level conditionals (e.g. optional imports): scan all arms
                for sub in ast.iter_child_nodes(st):
                    pass
                for fld in ("body", "orelse", "finalbody"):
                    self._scan(getattr(st, fld, []) or [])
                for h in getattr(st, "handlers", []) or []:
                    self._scan(h.body)


def _target_names(t):
    if isinstance(t, ast.Name):
        yield t.id
    elif isinstance(t, (ast.Tuple, ast.List)):
        for e in t.elts:
            yield from _target_names(e)
    elif isinstance(t, ast.Starred):
        yield from _target_names(t.value)


class Repo:
    """Table of the python modules under the repository root (only package `molli`)."""

    def __init__(self, root):
        self.root = root
        self._mods = {}

    def has_module(self, name):
        return self._path(name) is not None

    def _path(self, name):
        rel = name.replace(".", "/")
        p = os.path.join(self.root, rel + ".py")
        if os.path.isfile(p):
            return p, False
        p = os.path.join(self.root, rel, "__init__.py")
        if os.path.isfile(p):
            return p, True
        return None

    def module(self, name) -> ModuleInfo:
        if name not in self._mods:
            pp = self._path(name)
            if pp is None:
                raise KeyError(name)
            self._mods[name] = ModuleInfo(name, pp[0], pp[1])
        return self._mods[name]

    def find(self, qual):
        """qual = 'pkg.mod:Class.method' | 'pkg.mod:func' -> (ModuleInfo, ClassDef|None, node)"""
        modname, _, path = qual.partition(":")
        m = self.module(modname)
        parts = path.split(".")
        if len(parts) == 1:
            if parts[0] in m.functions:
                return m, None, m.functions[parts[0]]
            if parts[0] in m.classes:
                return m, m.classes[parts[0]], m.classes[parts[0]]
            raise KeyError(qual)
        cls = m.classes[parts[0]]
        for st in cls.body:
            if isinstance(st, ast.FunctionDef) and st.name == parts[1]:
                # property setters share the name; caller picks with find_all
                return m, cls, st
        raise KeyError(qual)

    def find_all(self, qual):
        modname, _, path = qual.partition(":")
        m = self.module(modname)
        parts = path.split(".")
        cls = m.classes[parts[0]]
        return [st for st in cls.body if isinstance(st, ast.FunctionDef) and st.name == parts[1]]

    def source_hash(self, qual):
        m, c, node = self.find(qual)
        seg = ast.get_source_segment(m.src, node) or ""
        return hashlib.sha256(seg.encode()).hexdigest()[:16]


def loops_of(fn: ast.FunctionDef):
    """Loops of a function in source order (pre-order), nested function bodies excluded."""
    out = []

    def walk(n):
        for ch in ast.iter_child_nodes(n):
            if isinstance(ch, (ast.FunctionDef, ast.AsyncFunctionDef, ast.Lambda, ast.ClassDef)):
                continue
            if isinstance(ch, (ast.For, ast.While)):
                out.append(ch)
            walk(ch)

    walk(fn)
    return out


def assigned_names(nodes):
    """Names bound by statements (syntactic), nested defs excluded."""
    out = set()

    def walk(n):
        if isinstance(n, (ast.FunctionDef, ast.AsyncFunctionDef, ast.Lambda, ast.ClassDef)):
            if isinstance(n, (ast.FunctionDef, ast.ClassDef)):
                out.add(n.name)
            return
        if isinstance(n, ast.Name) and isinstance(n.ctx, (ast.Store, ast.Del)):
            out.add(n.id)
        if isinstance(n, ast.ExceptHandler) and n.name:
            out.add(n.name)
        if isinstance(n, (ast.MatchAs, ast.MatchStar)) and n.name:
            out.add(n.name)
        if isinstance(n, ast.MatchMapping) and n.rest:
            out.add(n.rest)
        for ch in ast.iter_child_nodes(n):
            walk(ch)

    for n in nodes:
        walk(n)
    return out


def contains_yield(fn):
    def walk(n):
        for ch in ast.iter_child_nodes(n):
            if isinstance(ch, (ast.FunctionDef, ast.AsyncFunctionDef, ast.Lambda, ast.ClassDef)):
                continue
            if isinstance(ch, (ast.Yield, ast.YieldFrom)):
                return True
            if walk(ch):
                return True
        return False

    return walk(fn)
