"""Replay for C07 on the real code. Exit 0 + 'REPRODUCED' when a clause is violated."""
import sys, json, io
import numpy as np
import molli as ml

doc = json.load(open(sys.argv[1]))
w = doc.get("witness") or {}
bad = []
op = w.get("op")
if op == "atom-type":
    e = ml.Element[w["element"]]
    ts = [ml.AtomType(w["atype"])] if isinstance(w.get("atype"), int) and w["atype"] in [t.value for t in ml.AtomType] else list(ml.AtomType)
    gs = [ml.AtomGeom(w["geom"])] if isinstance(w.get("geom"), int) and w["geom"] in [g.value for g in ml.AtomGeom] else list(ml.AtomGeom)
    for t in ts:
        for g in gs:
            tok = ml.Atom(e, atype=t, geom=g).get_mol2_type()
            r = ml.Atom()
            try:
                r.set_mol2_type(tok)
            except BaseException as ex:
                bad.append(f"token {tok!r} written for ({e.name}, {t.name}, {g.name}) is rejected by the reader: {type(ex).__name__}")
                continue
            if r.element != e and t != ml.AtomType.Dummy:
                bad.append(f"token {tok!r}: element read back as {r.element.name}")
            tok2 = r.get_mol2_type()
            if tok2 != tok:
                bad.append(f"({e.name}, {t.name}, {g.name}) is written {tok!r}, read back and written again as {tok2!r}")
elif op == "bond-type":
    a, b = ml.Atom("C"), ml.Atom("C")
    bt = ml.BondType[w["btype"]]
    tok = ml.Bond(a, b, btype=bt).get_mol2_type()
    r = ml.Bond(a, b)
    try:
        r.set_mol2_type(tok)
        if bt.name in ("Single", "Double", "Triple", "Aromatic", "Amide", "Dummy", "Unknown", "NotConnected") and r.btype != bt:
            bad.append(f"bond type {bt.name} written {tok!r} read back as {r.btype.name}")
        if r.get_mol2_type() != tok:
            bad.append(f"bond token {tok!r} is not a fixed point")
    except BaseException as ex:
        bad.append(f"bond token {tok!r} rejected: {type(ex).__name__}")
elif op == "mol2-after-foreign-read":
    import numpy as np
    for mt, ct in (("SMALL", "NO_CHARGES"), ("BIOPOLYMER", "NO_CHARGES"), ("SMALL", "GASTEIGER")):
        src = (f"@<TRIPOS>MOLECULE\nforeign\n2 1 0 0 0\n{mt}\n{ct}\n\n@<TRIPOS>ATOM\n1 C1 0.0000 0.0000 0.0000 C.3 1 UNL 0.0000\n"
               "2 O1 1.2000 0.0000 0.0000 O.3 1 UNL 0.0000\n@<TRIPOS>BOND\n1 1 2 1\n")
        m = ml.Molecule.loads_mol2(src)
        m.atomic_charges = np.array([0.25, -0.25])
        t1 = m.dumps_mol2()
        try:
            r = ml.Molecule.loads_mol2(t1)
            if not np.allclose(r.atomic_charges, [0.25, -0.25], atol=1e-3):
                bad.append(f"a molecule read from a {mt}/{ct} file and given charges [0.25, -0.25] reads back with charges {r.atomic_charges.tolist()}")
            if r.dumps_mol2() != t1:
                bad.append(f"text written for a molecule that came from a {mt}/{ct} file is not a fixed point")
        except BaseException as ex:
            bad.append(f"molli cannot read its own text for a molecule that came from a {mt}/{ct} file: {type(ex).__name__}")
elif op == "mol2-roundtrip":
    m = ml.Molecule(name="sample")
    els = ["C", "N", "O", "Cl"]
    for i, el in enumerate(els):
        m.add_atom(ml.Atom(el, label=f"{el}{i}" if i else "C1000"), [0.123456 * (i + 1), -1500.5 * i, 10000.25 + i], 0.125 * (i - 1))
    m.connect(0, 1, btype=ml.BondType.Double)
    m.connect(2, 1, btype=ml.BondType.Aromatic)
    m.connect(0, 3)
    keep = []
    for cls, shared, nm in ((ml.Molecule, False, None), (ml.Structure, False, None), (ml.Molecule, True, None), (ml.Structure, True, None),
                            (ml.Molecule, False, "ligand 7"), (ml.Structure, False, "water TIP3P")):
        src = cls(m)
        if nm is not None:
            src.name = nm                      # the name is a whole line of the file: it may contain blanks
        if shared:
            # history: some atoms of the molecule were also handed to another (non-copying) container, which re-points their parent
            keep.append(ml.Promolecule(src.atoms[1:3]))
        try:
            txt = src.dumps_mol2()
            r = cls.loads_mol2(txt)
        except BaseException as ex:
            bad.append(f"{cls.__name__}.dumps_mol2/loads_mol2 raised {type(ex).__name__}: {ex}")
            continue
        if r.name != src.name or [a.element for a in r.atoms] != [a.element for a in src.atoms] or [a.label for a in r.atoms] != [a.label for a in src.atoms]:
            bad.append(f"{cls.__name__}: name/elements/labels differ after the round trip")
        if not np.allclose(r.coords, src.coords, atol=1e-6):
            bad.append(f"{cls.__name__}: coordinates differ")
        if cls is ml.Molecule and not np.allclose(r.atomic_charges, src.atomic_charges, atol=1e-3):
            bad.append(f"{cls.__name__} named {src.name!r}: partial charges {np.round(src.atomic_charges, 3).tolist()} read back as {np.round(r.atomic_charges, 3).tolist()}")
        if [(src.atoms.index(b.a1), src.atoms.index(b.a2), b.btype) for b in src.bonds] != [(r.atoms.index(b.a1), r.atoms.index(b.a2), b.btype) for b in r.bonds]:
            bad.append(f"{cls.__name__}: bond list differs")
        if r.dumps_mol2() != txt:
            bad.append(f"{cls.__name__}: written text is not a fixed point")
elif op == "mol2-empty":
    for cls in (ml.Molecule, ml.Structure):
        src = cls(name="nothing")
        try:
            txt = src.dumps_mol2()
        except BaseException:
            continue
        try:
            r = cls.loads_mol2(txt)
            if r.n_atoms != 0 or r.n_bonds != 0 or r.name != "nothing" or r.coords.shape != (0, 3):
                bad.append(f"{cls.__name__} without atoms read back as {r.n_atoms} atoms / {r.n_bonds} bonds / name {r.name!r} / coords {r.coords.shape}")
        except BaseException as ex:
            bad.append(f"{cls.__name__} without atoms: molli cannot read its own mol2 text: {type(ex).__name__}: {str(ex)[:70]}")
else:
    print("unknown op")
    sys.exit(1)
if bad:
    print("REPRODUCED:", "; ".join(bad[:3]))
    sys.exit(0)
print("not reproduced")
sys.exit(1)
