"""Replay of a C17 counterexample on the real pipeline classes. Exit 0 + 'REPRODUCED' when a clause is violated."""
import sys, json, os, tempfile
os.environ.setdefault("MOLLI_HOME", tempfile.mkdtemp())
import molli as ml
from molli.pipeline.job import Job, JobInput
from molli.pipeline.driver import DriverBase

doc = json.load(open(sys.argv[1]))
w = doc["witness"]
bad = []
if w.get("op") == "two-drivers":
    class D(DriverBase):
        @Job(return_files=("o.txt",)).prep
        def task(self, x):
            return JobInput("jid", commands=[(f"{self.executable} -P {self.nprocs}", "t")], envars=self.envars, return_files=self.return_files)

        @task.post
        def task(self, out, x, **kw):
            return out

        vtask = Job.vectorize(task)

    class DC(D):
        envars = {"CLSVAR": "default"}          # class-level defaults shared by all instances
    c1 = DC("sh", nprocs=1, memory=1, envars={"A": "1"}, check_exe=True)
    c2 = DC("sh", nprocs=1, memory=1, envars={"B": "2"}, check_exe=True)
    # (DriverBase.__init__ stores envars on the instance; the class attribute must survive untouched)
    for rnd in range(2):
        for d, own in ((c1, "A"), (c2, "B")):
            got = set((d.task.prepare(object()).envars or {}).keys())
            if not ({own} <= got <= {own, "CLSVAR"}):
                bad.append(f"driver with own variable {own} (class default CLSVAR) prepared environment {sorted(got)}")
    if DC.envars != {"CLSVAR": "default"}:
        bad.append(f"class-level envars were modified by binding jobs: {DC.envars}")
    dr = D("sh", nprocs=2, memory=1, check_exe=True)
    first = dr.task.prepare(object()).commands[0][0]
    dr.nprocs = 6                                   # reconfigured between two uses
    later = dr.task.prepare(object()).commands[0][0]
    if not later.endswith("-P 6"):
        bad.append(f"a driver reconfigured to nprocs=6 still prepares {later!r} (first use prepared {first!r})")
    import gc
    for rnd in range(3):                           # short-lived drivers: a new one must never inherit a dead one's settings
        tmp = D("sh", nprocs=3 + rnd, memory=1, check_exe=True)
        cmd = tmp.task.prepare(object()).commands[0][0]
        if not cmd.endswith(f"-P {3 + rnd}"):
            bad.append(f"a fresh driver with nprocs={3 + rnd} prepared {cmd!r}")
        del tmp
        gc.collect()
    d1 = D("sh", nprocs=2, memory=111, envars={"VAR": "one"}, check_exe=True)
    d2 = D("ls", nprocs=8, memory=222, envars={"VAR": "two"}, check_exe=True)
    # a driver that defines a variable the next one does not define, and one without any environment
    d3 = D("sh", nprocs=1, memory=1, envars={"ONLY3": "x"}, check_exe=True)
    d4 = D("sh", nprocs=1, memory=1, envars=None, check_exe=True)
    d5 = D("sh", nprocs=1, memory=1, envars={"ONLY5": "y"}, check_exe=True)
    for rnd in range(2):
        for d, keys in ((d3, {"ONLY3"}), (d4, set()), (d5, {"ONLY5"})):
            got = set((d.task.prepare(object()).envars or {}).keys())
            if got != keys:
                bad.append(f"driver with environment {sorted(keys)} prepared a job with environment {sorted(got)} (leaked from another driver instance)")
    for rnd in range(2):
        for d, n, v in ((d1, 2, "one"), (d2, 8, "two")):
            inp = d.task.prepare(object())
            if not inp.commands[0][0].startswith(d.executable) or not inp.commands[0][0].endswith(f"-P {n}"):
                bad.append(f"driver({d.executable!r}, nprocs={n}) prepared {inp.commands[0][0]!r}")
            if (inp.envars or {}).get("VAR") != v:
                bad.append(f"driver with VAR={v} prepared envars {inp.envars}")
            vin = list(d.vtask.prepare([object()]))
            if not vin[0].commands[0][0].endswith(f"-P {n}"):
                bad.append(f"vectorized job of driver nprocs={n} prepared {vin[0].commands[0][0]!r}")
elif w.get("op") == "jobinput":
    d = tempfile.mkdtemp()
    for files, tmo in (({"in.txt": "hello text", "in.bin": b"\x00\x01"}, 10.0), ({"in.bin": b"\x02"}, 0.1), (None, 7.3), (None, None)):
        a = JobInput("jid", commands=[("echo 1", "c0"), ("echo 2", None)], files=files, return_files=("r1", "r2"), envars={"OMP_NUM_THREADS": "4"}, timeout=tmo)
        fn = os.path.join(d, "j.inp")
        a.dump(fn)
        b = JobInput.load(fn)
        if b.hash != a.hash:
            bad.append(f"JobInput.load(dump(x)).hash differs from x.hash (files={None if files is None else {k: type(v).__name__ for k, v in files.items()}}, timeout={tmo})")
        if b.timeout != a.timeout:
            bad.append(f"timeout {a.timeout} comes back from dump/load as {b.timeout}")
        if (b.files or {}).get("in.txt", None) != (files or {}).get("in.txt", None):
            bad.append("a text input file does not survive dump/load")
        for fld, other in (("envars", {"OMP_NUM_THREADS": "8"}), ("timeout", 99.0), ("return_files", ("r1",)), ("jid", "other")):
            kw = dict(jid="jid", commands=[("echo 1", "c0"), ("echo 2", None)], files=files, return_files=("r1", "r2"), envars={"OMP_NUM_THREADS": "4"}, timeout=10.0)
            kw[fld] = other
            if JobInput(**kw).hash == a.hash:
                bad.append(f"two job inputs that differ in {fld} have the same hash")
elif w.get("op") == "driver-init":
    try:
        d = DriverBase("sh" if w.get("found") else "no-such-exe-xyz", nprocs=3, memory=5, check_exe=w.get("check_exe"), find=w.get("find"))
        if d.nprocs != 3 or d.memory != 5 or not d.executable:
            bad.append(f"driver settings lost: {d.executable!r}, {d.nprocs}, {d.memory}")
        # an executable reached through a symbolic link is used under the name it was given / found, not under the link's target
        dl = tempfile.mkdtemp()
        real, link = os.path.join(dl, "real-tool"), os.path.join(dl, "tool")
        open(real, "w").write("#!/bin/sh\necho $0\n")
        os.chmod(real, 0o755)
        os.symlink(real, link)
        for find in (True, False):
            dd = DriverBase(link, nprocs=1, memory=1, check_exe=True, find=find)
            if os.path.basename(str(dd.executable)) != "tool":
                bad.append(f"DriverBase({link!r}, find={find}) builds commands with {dd.executable!r} (the link's target)")
    except FileNotFoundError:
        if not (w.get("check_exe") and not w.get("found")):
            bad.append("FileNotFoundError although the executable check was off or the executable exists")
    except BaseException as e:
        bad.append(f"DriverBase(check_exe={w.get('check_exe')}, find={w.get('find')}) raised {type(e).__name__}: {e}")
elif w.get("op") == "run_local":
    import subprocess, shutil
    from molli.pipeline.job import JobOutput
    k = int(w.get("k", 1))
    rcs = [(int(r) if isinstance(r, int) else 0) % 256 for r in (w.get("rcs") or [0] * k)][:k]
    named = (w.get("named") or [True] * k)[:k]
    ex = w.get("exists") or {}
    d = tempfile.mkdtemp()
    mk = " ".join(f"touch {n};" for n in ("r1", "r2") if ex.get(n, True))
    cmds = []
    for i in range(k):
        body = (mk if i == 0 else "") + f" echo out{i}; echo err{i} >&2; cat in.txt > /dev/null; exit {rcs[i]}"
        cmds.append((f"sh -c '{body}'", f"c{i}" if named[i] else None))
    inp = JobInput("jid", commands=cmds, files={"in.txt": "hello", "in.bin": b"\x00\x01"}, return_files=("r1", "r2"), envars={"JV": "1"})
    inp.dump(os.path.join(d, "job.inp"))
    scratch = os.path.join(d, "scratch")
    exe = os.path.join(os.path.dirname(sys.executable), "_molli_run")
    r = subprocess.run([exe, os.path.join(d, "job.inp"), "-o", os.path.join(d, "out"), "-s", scratch], capture_output=True, text=True, timeout=120)
    first_fail = next((i for i, c in enumerate(rcs) if c != 0), None)
    executed = list(range(k)) if first_fail is None else list(range(first_fail + 1))
    want_ok = first_fail is None and all(ex.get(n, True) for n in ("r1", "r2"))
    if (r.returncode == 0) != want_ok:
        bad.append(f"exit status {r.returncode} but expected {'0' if want_ok else 'non-zero'} (rcs={rcs}, files={ex})")
    try:
        out = JobOutput.load(os.path.join(d, "out", "job.out"))
        exp_names = sorted(f"c{i}" for i in executed if named[i])
        if sorted(out.stdouts) != exp_names:
            bad.append(f"captured stdout of {sorted(out.stdouts)} but the executed named commands are {exp_names}")
        for i in executed:
            if named[i] and out.stdouts.get(f"c{i}", "").strip() != f"out{i}":
                bad.append(f"stdout of c{i} is {out.stdouts.get(f'c{i}')!r}")
        for n in ("r1", "r2"):
            if (n in out.files) != bool(ex.get(n, True)):
                bad.append(f"returned files {sorted(out.files)} vs existing {ex}")
        if out.input_hash != inp.hash:
            bad.append("input hash differs")
    except BaseException as e:
        bad.append(f"no readable output record: {type(e).__name__}: {e}; stderr={r.stderr[-200:]}")
    if os.path.isdir(scratch) and os.listdir(scratch):
        bad.append(f"scratch residue: {os.listdir(scratch)}")
    # an earlier record of the same input lies in the output directory (first attempt failed, the job is run again): the job is executed
    d4 = tempfile.mkdtemp()
    flag = os.path.join(d4, "attempts")
    j4 = JobInput("again", commands=[(f"sh -c 'echo x >> {flag}; test $(wc -l < {flag}) -ge 2 && touch r1'", "c0")], return_files=("r1",))
    j4.dump(os.path.join(d4, "job.inp"))
    rr = [subprocess.run([exe, os.path.join(d4, "job.inp"), "-o", os.path.join(d4, "out"), "-s", os.path.join(d4, "scr")], capture_output=True, text=True, timeout=120) for _ in range(2)]
    try:
        o4 = JobOutput.load(os.path.join(d4, "out", "job.out"))
        n_att = len(open(flag).read().split())
        if n_att != 2 or rr[1].returncode != 0 or o4.exitcode != 0 or "r1" not in o4.files:
            bad.append(f"a job whose first attempt failed, executed again: {n_att} attempts were made, second exit status {rr[1].returncode}, recorded exit code {o4.exitcode}, files {sorted(o4.files)}")
    except BaseException as e:
        bad.append(f"rerun scenario: {type(e).__name__}: {e}")
    # the job's environment wins over the runner's own; a command killed by the time limit is a failed command
    d2 = tempfile.mkdtemp()
    j2 = JobInput("env", commands=[("sh -c 'echo $JV; touch r1 r2'", "c0"), ("sh -c 'echo \"$LIT\"'", "c1")], return_files=("r1", "r2"),
                  envars={"JV": "from-the-job", "LIT": "costs $HOME and ${PATH}"})
    j2.dump(os.path.join(d2, "job.inp"))
    r2 = subprocess.run([exe, os.path.join(d2, "job.inp"), "-o", os.path.join(d2, "out"), "-s", os.path.join(d2, "scr")], capture_output=True, text=True,
                        timeout=120, env={**os.environ, "JV": "from-the-runner"})
    try:
        o2 = JobOutput.load(os.path.join(d2, "out", "job.out"))
        if o2.stdouts.get("c0", "").strip() != "from-the-job":
            bad.append(f"the job asked for JV=from-the-job but its command ran with JV={o2.stdouts.get('c0', '').strip()!r} (the runner's own value)")
        if o2.stdouts.get("c1", "").strip() != "costs $HOME and ${PATH}":
            bad.append(f"the job asked for LIT='costs $HOME and ${{PATH}}' but its command saw {o2.stdouts.get('c1', '').strip()[:60]!r}")
    except BaseException as e:
        bad.append(f"environment scenario: no output record ({type(e).__name__})")
    d3 = tempfile.mkdtemp()
    j3 = JobInput("slow", commands=[("sh -c 'touch r1 r2'", "c0"), ("sleep 2", "c1")], return_files=("r1", "r2"), timeout=0.5)
    j3.dump(os.path.join(d3, "job.inp"))
    r3 = subprocess.run([exe, os.path.join(d3, "job.inp"), "-o", os.path.join(d3, "out"), "-s", os.path.join(d3, "scr")], capture_output=True, text=True, timeout=120)
    try:
        o3 = JobOutput.load(os.path.join(d3, "out", "job.out"))
        if (r3.returncode == 0) != (o3.exitcode == 0):
            bad.append(f"a job with a time limit: the runner exited {r3.returncode} but recorded exit code {o3.exitcode} (a killed command stored as success)")
    except BaseException as e:
        if r3.returncode == 0:
            bad.append(f"time-limit scenario: exit 0 without an output record ({type(e).__name__})")
elif w.get("op") == "caller-arguments":
    from molli.pipeline.job import Job
    seen = []

    def prep(job, item, *args, **kwargs):
        seen.append(("prep", job, item, args, kwargs))
        return ("prepared", item)

    def post(job, out, item, *args, **kwargs):
        seen.append(("post", job, out, item, args, kwargs))
        return ("processed", out, item)

    def red(job, results, items, *args, **kwargs):
        seen.append(("reduce", job, args, kwargs))
        return list(results)
    job = Job(prep=prep, post=post, return_files=("out.xyz",))
    vec = Job.vectorize(job)
    vec.reduce(red)
    try:
        r = job.prepare("x1", 7, kw="k")
        if r != ("prepared", "x1") or seen[-1][1:] != (job, "x1", (7,), {"kw": "k"}):
            bad.append(f"job.prepare(item, 7, kw='k') called the user's function with {seen[-1][2:]}")
        r = job.process("o1", "x1", 7, kw="k")
        if r != ("processed", "o1", "x1") or seen[-1][1:] != (job, "o1", "x1", (7,), {"kw": "k"}):
            bad.append(f"job.process(output, item, 7, kw='k') called the user's function with {seen[-1][2:]}")
        del seen[:]
        got = list(vec.prepare(["x1", "x2"], 7, kw="k"))
        calls = [c[2:] for c in seen if c[0] == "prep"]
        if got != [("prepared", "x1"), ("prepared", "x2")] or calls != [("x1", (7,), {"kw": "k"}), ("x2", (7,), {"kw": "k"})]:
            bad.append(f"vectorised prepare([x1, x2], 7, kw='k') called the user's function with {calls} and returned {got}")
        del seen[:]
        got = vec.process(["o1", "o2"], ["x1", "x2"], 7, kw="k")
        calls = [c[2:] for c in seen if c[0] == "post"]
        if got != [("processed", "o1", "x1"), ("processed", "o2", "x2")] or calls != [("o1", "x1", (7,), {"kw": "k"}), ("o2", "x2", (7,), {"kw": "k"})]:
            bad.append(f"vectorised process called the user's function with {calls} and returned {got}")
        rc = [c for c in seen if c[0] == "reduce"]
        if len(rc) != 1 or rc[0][2:] != ((7,), {"kw": "k"}):
            bad.append(f"vectorised process called reduce {len(rc)} times with {[c[2:] for c in rc]}")
    except BaseException as ex:
        bad.append(f"prepare/process with caller arguments raised {type(ex).__name__}: {ex}")
else:
    print("unknown op")
    sys.exit(1)
if bad:
    print("REPRODUCED:", "; ".join(bad[:3]))
    sys.exit(0)
print("not reproduced")
sys.exit(1)
