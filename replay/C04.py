"""Replay of a C04 counterexample: drive a real UkvCollectionBackend session along the witness path
(which callee raised) and check that afterwards the lock is acquirable from a fresh process, the file
handle is closed and the state is 'idle'.  Exit 0 + 'REPRODUCED' when a clause is violated."""
import sys, json, os, tempfile, subprocess
os.environ.setdefault("MOLLI_HOME", tempfile.mkdtemp())
import molli as ml
from molli.storage.backends import UkvCollectionBackend

doc = json.load(open(sys.argv[1]))
w = doc["witness"]
if w.get("op") == "rwlock":
    from molli._aux.lock import rwlock
    from pathlib import Path
    d0 = tempfile.mkdtemp()
    os.makedirs(os.path.join(d0, "real", "sub"))
    os.symlink(os.path.join(d0, "real"), os.path.join(d0, "link"))
    f = os.path.join(d0, "real", "lib.ukv")
    open(f, "wb").close()
    names = [f, os.path.join(d0, "link", "lib.ukv"), os.path.join(d0, "real", "sub", "..", "lib.ukv"), Path(f)]
    cwd = os.getcwd()
    os.chdir(os.path.join(d0, "real"))
    names.append("lib.ukv")
    locks = {str(n): str(rwlock(n)) for n in names}
    os.chdir(cwd)
    if len(set(locks.values())) != 1:
        print("REPRODUCED: names of one file map to different lock files:", {k[-28:]: v[-14:] for k, v in locks.items()})
        sys.exit(0)
    print("not reproduced")
    sys.exit(1)
if w.get("op") == "backend-init":
    import pathlib
    d0 = tempfile.mkdtemp()
    p0 = os.path.join(d0, "new.ukv")
    probe0 = ("import os,sys; os.environ['MOLLI_HOME']=%r; from molli._aux.lock import rwlock; "
              "from fasteners import InterProcessReaderWriterLock as L; l=L(rwlock(%r)); ok=l.acquire_write_lock(timeout=0.3); "
              "sys.exit(7 if ok else 0)" % (os.environ["MOLLI_HOME"], p0))
    seen = []
    real_is_file = pathlib.Path.is_file

    def spy(self):
        if str(self) == p0:
            free = subprocess.run([sys.executable, "-c", probe0], capture_output=True, text=True, timeout=30).returncode == 7
            seen.append(free)
        return real_is_file(self)
    pathlib.Path.is_file = spy
    try:
        UkvCollectionBackend(p0, readonly=False, bufsize=0)
    finally:
        pathlib.Path.is_file = real_is_file
    if not seen:
        print("not reproduced (no existence test observed)")
        sys.exit(1)
    if any(seen):
        print("REPRODUCED: the constructor tests for the library file while the write lock is free: another process can create / truncate the file in between")
        sys.exit(0)
    print("not reproduced")
    sys.exit(1)
br = " ".join(w.get("branches") or [])
d = tempfile.mkdtemp()
p = os.path.join(d, "lib.ukv")
kind = w.get("kind", "writing")

b = UkvCollectionBackend(p, readonly=False, bufsize=10 ** 9)
with b.writing():
    b.put("a", b"1")
if w.get("cached") is False:
    b = UkvCollectionBackend(p, readonly=False, bufsize=10 ** 9)

fault = None
if "UKVFile.open-raises=True" in br:
    fault = "open"
    os.rename(p, p + ".moved")          # begin_read/begin_write will fail
elif "UKVFile.put-raises=True" in br:
    fault = "put"
elif "all keys utf-8=False" in br:
    fault = "update_keys"
    from molli.storage.ukvfile import UKVFile
    with UKVFile(p, "a") as f:
        f.put(b"\xff\xfe", b"x")
raised = None
try:
    cm = b.writing() if kind == "writing" else b.reading()
    with cm:
        if fault == "put":
            b.put("a", b"dup")          # duplicate key: KeyError at flush (session exit)
        if w.get("body_raises") == "KeyboardInterrupt":
            raise KeyboardInterrupt()          # an exception that is not an `Exception`
        if w.get("body_raises"):
            raise RuntimeError("body")
except BaseException as e:
    raised = e
print("session raised:", type(raised).__name__ if raised else None, "| fault:", fault)
if fault == "open" and os.path.exists(p + ".moved"):
    os.rename(p + ".moved", p)
bad = []
if b._state != "idle":
    bad.append(f"state is {b._state!r}")
uk = getattr(b, "_ukvfile", None)
if uk is not None and not uk.closed:
    bad.append("file handle left open")
probe = ("import os,sys; os.environ['MOLLI_HOME']=%r; from molli._aux.lock import rwlock; "
         "from fasteners import InterProcessReaderWriterLock as L; l=L(rwlock(%r)); ok=l.acquire_write_lock(timeout=1.5); "
         "print('ACQ', ok); sys.exit(0 if ok else 3)" % (os.environ["MOLLI_HOME"], p))
try:
    r = subprocess.run([sys.executable, "-c", probe], capture_output=True, text=True, timeout=30)
    if r.returncode != 0:
        bad.append("lock not acquirable from a fresh process within 1.5 s: " + (r.stdout + r.stderr)[-200:].strip())
except subprocess.TimeoutExpired:
    bad.append("lock probe in a fresh process did not finish (lock still held)")
# lock bracket: at the moment the session's file is opened / closed the lock must be held (probed from a fresh process)
held_probe = ("import os,sys; os.environ['MOLLI_HOME']=%r; from molli._aux.lock import rwlock; "
              "from fasteners import InterProcessReaderWriterLock as L; l=L(rwlock(%r)); ok=l.acquire_write_lock(timeout=0.3); "
              "print('ACQ', ok); sys.exit(7 if ok else 0)" % (os.environ["MOLLI_HOME"], p))


def lock_is_free():
    try:
        return subprocess.run([sys.executable, "-c", held_probe], capture_output=True, text=True, timeout=30).returncode == 7
    except subprocess.TimeoutExpired:
        return False


b2 = UkvCollectionBackend(p, readonly=False, bufsize=0)
for meth in ("begin_write", "end_write"):
    orig = getattr(b2, meth)

    def wrapped(*a, _orig=orig, _m=meth, **k):
        if lock_is_free():
            bad.append(f"{_m} (file {'open' if _m == 'begin_write' else 'close'}) ran while the write lock was NOT held: another process could take the lock")
        return _orig(*a, **k)
    setattr(b2, meth, wrapped)
try:
    with b2.writing():
        b2.put("zz", b"2")
except BaseException as e:
    bad.append(f"plain writing session raised {type(e).__name__}")
if bad:
    print("REPRODUCED:", "; ".join(bad))
    sys.exit(0)
print("not reproduced")
sys.exit(1)
