"""Replay / bounded stand-in for C15 on the real code (run by /venv/bin/python).
  replay:   C15.py <witness.json>        -> exit 0 + 'REPRODUCED' when the clause fails on the witness graph
  bounded:  C15.py --bounded <seed>      -> exhaustive over all labelled graphs on <= 5 atoms; prints a json summary line"""
import sys, json, itertools
import molli as ml
import networkx as nx


def build(n, edges, elements=None):
    m = ml.Molecule()
    for i in range(n):
        m.add_atom(ml.Atom(elements[i] if elements else "C", label=f"a{i}"), [float(i), 0.0, 0.0], 0.0)
    for k, (p, q) in enumerate(edges):
        # bonds are stored in either orientation (every third one with the later atom first)
        (m.connect(q, p) if (k + p + q) % 3 == 0 else m.connect(p, q))
    return m


def ref_bfs(n, edges, start, direction=None):
    adj = {i: [] for i in range(n)}
    for p, q in edges:
        adj[p].append(q)
        adj[q].append(p)
    dist = {start: 0}
    order = [start]
    if direction is not None:
        dist[direction] = 1
        order = [direction]
    i = 0
    while i < len(order):
        u = order[i]
        i += 1
        for v in adj[u]:
            if v not in dist:
                dist[v] = dist[u] + 1
                order.append(v)
    dist.pop(start)
    return dist


def check_graph(n, edges):
    bad = []
    m = build(n, edges)
    for s in range(n):
        nb = sorted({q if p == s else p for p, q in edges if s in (p, q)})
        for d in [None] + nb:
            args = (m.atoms[s],) + ((m.atoms[d],) if d is not None else ())
            got = [(a.idx, dd) for a, dd in m.yield_bfsd(*args)]
            ref = ref_bfs(n, edges, s, d)
            if sorted(a for a, _ in got) != sorted(ref) or any(ref[a] != dd for a, dd in got) or any(x[1] > y[1] for x, y in zip(got, got[1:])):
                bad.append(f"yield_bfsd on edges={edges} start={s} direction={d}: {got} vs distances {ref}")
            if [a.idx for a in m.yield_bfs(*args)] != [a for a, _ in got]:
                bad.append(f"yield_bfs differs from yield_bfsd on edges={edges} start={s}")
            # the same query with the atoms named by index (AtomLike)
            iargs = (s,) + ((d,) if d is not None else ())
            got_i = [(a.idx, dd) for a, dd in m.yield_bfsd(*iargs)]
            if got_i != got:
                bad.append(f"yield_bfsd on edges={edges} with atoms given by index start={s} direction={d}: {got_i}, by atom object: {got}")
    for s_ in range(n):
        # adjacency queries with the atom given by object and by index
        a = m.atoms[s_]
        ref_b = [b for b in m.bonds if a in b]
        for arg in (a, s_):
            if list(m.bonds_with_atom(arg)) != ref_b or m.n_bonds_with_atom(arg) != len(ref_b) or abs(m.bonded_valence(arg) - sum(b.order for b in ref_b)) > 1e-9 \
                    or [x.idx for x in m.connected_atoms(arg)] != [(b % a).idx for b in ref_b]:
                bad.append(f"adjacency queries for atom {s_} given as {type(arg).__name__} disagree with the bond list on edges={edges}")
    for k, (p, q) in enumerate(edges):
        rest = [e for j, e in enumerate(edges) if j != k]
        bridge = q not in ref_bfs(n, rest, p)
        if m.is_bond_in_ring(m.bonds[k]) == bridge:
            bad.append(f"is_bond_in_ring wrong for bond {p}-{q} in edges={edges}")
    return bad


def all_graphs(n):
    pairs = list(itertools.combinations(range(n), 2))
    for r in range(len(pairs) + 1):
        for es in itertools.combinations(pairs, r):
            yield list(es)


def brute_embeddings(n, edges, els, pn, pedges, pels):
    E, PE = {frozenset(e) for e in edges}, {frozenset(e) for e in pedges}
    out = set()
    for img in itertools.permutations(range(n), pn):
        if all(pels[i] in ("Unknown", els[img[i]]) for i in range(pn)) and \
           all((frozenset((img[i], img[j])) in E) == (frozenset((i, j)) in PE) for i in range(pn) for j in range(i + 1, pn)):
            out.add(img)
    return out


if sys.argv[1] == "--bounded":
    n_graphs = n_cases = 0
    viol = []
    for n in range(1, 6):
        for edges in all_graphs(n):
            n_graphs += 1
            b = check_graph(n, edges)
            n_cases += n
            if b and len(viol) < 3:
                viol.append({"signature": "bfs-ring", "what": b[0]})
    # matching: molecules on <= 4 atoms with elements {C, N}, connected patterns on <= 3 atoms
    n_match = 0
    for n in (3, 4):
        for edges in all_graphs(n):
            for els in itertools.product(["C", "N"], repeat=n):
                if n == 4 and els.count("N") > 2:
                    continue
                m = build(n, edges, els)
                for pn, pedges in ((2, [(0, 1)]), (3, [(0, 1), (1, 2)]), (3, [(0, 1), (1, 2), (0, 2)]), (3, [(0, 2), (2, 1)]), (3, [(1, 2), (0, 2)])):
                    for pels in (("Unknown",) * pn, ("C",) + ("Unknown",) * (pn - 1), ("N", "C") + ("Unknown",) * (pn - 2)):
                        pat = ml.Connectivity(build(pn, pedges, [ml.Element.Unknown if e == "Unknown" else e for e in pels]))
                        got = {tuple(ix) for ix in m.get_substr_indices(pat)}
                        want = brute_embeddings(n, edges, els, pn, pedges, pels)
                        n_match += 1
                        if n == 3:
                            # the ensemble class has its own get_substr_indices
                            e_ = ml.ConformerEnsemble(m, n_conformers=1)
                            got_e = {tuple(ix) for ix in e_.get_substr_indices(pat)}
                            if got_e != want and len(viol) < 3:
                                viol.append({"signature": "matching", "what": f"ConformerEnsemble.get_substr_indices edges={edges} els={els} pattern={pedges}/{pels}: got {sorted(got_e)[:4]} want {sorted(want)[:4]}"})
                        if got != want and len(viol) < 3:
                            viol.append({"signature": "matching", "what": f"edges={edges} els={els} pattern={pedges}/{pels}: got {sorted(got)[:4]} want {sorted(want)[:4]}"})
    print(json.dumps({"graphs": n_graphs, "bfs_cases": n_cases, "matching_cases": n_match, "violations": viol}))
    sys.exit(0)

doc = json.load(open(sys.argv[1]))
w = doc.get("witness") or {}
if w.get("op") == "bond-order":
    want = {0: 0.0, 1: 1.0, 2: 2.0, 3: 3.0, 4: 4.0, 5: 5.0, 6: 6.0, 10: 0.0, 11: 0.0, 20: 1.5, 98: 0.0}
    badt = []
    for bt in ml.BondType:
        b = ml.Bond(ml.Atom("C"), ml.Atom("Fe"), btype=bt, f_order=0.2)
        exp = 0.2 if bt == ml.BondType.FractionalOrder else want.get(int(bt))
        if exp is not None and abs(b.order - exp) > 1e-12:
            badt.append(f"Bond.order of a {bt.name} bond is {b.order}, expected {exp}")
    if badt:
        print("REPRODUCED:", badt[0])
        sys.exit(0)
    print("not reproduced")
    sys.exit(1)
edges = [tuple(e) for e in (w.get("edges") or [])]
bad = check_graph(max([4] + [max(e) + 1 for e in edges]), edges) if w.get("op") in ("bfs", "ring") else []
if w.get("op") not in ("bfs", "ring"):
    for edges in all_graphs(4):
        bad += check_graph(4, edges)
        if bad:
            break
if bad:
    print("REPRODUCED:", bad[0])
    sys.exit(0)
print("not reproduced")
sys.exit(1)
