"""Replay for C11 on the real code: numeric evaluation (tolerance 1e-8) of the violated clause on random geometries.
Exit 0 + 'REPRODUCED' when the clause fails numerically."""
import sys, json, math
import numpy as np
import molli as ml
from molli.math import rotation_matrix_from_vectors, rotation_matrix_from_axis

def bounded(seed):
    """bounded stand-in (real code, CPython): dihedral / rotate_dihedral / rotation_matrix_from_vectors on EXACTLY degenerate geometries
    (coplanar anti and syn chains, perpendicular chains, exactly (anti)parallel and axis-aligned vectors) and on random ones.
    The inverse trigonometric functions and the degenerate branches are outside what the VC units decide."""
    rng_ = np.random.default_rng(seed)
    vio, n = [], 0

    def add(sig, what):
        if sig not in [v["signature"] for v in vio]:
            vio.append({"signature": sig, "what": what})

    def mk(coords):
        m = ml.Molecule()
        for i, c in enumerate(coords):
            m.add_atom(ml.Atom("C", label=f"C{i}"), c, 0.0)
        for i in range(len(coords) - 1):
            m.connect(i, i + 1)
        return m
    special = {
        "coplanar anti (zig-zag in the xy plane)": [[-1, 1, 0], [0, 0, 0], [1.5, 0, 0], [2.5, -1, 0]],
        "coplanar syn": [[-1, 1, 0], [0, 0, 0], [1.5, 0, 0], [2.5, 1, 0]],
        "perpendicular (+90)": [[-1, 1, 0], [0, 0, 0], [1.5, 0, 0], [2.5, 0, 1]],
        "perpendicular (-90)": [[-1, 1, 0], [0, 0, 0], [1.5, 0, 0], [2.5, 0, -1]],
        "coplanar anti along z": [[0, 1, -1], [0, 0, 0], [0, 0, 1.5], [0, -1, 2.5]],
    }
    expect = {"coplanar anti (zig-zag in the xy plane)": math.pi, "coplanar syn": 0.0, "coplanar anti along z": math.pi}
    geos = [(k, np.array(v, dtype=float)) for k, v in special.items()] + [("random", rng_.normal(size=(4, 3)) * 1.5 + np.arange(4)[:, None] * [1.4, 0, 0]) for _ in range(40)]
    for name, xyz in geos:
        for extra in (0, 1):
            try:
                m = mk(list(xyz) + ([xyz[3] + [0.3, 0.9, 0.4]] if extra else []))
                a = list(m.atoms)
                d0 = m.dihedral(a[0], a[1], a[2], a[3])
                if name in expect and abs(abs(wrap(d0 - expect[name]))) > 1e-7:
                    add("dihedral/special", f"dihedral of a {name} chain is {d0:.6f}, expected {expect[name]:.6f} (mod 2 pi)")
                for target in (0.0, math.pi / 3, -math.pi / 2, math.pi, 2.5, -2.5):
                    mm = ml.Molecule(m)
                    b = list(mm.atoms)
                    before = mm.coords.copy()
                    mm.rotate_dihedral((b[0], b[1], b[2], b[3]), target)
                    n += 1
                    got = mm.dihedral(b[0], b[1], b[2], b[3])
                    if abs(wrap(got - target)) > 1e-6:
                        add("rotate_dihedral/target", f"rotate_dihedral to {target:.4f} on a {name} chain ends at {got:.6f}")
                    moved = [i for i in range(mm.n_atoms) if not np.allclose(mm.coords[i], before[i], atol=1e-9)]
                    if not (set(moved) <= {0, 1} or set(moved) <= set(range(2, mm.n_atoms))) and not (set(moved) <= {0} or set(moved) <= set(range(3, mm.n_atoms))):
                        add("rotate_dihedral/sides", f"rotate_dihedral on a {name} chain moved atoms {moved} (both sides of the central bond)")
                    D0 = np.linalg.norm(before[:, None] - before[None], axis=-1)
                    D1 = np.linalg.norm(mm.coords[:, None] - mm.coords[None], axis=-1)
                    same_side = [(i, j) for i in range(mm.n_atoms) for j in range(mm.n_atoms) if (i <= 1) == (j <= 1)]
                    if any(abs(D0[i, j] - D1[i, j]) > 1e-8 for i, j in same_side):
                        add("rotate_dihedral/rigid", f"rotate_dihedral on a {name} chain changed a distance inside one side")
            except BaseException as ex:
                add("dihedral/raised", f"dihedral / rotate_dihedral on a {name} chain raised {type(ex).__name__}: {str(ex)[:60]}")
    vecs = [np.array(v, dtype=float) for v in ([1, 0, 0], [0, 1, 0], [0, 0, 1], [0, 0, -1], [-1, 0, 0], [1, 2, 3], [0.6, 0.7, 0.8], [-0.6, -0.7, -0.8], [-1, -2, -3], [1, 1, 0], [-1, -1, 0])]
    vecs += [rng_.normal(size=3) for _ in range(20)]
    for v1 in vecs:
        perp = np.cross(v1, [0.3, -0.5, 0.8])
        perp = perp / np.linalg.norm(perp) * np.linalg.norm(v1)
        for v2 in vecs + [-v1, v1 * 2.5, -v1 * 0.5, -v1 + 5e-5 * perp, -v1 + 3e-7 * perp, v1 + 5e-5 * perp]:
            for tol in (1e-8, 1e-6):
                try:
                    R = rotation_matrix_from_vectors(v1, v2, tol=tol)
                    n += 1
                    u1, u2 = v1 / np.linalg.norm(v1), v2 / np.linalg.norm(v2)
                    if not np.allclose(R @ R.T, np.eye(3), atol=1e-8) or abs(np.linalg.det(R) - 1) > 1e-8:
                        add("rotation_matrix_from_vectors/proper", f"rotation_matrix_from_vectors({v1.tolist()}, {v2.tolist()}) is not a proper rotation")
                    elif not np.allclose(u1 @ R, u2, atol=1e-6):
                        add("rotation_matrix_from_vectors/maps", f"rotation_matrix_from_vectors({np.round(v1, 3).tolist()}, {np.round(v2, 3).tolist()}, tol={tol}) maps v1 to {np.round(u1 @ R, 6).tolist()}, not to the direction of v2 {np.round(u2, 6).tolist()}")
                except BaseException as ex:
                    if np.linalg.norm(v1) > 0 and np.linalg.norm(v2) > 0:
                        add("rotation_matrix_from_vectors/raised", f"rotation_matrix_from_vectors raised {type(ex).__name__} on non-zero vectors")
    print(json.dumps({"explored": {"rotate_dihedral / rotation calls": n, "special geometries": len(special)}, "violations": vio}))
    sys.exit(0)


def wrap(x):
    return (x + math.pi) % (2 * math.pi) - math.pi


if len(sys.argv) > 1 and sys.argv[1] == "--bounded":
    bounded(int(sys.argv[2]) if len(sys.argv) > 2 else 0)
doc = json.load(open(sys.argv[1])) if len(sys.argv) > 1 and sys.argv[1] != "--search" else {"obligation": sys.argv[2]}
label = doc.get("obligation", "")
rng = np.random.default_rng(12345)
bad = []


def chain():
    m = ml.Molecule()
    for i in range(5):
        m.add_atom(ml.Atom("C", label=f"C{i}"), rng.normal(size=3) * 1.5 + [i * 1.4, 0, 0], 0.0)
    for i in range(4):
        m.connect(i, i + 1)
    return m


def wrap(x):
    return (x + math.pi) % (2 * math.pi) - math.pi


if "Substructure" in label or "sub/" in label:
    for t in range(5):
        m = chain()
        atoms = list(m.atoms)
        before = {id(a): m.coords[i].copy() for i, a in enumerate(atoms)}
        s = m.substructure([atoms[2], atoms[3]])
        v1, v2 = rng.normal(size=3), rng.normal(size=3)
        s.translate(v1)
        m.del_atom(atoms[0])
        s.translate(v2)
        for a in (atoms[2], atoms[3]):
            if not np.allclose(m.get_atom_coord(a), before[id(a)] + v1 + v2):
                bad.append("after del_atom on the parent, a substructure created earlier moves other atoms than its own")
                break
        for a in (atoms[1], atoms[4]):
            if not bad and not np.allclose(m.get_atom_coord(a), before[id(a)]):
                bad.append("after del_atom on the parent, translating a substructure moved an atom outside it")
        if bad:
            break
elif "optimal_rotation_to_ref_coords" in label or "align_to_ref_coords" in label:
    ens = ml.ConformerEnsemble.load_mol2(ml.files.pentane_confs_mol2)
    nconf = ens.n_conformers
    for trial in range(20):
        script = rng.uniform(0.05, 5.0, size=(nconf, 2))
        calls = []

        def func(a, b):
            n = len(calls)
            calls.append(n)
            return np.eye(3) * (n + 1), float(script[n // 2][n % 2])
        ref = ml.Molecule(ens[0]).substructure([0, 1])
        seen = []

        def func2(a, b):
            seen.append(np.array(a))
            return func(a, b)
        rmsds, rots = ens.optimal_rotation_to_ref_coords(func2, [[0, 1], [2, 1]], ref)
        for c in range(nconf):
            for mi, order in enumerate(([0, 1], [2, 1])):
                if not np.allclose(seen[2 * c + mi], ens.coords[c][order]):
                    bad.append(f"conformer {c}, mapping {order}: the fit was given the atoms in another order than the caller's")
        if bad:
            break
        want = script.min(axis=1)
        if len(rmsds) != nconf or not np.allclose(rmsds, want):
            k = int(np.argmax(~np.isclose(rmsds, want))) if len(rmsds) == nconf else -1
            bad.append(f"conformer {k}: fits {script[k].tolist() if k >= 0 else None} but reported rmsd {rmsds[k] if k >= 0 else rmsds}")
            break
        for c in range(nconf):
            best = 2 * c + int(np.argmin(script[c]))
            if not np.allclose(rots[c], np.eye(3) * (best + 1)):
                bad.append(f"conformer {c}: the returned rotation is not the one of its best fit")
                break
        if bad:
            break
elif "rotate_dihedral" in label or "dihedral" in label:
    # a bond whose near side (atoms[1] side) is the lighter one, and one whose far side is
    for quad in ((0, 1, 2, 3), (4, 3, 2, 1)):
        for t in range(6):
            m = chain()
            m.add_atom(ml.Atom("H", label="H5"), rng.normal(size=3) + [5.6, 1, 0], 0.0)
            m.add_atom(ml.Atom("H", label="H6"), rng.normal(size=3) + [5.6, -1, 0], 0.0)
            m.connect(4, 5)
            m.connect(4, 6)
            before = m.coords.copy()
            target = rng.uniform(-3, 3)
            m.rotate_dihedral(quad, target)
            new = m.dihedral(*quad)
            near = [i for i in range(7) if (i <= quad[1]) == (quad[1] < quad[2])]
            if abs(wrap(new - target)) > 1e-6:
                bad.append(f"rotate_dihedral{quad}(target={target:.4f}) left the dihedral at {new:.4f}")
                break
            if not np.allclose(m.coords[near], before[near]):
                bad.append(f"rotate_dihedral{quad}: atoms on the atoms[1] side moved")
                break
            D0 = np.linalg.norm(before[:, None] - before[None], axis=-1)
            D1 = np.linalg.norm(m.coords[:, None] - m.coords[None], axis=-1)
            bonded = [(i, i + 1) for i in range(4)] + [(4, 5), (4, 6)]
            if any(abs(D0[i, j] - D1[i, j]) > 1e-6 for i, j in bonded):
                bad.append(f"rotate_dihedral{quad} changed a bond length")
                break
        if bad:
            break
    for t in range(0 if bad else 20):
        m = chain()
        before = m.coords.copy()
        target = rng.uniform(-3, 3)
        old = m.dihedral(0, 1, 2, 3)
        m.rotate_dihedral((0, 1, 2, 3), target)
        new = m.dihedral(0, 1, 2, 3)
        if abs(wrap(new - target)) > 1e-6:
            bad.append(f"rotate_dihedral(target={target:.4f}) from {old:.4f} left the dihedral at {new:.4f}")
            break
        if not np.allclose(m.coords[:2], before[:2]):
            bad.append("atoms on the fixed side moved")
            break
elif "rotation_matrix_from_vectors" in label:
    for t in range(80):
        a, b = rng.normal(size=3), rng.normal(size=3)
        if t % 4 == 1:
            b = -a * rng.uniform(0.3, 3.0)              # exactly opposite
        elif t % 4 == 2:
            # nearly opposite, still inside the special branch (1 + cos < 1e-8 means an angle offset below ~1.4e-4)
            b = -a + np.cross(a, rng.normal(size=3)) / np.linalg.norm(a) * float(rng.choice([1e-9, 1e-6, 5e-5]))
        elif t % 4 == 3:
            a = np.eye(3)[t % 3] * rng.uniform(0.5, 2)  # along a coordinate axis, opposite
            b = -a * 1.7
        R = rotation_matrix_from_vectors(a, b)
        if not np.allclose(a / np.linalg.norm(a) @ R, b / np.linalg.norm(b), atol=1e-7) or not np.allclose(R @ R.T, np.eye(3), atol=1e-8) or abs(np.linalg.det(R) - 1) > 1e-8:
            bad.append(f"rotation_matrix_from_vectors({a}, {b}) is not the proper rotation a->b")
            break
elif "rotation_matrix_from_axis" in label:
    for t in range(50):
        u, th = rng.normal(size=3), rng.uniform(-3, 3)
        R = rotation_matrix_from_axis(u, th)
        un = u / np.linalg.norm(u)
        W = np.array([[0, -un[2], un[1]], [un[2], 0, -un[0]], [-un[1], un[0], 0]])
        ref = np.eye(3) + math.sin(th) * W + (1 - math.cos(th)) * W @ W
        if not np.allclose(R, ref, atol=1e-8) or abs(np.linalg.det(R) - 1) > 1e-8:
            bad.append("rotation_matrix_from_axis is not the right-handed rotation about the axis by the angle")
            break
else:
    for t in range(20):
        m = chain()
        D0 = np.linalg.norm(m.coords[:, None] - m.coords[None], axis=-1)
        m.translate(rng.normal(size=3))
        m.transform(rotation_matrix_from_axis(rng.normal(size=3), rng.uniform(-3, 3)))
        D1 = np.linalg.norm(m.coords[:, None] - m.coords[None], axis=-1)
        if not np.allclose(D0, D1, atol=1e-8):
            bad.append("translate/transform changed interatomic distances")
            break
if bad:
    if len(sys.argv) > 3 and sys.argv[1] == "--search":
        json.dump({"witness": {"op": label, "signature": "numeric"}, "violated": bad}, open(sys.argv[3], "w"), indent=1)
    print("REPRODUCED:", bad[0])
    sys.exit(0)
print("not reproduced")
sys.exit(1)
