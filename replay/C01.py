"""Replay of a C01 counterexample: write molecules / ensembles (incl. the empty ones and a multi-conformer
ensemble with non-default fields) to real libraries (v2 codec through MoleculeLibrary/ConformerLibrary, v1 codec
functions directly) and compare what is read back, field by field.  Exit 0 + 'REPRODUCED' on a mismatch."""
import sys, json, os, tempfile
os.environ.setdefault("MOLLI_HOME", tempfile.mkdtemp())
import numpy as np, msgpack
import molli as ml
from molli.chem import io as mio

doc = json.load(open(sys.argv[1]))
w = doc["witness"]
bad = []


def view(o):
    v = {"cls": type(o).__name__, "name": o.name, "charge": o.charge, "mult": o.mult, "attrib": dict(o.attrib),
         "atoms": [(int(a.element), a.isotope, a.label, int(a.atype), int(a.stereo), int(a.geom), a.formal_charge, a.formal_spin, dict(a.attrib)) for a in o.atoms],
         "bonds": [(o.atoms.index(b.a1), o.atoms.index(b.a2), b.label, int(b.btype), int(b.stereo), float(b.f_order), dict(b.attrib)) for b in o.bonds],
         "coords": np.asarray(o.coords, dtype=">f4"), "charges": np.asarray(o.atomic_charges, dtype=">f4")}
    if isinstance(o, ml.ConformerEnsemble):
        v["weights"] = np.asarray(o.weights, dtype=">f4")
    return v


def norm(x):
    """msgpack stores tuples and lists alike as arrays (assumed codec behaviour): compare up to that"""
    if isinstance(x, (list, tuple)):
        return [norm(y) for y in x]
    if isinstance(x, dict):
        return {k: norm(v) for k, v in x.items()}
    return x


def diff(a, b, v1=False):
    out = []
    for k in a:
        x, y = a[k], b[k]
        if isinstance(x, np.ndarray):
            if x.shape != y.shape or not np.array_equal(x, y, equal_nan=True):
                out.append(f"{k}: {x.shape} vs {y.shape}")
        elif k == "atoms" and v1:
            if [t[:6] for t in x] != [t[:6] for t in y]:
                out.append("atoms differ")
        elif k == "bonds" and v1:
            if [t[:6] for t in x] != [t[:6] for t in y]:
                out.append("bonds differ")
        elif k == "attrib" and v1:
            continue
        elif norm(x) != norm(y):
            out.append(f"{k}: {x!r} != {y!r}")
    return out


def sample_mol():
    m = ml.Molecule(name="sample", charge=-1, mult=2)
    a = ml.Atom("C", isotope=13, label="C1", atype=ml.AtomType.Aromatic, stereo=ml.AtomStereo.R, geom=ml.AtomGeom.R3_Planar, formal_charge=-1, formal_spin=1, attrib={"k": [1, 2]})
    b = ml.Atom(ml.Element.Unknown, label=None)
    m.add_atom(a, [0.1, -2.5, 3.25], 0.5)
    m.add_atom(b, [1e5, float("nan"), -1e-3], -0.25)
    bd = m.connect(1, 0, label="bl", btype=ml.BondType.Aromatic, stereo=ml.BondStereo.E, f_order=1.5)
    bd.attrib["w"] = 2.5
    m.attrib["nested"] = {"a": (1, 2)}
    m.attrib[7] = "an integer key"                 # msgpack-able: packs without complaint, so it has to read back
    m.atoms[0].attrib["shifts"] = {1: 0.5, 2: 1.5}
    return m


if w.get("op") == "library-version":
    import tempfile, os
    from molli.storage.ukvfile import UKVFile
    bad = []
    for Lib, obj in ((ml.MoleculeLibrary, sample_mol()), (ml.ConformerLibrary, ml.ConformerEnsemble(sample_mol(), n_conformers=2))):
        d = tempfile.mkdtemp()
        p = os.path.join(d, "old.lib")
        with UKVFile(p, "w", h1=b"ML10Library"):
            pass                                    # an (empty) library file in the legacy format
        lib = Lib(p, overwrite=True, readonly=False)
        with lib.writing():
            lib["a"] = obj
        try:
            lib2 = Lib(p)
            with lib2.reading():
                back = lib2["a"]
            if back.n_atoms != obj.n_atoms or back.name != obj.name:
                bad.append(f"{Lib.__name__}: object written after overwriting a legacy file reads back differently")
        except BaseException as ex:
            bad.append(f"{Lib.__name__}(path_of_a_legacy_file, overwrite=True): what is written cannot be read back ({type(ex).__name__}: {str(ex)[:60]})")
        # a legacy library opened for writing WITHOUT overwrite keeps the legacy encoding: old and new records read back through
        # the writable handle and through a fresh read-only one
        p = os.path.join(d, "legacy.lib")
        with UKVFile(p, "w", h1=b"ML10Library"):
            pass
        try:
            l1 = Lib(p, readonly=False)
            with l1.writing():
                l1["a"] = obj
            l2 = Lib(p, readonly=False)
            with l2.writing():
                l2["b"] = obj
            with l2.reading():
                got = [l2[k] for k in ("a", "b")]
            l3 = Lib(p)
            with l3.reading():
                got += [l3[k] for k in ("a", "b")]
            if any(g.n_atoms != obj.n_atoms or g.name != obj.name or [a.element for a in g.atoms] != [a.element for a in obj.atoms] for g in got):
                bad.append(f"{Lib.__name__}: records of a legacy library opened with readonly=False read back differently")
        except BaseException as ex:
            bad.append(f"{Lib.__name__}(path_of_a_legacy_file, readonly=False): old/new records cannot be read back ({type(ex).__name__}: {str(ex)[:60]})")
    if bad:
        print("REPRODUCED:", "; ".join(bad))
        sys.exit(0)
    print("not reproduced")
    sys.exit(1)
if w.get("op") == "collection-reads":
    import tempfile, os
    d = tempfile.mkdtemp()
    bad = []
    lib = ml.MoleculeLibrary(os.path.join(d, "l.mlib"), readonly=False, overwrite=True)
    with lib.writing():
        lib["a"] = sample_mol()
    with lib.reading():
        x = lib["a"]
        x.name = "edited-in-memory"
        x.charge = 7
        x.coords[0, 0] = 123.0
        y = lib["a"]
        if y is x or y.name != "sample" or y.charge != -1 or y.coords[0, 0] == 123.0:
            bad.append("a second read of the same key shows in-memory edits of the first result instead of what is stored")
        vals = list(lib.values())
        if vals and (vals[0] is x or vals[0].name != "sample"):
            bad.append("values() shows an in-memory edit instead of what is stored")
    if bad:
        print("REPRODUCED:", "; ".join(bad))
        sys.exit(0)
    print("not reproduced")
    sys.exit(1)
def falsy_mol():
    """every stored value that python counts as false: type/stereo/geometry Unknown (0), empty label, zero order, empty dicts"""
    m = ml.Molecule(name="falsy", charge=0, mult=1)
    a = ml.Atom("C", label="", atype=ml.AtomType.Unknown, stereo=ml.AtomStereo.Unknown, geom=ml.AtomGeom.Unknown, formal_charge=0, formal_spin=0)
    b = ml.Atom("O", label="", atype=ml.AtomType.Unknown)
    m.add_atom(a, [0.0, 0.0, 0.0], 0.0)
    m.add_atom(b, [0.0, 0.0, 0.0], 0.0)
    m.connect(0, 1, label="", btype=ml.BondType.Unknown, stereo=ml.BondStereo.Unknown, f_order=0.0)
    # a second bond between the same two atoms (reversed): both bonds are part of the object
    m.append_bond(ml.Bond(m.atoms[1], m.atoms[0], label="parallel", btype=ml.BondType.Double))
    return m


kind = "ens" if "ens" in (w.get("op") or "") else "mol"
ver = 1 if "v1" in (w.get("op") or "") else 2
objs = []
if kind == "mol":
    objs = [ml.Molecule(), sample_mol(), falsy_mol()]
else:
    m = sample_mol()
    e = ml.ConformerEnsemble(m, n_conformers=3)
    e.coords = np.arange(18, dtype=float).reshape(3, 2, 3)
    e.atomic_charges = np.arange(6, dtype=float).reshape(3, 2) / 10
    e.weights = [0.5, 0.25, 0.25]
    objs = [ml.ConformerEnsemble(), ml.ConformerEnsemble(m), e, ml.ConformerEnsemble(falsy_mol(), n_conformers=1)]
# history: an object whose atoms were also handed to another, non-copying container (their parent reference points there)
_keep = []
if kind == "mol":
    sm = sample_mol()
    _keep.append(ml.Promolecule([sm.atoms[1]]))
    objs.append(sm)
else:
    se = ml.ConformerEnsemble(sample_mol(), n_conformers=2)
    _keep.append(ml.Promolecule([se.atoms[1]]))
    objs.append(se)
for i, o in enumerate(objs):
    try:
        if ver == 2:
            d = tempfile.mkdtemp()
            Lib = ml.MoleculeLibrary if kind == "mol" else ml.ConformerLibrary
            lib = Lib(os.path.join(d, "t.lib"), readonly=False, overwrite=True)
            with lib.writing():
                lib[f"k{i}"] = o
            with lib.reading():
                r = lib[f"k{i}"]
        else:
            ser = getattr(mio, f"_serialize_{kind}_v1")
            de = getattr(mio, f"_deserialize_{kind}_v1")
            r = de(msgpack.loads(msgpack.dumps(ser(o), use_single_float=True), use_list=False, strict_map_key=False))
        dd = diff(view(o), view(r), v1=(ver == 1))
        if dd:
            bad.append(f"object {i}: " + "; ".join(dd[:3]))
    except BaseException as ex:
        bad.append(f"object {i} ({type(o).__name__}, {getattr(o, 'n_conformers', '-')} conformers, {o.n_atoms} atoms): {type(ex).__name__}: {ex}")
if bad:
    print("REPRODUCED:", " | ".join(bad[:3]))
    sys.exit(0)
print("not reproduced")
sys.exit(1)
