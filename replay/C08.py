"""Replay for C08 on the real code. Exit 0 + 'REPRODUCED' when a clause is violated."""
import sys, json
import numpy as np
import molli as ml

doc = json.load(open(sys.argv[1]))
w = doc.get("witness") or {}
bad = []
APU = {"A": 1.0, "Angstrom": 1.0, "Bohr": 0.529177210903, "au": 0.529177210903, "pm": 0.01, "nm": 10.0, "fm": 1e-5}
m = ml.Molecule(name="g")
for i, el in enumerate(["C", "O", "H"]):
    m.add_atom(ml.Atom(el, label=f"{el}{i}", atype=(ml.AtomType.Dummy if i == 1 else ml.AtomType.Regular)), [1.25 * (i + 1), -1234.5 * i, 12345.0 + i], 0.0)
# (atom 1 is dummy-TYPED but has a real element: the element is part of the geometry)
m.connect(0, 1)
if w.get("op") == "xyz-empty":
    for cls_ in (ml.Molecule, ml.Structure, ml.CartesianGeometry):
        g = cls_(name="nothing")
        txt = g.dumps_xyz()
        if not txt.strip():
            continue                    # nothing written for this class: nothing to read back
        try:
            r = cls_.loads_xyz(txt)
            if r.n_atoms != 0 or r.coords.shape != (0, 3):
                bad.append(f"{cls_.__name__} without atoms read back with {r.n_atoms} atoms / coords {r.coords.shape}")
        except BaseException as ex:
            bad.append(f"{cls_.__name__} without atoms: molli cannot read its own xyz text {txt!r}: {type(ex).__name__}: {str(ex)[:70]}")
elif w.get("op") == "ensemble-units":
    from io import StringIO
    e = ml.ConformerEnsemble(m, n_conformers=2)
    e.coords = np.stack([m.coords, m.coords + 1.5])
    for fmt in ("xyz", "mol2"):
        txt = getattr(e, f"dumps_{fmt}")()
        for u in ("Bohr", "pm"):
            for entry in ("loads", "load"):
                arg = txt if entry == "loads" else StringIO(txt)
                try:
                    r = getattr(ml.ConformerEnsemble, f"{entry}_{fmt}")(arg, source_units=u, name="renamed")
                except BaseException as ex:
                    bad.append(f"ConformerEnsemble.{entry}_{fmt}(source_units={u!r}) raised {type(ex).__name__}")
                    continue
                if not np.allclose(r.coords, e.coords * APU[u], rtol=1e-4, atol=1e-9):
                    bad.append(f"ConformerEnsemble.{entry}_{fmt}: text declared in {u}: {e.coords[0][0][0]} {u} read as {r.coords[0][0][0]:.6g} Angstrom, expected {e.coords[0][0][0] * APU[u]:.6g}")
                if r.name != "renamed":
                    bad.append(f"ConformerEnsemble.{entry}_{fmt}(name='renamed') returned an ensemble named {r.name!r}")
elif w.get("op") == "xyz-vocabulary":
    for el in ml.Element:
        if el == ml.Element.Unknown:
            continue
        g = ml.CartesianGeometry(n_atoms=1)
        g.atoms[0].element = el
        try:
            r = ml.CartesianGeometry.loads_xyz(g.dumps_xyz())
        except BaseException as ex:
            bad.append(f"element {el.name}: molli rejects its own xyz output ({type(ex).__name__})")
            continue
        if r.atoms[0].element != el or r.atoms[0].atype != ml.AtomType.Regular:
            bad.append(f"element {el.name} written to xyz reads back as {r.atoms[0].element.name} / {r.atoms[0].atype.name}")
elif w.get("op") == "xyz-multi":
    frames = [("O", "H", "H"), ("S", "H", "H"), ("H", "O", "H"), ("*", "C", "O"), ("C", "O", "O")]
    txt = ""
    for els in frames:
        g = ml.Molecule(n_atoms=3)
        for a_, e_ in zip(g.atoms, els):
            if e_ == "*":
                a_.atype = ml.AtomType.Dummy
                a_.element = ml.Element.Unknown
            else:
                a_.element = ml.Element[e_]
        g.coords = np.arange(9, dtype=float).reshape(3, 3)
        txt += g.dumps_xyz()
    rs = ml.Molecule.loads_all_xyz(txt)
    got = [tuple("*" if a_.atype == ml.AtomType.Dummy else a_.element.symbol for a_ in r.atoms) for r in rs]
    if got != frames:
        bad.append(f"multi-molecule xyz text read back with elements {got}, written {frames}")
elif w.get("op") == "units":
    fmt = w.get("format", "xyz")
    units = [w["unit"]] if w.get("unit") in APU else list(APU)
    txt = getattr(m, f"dumps_{fmt}")()
    from io import StringIO
    for u in units:
        import tempfile, os
        fpath = os.path.join(tempfile.mkdtemp(), "f." + fmt)
        open(fpath, "w").write(txt)
        for entry in ("loads", "load", "loads_all", "load_all", "load(path)", "load_all(path)"):
            arg = txt if entry.startswith("loads") else (fpath if entry.endswith("(path)") else StringIO(txt))
            entry = entry.replace("(path)", "")
            try:
                r = getattr(ml.Molecule, f"{entry}_{fmt}")(arg, source_units=u)
            except BaseException as ex:
                bad.append(f"Molecule.{entry}_{fmt}(source_units={u!r}) raised {type(ex).__name__}")
                continue
            r = list(r)[0] if entry.endswith("_all") else r
            want = m.coords * APU[u]
            if not np.allclose(r.coords, want, rtol=1e-4, atol=1e-9):
                bad.append(f"Molecule.{entry}_{fmt}: file declared in {u}: {m.coords[0][0]} {u} read as {r.coords[0][0]:.6g} Angstrom, expected {want[0][0]:.6g}")
else:
    for cls, nm in ((ml.Molecule, None), (ml.CartesianGeometry, None), (ml.Molecule, ""), (ml.CartesianGeometry, " ")):
        src = cls(m) if cls is ml.Molecule else ml.CartesianGeometry(m)
        if nm is not None:
            src.name = nm                   # an empty / blank name gives an empty comment line: still the second line of the frame
        try:
            r = cls.loads_xyz(src.dumps_xyz())
        except BaseException as ex:
            bad.append(f"{cls.__name__}: molli rejects its own xyz output: {type(ex).__name__}: {str(ex)[:80]}")
            continue
        if r.n_atoms != src.n_atoms or [a.element for a in r.atoms] != [a.element for a in src.atoms] or not np.allclose(r.coords, src.coords, atol=1e-6):
            bad.append(f"{cls.__name__}: xyz round trip changed atoms/coordinates")
    for nc in (2, 1, 3):
        e = ml.ConformerEnsemble(m, n_conformers=nc)
        want = np.stack([m.coords + 123.456789 * c for c in range(nc)])          # not representable in single precision to 1e-6
        e.coords = want
        from io import StringIO
        for entry in ("loads", "load"):
            try:
                txt = e.dumps_xyz()
                r = ml.ConformerEnsemble.loads_xyz(txt) if entry == "loads" else ml.ConformerEnsemble.load_xyz(StringIO(txt))
                if r.coords.shape != want.shape or not np.allclose(r.coords, want, atol=1e-6, rtol=0):
                    bad.append(f"ensemble xyz round trip ({nc} frames, {entry}_xyz) changed frames")
            except BaseException as ex:
                bad.append(f"ConformerEnsemble ({nc} frames, {entry}_xyz): molli rejects its own xyz output: {type(ex).__name__}: {str(ex)[:80]}")
if bad:
    print("REPRODUCED:", "; ".join(bad[:3]))
    sys.exit(0)
print("not reproduced")
sys.exit(1)
