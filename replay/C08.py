"""Replay for C08 on the real code. Exit 0 + 'REPRODUCED' when a clause is violated."""
import sys, json
import numpy as np
import molli as ml

doc = json.load(open(sys.argv[1]))
w = doc.get("witness") or {}
bad = []
APU = {"A": 1.0, "Angstrom": 1.0, "Bohr": 0.529177210903, "au": 0.529177210903, "pm": 0.01, "nm": 10.0, "fm": 1e-5}
m = ml.Molecule(name="g")
for i, el in enumerate(["C", "O", "H"]):
    m.add_atom(ml.Atom(el, label=f"{el}{i}"), [1.25 * (i + 1), -1234.5 * i, 12345.0 + i], 0.0)
m.connect(0, 1)
if w.get("op") == "units":
    fmt = w.get("format", "xyz")
    units = [w["unit"]] if w.get("unit") in APU else list(APU)
    txt = getattr(m, f"dumps_{fmt}")()
    for u in units:
        r = getattr(ml.Molecule, f"loads_{fmt}")(txt, source_units=u)
        want = m.coords * APU[u]
        if not np.allclose(r.coords, want, rtol=1e-4, atol=1e-9):
            bad.append(f"{fmt} file declared in {u}: {m.coords[0][0]} {u} read as {r.coords[0][0]:.6g} Angstrom, expected {want[0][0]:.6g}")
else:
    for cls in (ml.Molecule, ml.CartesianGeometry):
        src = cls(m) if cls is ml.Molecule else ml.CartesianGeometry(m)
        try:
            r = cls.loads_xyz(src.dumps_xyz())
        except BaseException as ex:
            bad.append(f"{cls.__name__}: molli rejects its own xyz output: {type(ex).__name__}: {str(ex)[:80]}")
            continue
        if r.n_atoms != src.n_atoms or [a.element for a in r.atoms] != [a.element for a in src.atoms] or not np.allclose(r.coords, src.coords, atol=1e-6):
            bad.append(f"{cls.__name__}: xyz round trip changed atoms/coordinates")
    e = ml.ConformerEnsemble(m, n_conformers=2)
    e.coords = np.stack([m.coords, m.coords + 1.5])
    try:
        r = ml.ConformerEnsemble.loads_xyz(e.dumps_xyz())
        if r.coords.shape != e.coords.shape or not np.allclose(r.coords, e.coords, atol=1e-6):
            bad.append("ensemble xyz round trip changed frames")
    except BaseException as ex:
        bad.append(f"ConformerEnsemble: molli rejects its own xyz output: {type(ex).__name__}: {str(ex)[:80]}")
if bad:
    print("REPRODUCED:", "; ".join(bad[:3]))
    sys.exit(0)
print("not reproduced")
sys.exit(1)
