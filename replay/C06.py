"""Replay for C06 on the real classes: every copy route on a molecule / ensemble with non-default values; checks that the copy is
equal in every observable field and shares no mutable state with its source.  Exit 0 + 'REPRODUCED' on a violation."""
import sys, json, pickle, copy
import numpy as np
import molli as ml

doc = json.load(open(sys.argv[1])) if sys.argv[1] != "--search" else {}
w = doc.get("witness") or {}
bad = []


def sample():
    m = ml.Molecule(name="src", charge=-1, mult=2)
    for i, el in enumerate(["C", "N", "O"]):
        a = ml.Atom(el, label=f"{el}{i}", formal_charge=i - 1, attrib=({"k": i} if i < 2 else {}))       # the last atom has no attributes
        m.add_atom(a, [0.5 * i, 1.0 - i, 2.0], 0.1 * (i + 1))
    b = m.connect(0, 1, btype=ml.BondType.Double)
    b.attrib["w"] = 1
    m.connect(1, 2)
    m.attrib["note"] = "x"
    m.attrib["results"] = [1, 2]                 # a nested mutable value: a DEEP copy must not share it
    m.atoms[0].attrib["shifts"] = [0.5]
    return m


def view(o):
    import copy as _c
    v = {"name": o.name, "charge": o.charge, "mult": o.mult, "attrib": _c.deepcopy(dict(o.attrib)),
         "atoms": [(int(a.element), a.label, a.formal_charge, _c.deepcopy(dict(a.attrib))) for a in o.atoms]}
    if hasattr(o, "bonds"):
        v["bonds"] = [(o.atoms.index(b.a1), o.atoms.index(b.a2), int(b.btype), dict(b.attrib)) for b in o.bonds]
    if hasattr(o, "coords"):
        v["coords"] = np.array(o.coords).tolist()
    if hasattr(o, "atomic_charges"):
        v["charges"] = np.array(o.atomic_charges).tolist()
    if isinstance(o, ml.ConformerEnsemble):
        v["weights"] = np.array(o.weights).tolist()
    return v


def check(route, src, cp):
    try:
        vs, vc = view(src), view(cp)
    except BaseException as e:
        bad.append(f"{route}: an accessor of the copy raised {type(e).__name__}: {e}")
        return
    for k in vs:
        if vs[k] != vc.get(k):
            bad.append(f"{route}: field {k} differs: {str(vs[k])[:60]} vs {str(vc.get(k))[:60]}")
    try:
        for a in cp.atoms:
            if a.parent is not cp or a.idx is None:
                bad.append(f"{route}: atom parent/idx of the copy is wrong")
                break
        for b in getattr(cp, "bonds", []):
            if b.parent is not cp:
                bad.append(f"{route}: bond parent of the copy is wrong")
                break
    except BaseException as e:
        bad.append(f"{route}: parent/idx on the copy raised {type(e).__name__}")
    # independence: mutate the copy, the source must not change
    before = view(src)
    try:
        cp.atoms[0].attrib["mut"] = 1
        cp.atoms[0].label = "changed"
        if hasattr(cp, "bonds") and cp.bonds:
            cp.bonds[0].attrib["mut"] = 1
            cp.bonds[-1].attrib["mut"] = 1           # this bond had an empty attribute dictionary
        cp.atoms[-1].attrib["mut2"] = 1
        if route.startswith(("deepcopy", "pickle")):
            cp.attrib["results"].append(99)
            cp.atoms[0].attrib["shifts"].append(99)
        cp.attrib["mut"] = 1
        if hasattr(cp, "coords"):
            cp.coords[...] = 99.0
        if hasattr(cp, "atomic_charges"):
            cp.atomic_charges[...] = 9.0
        if isinstance(cp, ml.ConformerEnsemble):
            cp.weights = np.full(cp.n_conformers, 7.0)      # the library's own in-place setter
    except BaseException as e:
        bad.append(f"{route}: mutating the copy raised {type(e).__name__}")
    after = view(src)
    for k in before:
        if before[k] != after[k]:
            bad.append(f"{route}: editing the copy changed the source's {k}")


for cls in (ml.Molecule, ml.Structure, ml.CartesianGeometry, ml.Connectivity, ml.Promolecule):
    src = cls(sample()) if cls is not ml.Molecule else sample()
    check(f"{cls.__name__}(x)", src, cls(src))
    src = cls(sample()) if cls is not ml.Molecule else sample()
    check(f"pickle {cls.__name__}", src, pickle.loads(pickle.dumps(src)))
    src = cls(sample()) if cls is not ml.Molecule else sample()
    check(f"deepcopy {cls.__name__}", src, copy.deepcopy(src))
e = ml.ConformerEnsemble(sample(), n_conformers=2)
e.coords = np.arange(18, dtype=float).reshape(2, 3, 3)
e.weights = [0.25, 0.75]
e.atomic_charges = np.arange(6, dtype=float).reshape(2, 3)
for route, f in (("ConformerEnsemble(x)", lambda x: ml.ConformerEnsemble(x)), ("pickle ConformerEnsemble", lambda x: pickle.loads(pickle.dumps(x))),
                 ("deepcopy ConformerEnsemble", copy.deepcopy)):
    src = copy.deepcopy(e) if False else ml.ConformerEnsemble(e)
    src.weights = [0.25, 0.75]
    try:
        check(route, src, f(src))
    except BaseException as ex:
        bad.append(f"{route} raised {type(ex).__name__}: {ex}")
# a Conformer (view of one row) as the source object
esrc = ml.ConformerEnsemble(e)
esrc.weights = [0.25, 0.75]
for route, f in (("pickle Conformer", lambda x: pickle.loads(pickle.dumps(x))), ("deepcopy Conformer", copy.deepcopy)):
    csrc = esrc[1]
    try:
        ccp = f(csrc)
    except BaseException as ex:
        bad.append(f"{route} raised {type(ex).__name__}: {str(ex)[:70]}")
        continue
    try:
        if type(ccp) is not type(csrc) or not np.array_equal(ccp.coords, csrc.coords) or not np.array_equal(ccp.atomic_charges, csrc.atomic_charges) \
                or [int(x.element) for x in ccp.atoms] != [int(x.element) for x in csrc.atoms] or ccp.name != csrc.name:
            bad.append(f"{route}: the copy differs from the source conformer")
        keepc = esrc.coords.copy()
        ccp.coords[0, 0] = 77.0
        ccp.atoms[0].label = "changed"
        if not np.array_equal(esrc.coords, keepc) or esrc.atoms[0].label == "changed":
            bad.append(f"{route}: editing the copy changed the source ensemble")
    except BaseException as ex:
        bad.append(f"{route}: using the copy raised {type(ex).__name__}: {str(ex)[:70]}")
a, b = sample(), sample()
check("concatenate (first source)", a, ml.Molecule(ml.Structure.concatenate(a, b)) if False else a.__class__(a))
sa, sb = ml.Structure(a), ml.Structure(b)
va, vb = view(sa), view(sb)
c = ml.Structure.concatenate(sa, sb)
try:
    if any(x.parent is not c for x in c.atoms) or any(x.parent is not c for x in c.bonds) or [x.idx for x in c.atoms] != list(range(c.n_atoms)):
        bad.append("concatenate: atoms/bonds of the product do not belong to it (parent/idx)")
except BaseException as ex:
    bad.append(f"concatenate: parent/idx on the product raised {type(ex).__name__}")
for nm, s_, v_ in (("first", sa, va), ("second", sb, vb)):
    try:
        if any(x.parent is not s_ for x in s_.atoms) or [x.idx for x in s_.atoms] != list(range(s_.n_atoms)) or any(x.parent is not s_ for x in s_.bonds):
            bad.append(f"concatenate: atoms/bonds of the {nm} source no longer belong to it (parent/idx changed)")
    except BaseException as ex:
        bad.append(f"concatenate: parent/idx on the {nm} source raised {type(ex).__name__} afterwards")
    if view(s_) != v_:
        bad.append(f"concatenate changed the {nm} source")
for cls_ in (ml.Molecule,):
    ma, mb = sample(), sample()
    vma, vmb = view(ma), view(mb)
    try:
        mc = cls_.concatenate(ma, mb)
        if any(x.parent is not ma for x in ma.atoms) or [x.idx for x in ma.atoms] != list(range(ma.n_atoms)) or any(x.parent is not mb for x in mb.atoms):
            bad.append(f"{cls_.__name__}.concatenate: source atoms no longer belong to their molecule")
        mc.atoms[0].label = "edited-in-product"
        mc.atoms[0].attrib["mut"] = 1
        if view(ma) != vma or view(mb) != vmb:
            bad.append(f"{cls_.__name__}.concatenate: editing the product changed a source")
    except BaseException as ex:
        bad.append(f"{cls_.__name__}.concatenate / source check raised {type(ex).__name__}: {ex}")
j1, j2 = ml.Molecule(sample()), ml.Molecule(sample())
j1.atoms[2].atype = ml.AtomType.AttachmentPoint
j2.atoms[0].atype = ml.AtomType.AttachmentPoint
vj1, vj2 = view(j1), view(j2)
try:
    jj = ml.Molecule.join(j1, j2, j1.atoms[2], j2.atoms[0], optimize_rotation=False)
    for nm, s_, v_ in (("first", j1, vj1), ("second", j2, vj2)):
        if view(s_) != v_ or any(x.parent is not s_ for x in s_.atoms) or [x.idx for x in s_.atoms] != list(range(s_.n_atoms)):
            bad.append(f"join changed its {nm} source (fields, parents or indices)")
except BaseException as ex:
    bad.append(f"join / source check raised {type(ex).__name__}: {ex}")
# sources whose atoms were also handed to another, non-copying container (their parent reference points there): still copied faithfully
_keep = []
for cls in (ml.Molecule, ml.Structure, ml.Connectivity, ml.ConformerEnsemble):
    try:
        src = cls(sample())
        _keep.append(ml.Promolecule(src.atoms[:0:-1]))
        cp = cls(src)
        vs, vc = view(src), view(cp)
        if vs.get("bonds") != vc.get("bonds") or vs["atoms"] != vc["atoms"]:
            bad.append(f"{cls.__name__}(x) of a source whose atoms also sit in another container: bonds {vc.get('bonds')} instead of {vs.get('bonds')}")
    except BaseException as ex:
        bad.append(f"{cls.__name__}(x) of a source whose atoms also sit in another container raised {type(ex).__name__}: {str(ex)[:70]}")
# `|` and concatenate with a Conformer operand and with a single part
try:
    e2 = ml.ConformerEnsemble(e)
    for lhs, rhs, nm in ((e2[0], e2[1], "conformer | conformer"), (e2[1], sample(), "conformer | molecule"), (sample(), e2[0], "molecule | conformer")):
        u = lhs | rhs
        if u.n_atoms != lhs.n_atoms + rhs.n_atoms or u.n_bonds != lhs.n_bonds + rhs.n_bonds or any(x.parent is not u for x in u.atoms):
            bad.append(f"{nm}: product has {u.n_atoms} atoms / {u.n_bonds} bonds or foreign atoms")
        u.coords[0, 0] += 9.0
        u.atoms[0].label = "edited"
        if e2.atoms[0].label == "edited" or not np.array_equal(np.array(e2.coords), np.array(e.coords)):
            bad.append(f"{nm}: editing the product changed the ensemble")
except BaseException as ex:
    bad.append(f"`|` with a Conformer operand raised {type(ex).__name__}: {str(ex)[:70]}")
try:
    one = ml.Structure(sample())
    c1 = ml.Structure.concatenate(one)
    c1.attrib["only-in-product"] = 1
    c1.atoms[0].attrib["only-in-product"] = 1
    if "only-in-product" in one.attrib or "only-in-product" in one.atoms[0].attrib or c1.attrib is one.attrib:
        bad.append("concatenate of a single part: the product shares an attribute dictionary with its source")
except BaseException as ex:
    bad.append(f"concatenate of a single part raised {type(ex).__name__}: {str(ex)[:70]}")
c.atoms[0].attrib["mut"] = 1
if "mut" in a.atoms[0].attrib:
    bad.append("concatenate: the product's atoms share their attrib dict with the source atoms")
if bad:
    if sys.argv[1] == "--search":
        json.dump({"witness": {"op": "copies", "signature": "copies"}, "violated": bad[:8]}, open(sys.argv[3], "w"), indent=1)
    print("REPRODUCED:", " | ".join(sorted(set(bad))[:6]))
    sys.exit(0)
print("not reproduced")
sys.exit(1)
