"""Replay of a C02 counterexample on the real UKVFile / backend (run by /venv/bin/python).

The witness describes one operation on a handle over a file with n records; the script performs
it on the real code and checks the clauses of the property statement concretely.
Exit 0 + 'REPRODUCED' when a clause is violated.
"""
import sys, json, os, tempfile, io, struct
from molli.storage.ukvfile import UKVFile

doc = json.load(open(sys.argv[1]))
w = doc["witness"]
d = tempfile.mkdtemp()
p = os.path.join(d, "t.ukv")


def cap(x, lo, hi):
    try:
        x = int(x)
    except Exception:
        x = lo
    return max(lo, min(hi, x))


def view(h):
    return (sorted(h.keys()), h._eof, dict((k, (r.pos, r.key_len, r.record_len)) for k, r in h._toc.items()))


bad = []
op = w.get("op")
if op in ("put", "get", "keys"):
    n = cap(w.get("n", 1), 0, 4)
    with UKVFile(p, "w", h1=b"TESTH1", h2=b"comment", b0=b"descr") as f:
        for i in range(n):
            f.put(b"k%d" % i, b"v" * (i + 1))
    ref = {b"k%d" % i: b"v" * (i + 1) for i in range(n)}
    mode = w.get("mode", "a")
    h = UKVFile(p, mode)
    if w.get("closed"):
        h.close()
    before_bytes = open(p, "rb").read()
    before_view = view(h)
    if op == "put":
        klen = cap(w.get("klen", 1), 0, 300)
        vlen = cap(w.get("vlen", 1), 0, 70000)
        key = (b"K" * klen) if not w.get("dup") else b"k0"
        val = b"\x00\xffV" * (vlen // 3) + b"V" * (vlen % 3)
        try:
            h.put(key, val)
            ok = True
        except BaseException as e:
            ok = False
            print("put raised", type(e).__name__, e)
        after_bytes = open(p, "rb").read() if not ok else None
        if ok:
            got = h.get(key)
            if got != val:
                bad.append("get after put returned different bytes")
            for k, v in ref.items():
                if h.get(k) != v:
                    bad.append(f"earlier record {k} changed")
            h.close()
            with UKVFile(p, "r") as g:
                if sorted(g.keys()) != sorted(list(ref) + [key]):
                    bad.append("listing after reopen differs from the put keys")
                if g.get(key) != val:
                    bad.append("value after reopen differs")
        else:
            if not h.closed:
                h._stream.flush()
            after_bytes = open(p, "rb").read()
            if after_bytes != before_bytes:
                bad.append("failed put changed the file")
            if view(h) != before_view:
                bad.append(f"failed put changed the handle's view: keys {before_view[0]} -> {view(h)[0]}")
    elif op == "get":
        for k, v in ref.items():
            try:
                if h.get(k) != v:
                    bad.append("get returned wrong bytes")
            except BaseException as e:
                if not w.get("closed"):
                    bad.append(f"get raised {type(e).__name__}")
        if view(h) != before_view or open(p, "rb").read() != before_bytes:
            bad.append("get changed file or view")
    elif op == "keys":
        if sorted(h.keys()) != sorted(ref):
            bad.append("listing differs from put keys")
elif op in ("session-get", "collection-set-get", "backend-put", "update_keys"):
    import molli as ml
    from molli.storage.backends import UkvCollectionBackend
    from molli.storage.collection import Collection
    sizes = [10 ** 9] if op == "session-get" else [cap(w.get("bufsize", -1), -1, 10 ** 9), 10 ** 9, 0, -1]
    for bufsize in sizes:
        if os.path.exists(p):
            os.remove(p)
        c = Collection(p, UkvCollectionBackend, overwrite=True, readonly=False, bufsize=bufsize)
        with c.writing():
            c["first"] = b"1"
        with c.writing():
            c["k"] = b"value-k"
            for key in list(c.keys()):
                try:
                    got = c[key]
                    if key == "k" and got != b"value-k":
                        bad.append("listed key read back wrong bytes inside the session")
                except BaseException as e:
                    bad.append(f"bufsize={bufsize}: key {key!r} is listed inside the writing session but reading it raised {type(e).__name__}")
        with c.reading():
            if sorted(c.keys()) != ["first", "k"]:
                bad.append(f"bufsize={bufsize}: listing after the session is {sorted(c.keys())}")
        if bad:
            break
    if op == "update_keys" and not bad:
        # stale advertised key set: a failed put on handle A, then one successful put through handle B
        if os.path.exists(p):
            os.remove(p)
        A = Collection(p, UkvCollectionBackend, overwrite=True, readonly=False, bufsize=0)
        B = Collection(p, UkvCollectionBackend, readonly=False, bufsize=0)
        with A.writing():
            A["a"] = b"1"
        try:
            with A.writing():
                A["K" * 256] = b"x"
        except BaseException as e:
            print("failed put raised", type(e).__name__)
        with B.writing():
            B["b"] = b"2"
        with A.reading():
            ks = sorted(A.keys())
            if ks != ["a", "b"]:
                bad.append(f"handle A lists {[k[:8] for k in ks]} but the file holds ['a', 'b']")
            for k in ks:
                try:
                    A[k]
                except BaseException as e:
                    bad.append(f"listed key {k[:8]!r} unreadable: {type(e).__name__}")
elif op == "script":
    # generic operation script on 1..3 handles: [["open",hid,mode],["put",hid,khex,vhex],["get",hid,khex],["close",hid],...]
    hs = {}
    model = {}
    for step in w["script"]:
        kind = step[0]
        try:
            if kind == "open":
                hs[step[1]] = UKVFile(p, step[2]) if step[1] not in hs else (hs[step[1]].open(step[2]) or hs[step[1]])
                if step[2] in ("w", "x"):
                    model.clear()
            elif kind == "close":
                hs[step[1]].close()
            elif kind == "put":
                k, v = bytes.fromhex(step[2]), bytes.fromhex(step[3])
                before = open(p, "rb").read()
                try:
                    hs[step[1]].put(k, v)
                    model[k] = v
                except BaseException as e:
                    hs[step[1]]._stream.flush() if not hs[step[1]].closed else None
                    if open(p, "rb").read() != before:
                        bad.append(f"failed put changed the file at step {step}")
                    if k in hs[step[1]].keys() and k not in model:
                        bad.append(f"failed put left key listed at step {step}")
            elif kind == "get":
                k = bytes.fromhex(step[2])
                got = hs[step[1]].get(k)
                if got != model.get(k):
                    bad.append(f"get returned wrong bytes at step {step}")
        except BaseException as e:
            print("step", step, "raised", type(e).__name__, e)
elif op == "reopen":
    # reopen (fresh handle and stale handle) of files whose records include empty keys' neighbours, empty VALUES and a last record with an
    # empty value: every complete record is listed with its value, in both modes
    for vals in ([b"one", b"", b"three"], [b"one", b"two", b""], [b""], []):
        pp = os.path.join(d, f"re_{len(vals)}_{sum(map(len, vals))}.ukv")
        with UKVFile(pp, "w", h1=b"TESTH1", h2=b"c", b0=b"d") as f:
            for i, v in enumerate(vals):
                f.put(b"k%d" % i, v)
        stale = UKVFile(pp, "r")
        stale.close()
        with UKVFile(pp, "a") as f2:
            f2.put(b"later", b"")
        want = {b"k%d" % i: v for i, v in enumerate(vals)}
        want[b"later"] = b""
        for mode in ("r", "a"):
            for hname, hh in (("fresh", None), ("stale", stale)):
                try:
                    g = UKVFile(pp, mode) if hh is None else (hh.open(mode) or hh)
                    got = {k: g.get(k) for k in g.keys()}
                    g.close()
                    if got != want:
                        bad.append(f"reopen ({hname} handle, mode {mode}) of a file with records {[(k, len(v)) for k, v in want.items()]} lists {[(k, len(v)) for k, v in got.items()]}")
                except BaseException as ex:
                    bad.append(f"reopen ({hname} handle, mode {mode}) raised {type(ex).__name__}: {ex}")
        if os.path.getsize(pp) < 32:
            bad.append("file truncated by reopening")
elif op == "reopen-header":
    for h2, b0 in ((b"comment", b"descr"), (b"comment", b""), (b"", b"descr"), (b"", b""), (b"x" * int(cap(w.get("h2len", 3), 0, 2000)), b"y" * int(cap(w.get("b0len", 0), 0, 2000)))):
        pp = os.path.join(d, f"hdr_{len(h2)}_{len(b0)}.ukv")
        with UKVFile(pp, "w", h1=b"TESTH1", h2=h2, b0=b0) as f:
            f.put(b"k1", b"value-one")
            f.put(b"k2", b"value-two")
        for mode in ("r", "a"):
            with UKVFile(pp, mode) as g:
                if g.h2 != h2 or g.b0 != b0:
                    bad.append(f"comment {h2[:10]!r} / descriptor {b0[:10]!r} read back as {g.h2[:10]!r} / {g.b0[:10]!r} (mode {mode})")
                ks = sorted(g.keys())
                if ks != [b"k1", b"k2"] or g.get(b"k1") != b"value-one" or g.get(b"k2") != b"value-two":
                    bad.append(f"after reopening a file with a {len(h2)}-byte comment and a {len(b0)}-byte descriptor block the records are {ks}")
elif op == "close-reopen":
    # a handle that created the file (w / x) or opened it (a / r) is closed and opened again -- through open() and through a second
    # `with` block: records written before the close are still there, for this handle and for a fresh one
    for mode in ("w", "x", "a", "r"):
        for how in ("open", "with"):
            pp = os.path.join(d, f"cr_{mode}_{how}.ukv")
            if mode in ("a", "r"):
                with UKVFile(pp, "w", h1=b"TESTH1", h2=b"c", b0=b"d") as f0:
                    pass
            f = UKVFile(pp, mode, h1=b"TESTH1", h2=b"c", b0=b"d")
            try:
                if mode != "r":
                    f.put(b"k1", b"value-one")
                    f.put(b"k2", b"")
                f.close()
                if how == "open":
                    f.open()
                else:
                    f.__enter__()
                if mode != "r":
                    f.put(b"k3", b"value-three")
                want = {b"k1": b"value-one", b"k2": b"", b"k3": b"value-three"} if mode != "r" else {}
                got = {k: f.get(k) for k in f.keys()}
                if got != want:
                    bad.append(f"handle created with mode {mode!r}, closed and re-opened ({how}): records are {got}, expected {want}")
                f.close()
                with UKVFile(pp, "r") as g:
                    got = {k: g.get(k) for k in g.keys()}
                if got != want:
                    bad.append(f"after close/re-open ({how}) of a mode-{mode!r} handle a fresh reader sees {got}, expected {want}")
            except BaseException as ex:
                bad.append(f"close/re-open ({how}) of a mode-{mode!r} handle raised {type(ex).__name__}: {ex}")
elif op == "doomed-write":
    # a write session whose buffer holds a write that must be rejected (duplicate of a stored key, duplicate of an earlier
    # buffered key, oversize key): the rejected write is dropped, its bytes are never visible, later sessions are unaffected
    os.environ.setdefault("MOLLI_HOME", tempfile.mkdtemp())
    from molli.storage.backends import UkvCollectionBackend
    for why in ("dup-file", "dup-queue", "oversize"):
        for bufsize in (10 ** 9, 64):
            pp = os.path.join(d, f"lib_{why}_{bufsize}.ukv")
            b = UkvCollectionBackend(pp, readonly=False, bufsize=bufsize)
            with b.writing():
                b.put("stored", b"first")
            bad_key = {"dup-file": "stored", "dup-queue": "fresh1", "oversize": "k" * 300}[why]
            got_inside = None
            try:
                with b.writing():
                    b.put("fresh1", b"one")
                    b.put(bad_key, b"SECOND")
                    b.put("fresh2", b"two")
                    if why != "oversize":
                        try:
                            got_inside = b.get(bad_key)
                        except BaseException:
                            got_inside = None
            except BaseException:
                pass
            if got_inside == b"SECOND":
                bad.append(f"[{why}, bufsize {bufsize}] get returned the bytes of a put that is rejected (the stored value is {('first' if why == 'dup-file' else 'one')!r})")
            # the next sessions must work and show exactly the successful puts
            try:
                with b.writing():
                    b.put("later", b"three")
                with b.reading():
                    ks = sorted(b.keys())
                    vals = {k: b.get(k) for k in ks}
                want = {"stored": b"first", "later": b"three"}
                for k, v in want.items():
                    if vals.get(k) != v:
                        bad.append(f"[{why}, bufsize {bufsize}] after a rejected write, key {k!r} reads {vals.get(k)!r}, expected {v!r}")
                if vals.get("fresh1") not in (None, b"one") or ("k" * 300) in vals:
                    bad.append(f"[{why}, bufsize {bufsize}] bytes of a rejected write became visible: {vals}")
            except BaseException as e:
                bad.append(f"[{why}, bufsize {bufsize}] a rejected buffered write poisoned the handle: the next session raised {type(e).__name__}: {str(e)[:60]}")
else:
    print("unknown witness op", op)
    sys.exit(1)

if bad:
    print("REPRODUCED:", "; ".join(bad))
    sys.exit(0)
print("not reproduced")
sys.exit(1)
