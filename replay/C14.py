"""Replay of a C14 counterexample on the real ConformerEnsemble. Exit 0 + 'REPRODUCED' when a clause is violated."""
import sys, json
import numpy as np
import molli as ml

doc = json.load(open(sys.argv[1]))
w = doc["witness"]
op = w.get("op")
bad = []


def rect(e):
    nc, na = e.coords.shape[0], e.n_atoms
    out = []
    if e.coords.shape != (nc, na, 3):
        out.append(f"coords {e.coords.shape}")
    if e.atomic_charges.shape != (nc, na):
        out.append(f"{nc} conformers but atomic_charges shape {e.atomic_charges.shape}")
    if e.weights.shape != (nc,):
        out.append(f"{nc} conformers but weights shape {e.weights.shape}")
    return out


src = ml.ConformerEnsemble.load_mol2(ml.files.pentane_confs_mol2)
if op in ("append", "extend"):
    # an ensemble with atoms but no conformers yet: the first append must copy, not alias, the source's coordinates
    e0 = ml.ConformerEnsemble(ml.Connectivity(src[0]))          # atoms and bonds, no conformer yet
    if e0.n_conformers != 0:
        e0 = ml.ConformerEnsemble([a.element for a in src[0].atoms])
    mol0 = ml.Molecule(src[1])
    keep = mol0.coords.copy()
    try:
        (e0.append(mol0) if op == "append" else e0.extend([mol0]))
        e0[0].coords[0, 0] += 50.0
        e0.translate(np.array([1.0, 2.0, 3.0]))
        if not np.array_equal(mol0.coords, keep):
            bad.append(f"{op} on an ensemble without conformers aliases the source molecule's coordinates: editing the conformer edits the molecule")
    except BaseException as ex:
        bad.append(f"{op} on an ensemble without conformers raised {type(ex).__name__}: {ex}")
    nc = int(w.get("nc", 1))
    e = ml.ConformerEnsemble(src[0], n_conformers=max(nc, 1)) if nc else ml.ConformerEnsemble(src[0], n_conformers=1)
    e.coords = src.coords[: e.n_conformers]
    if op == "append":
        e.append(src[1])
    else:
        e.extend([src[1], src[2]])
        bad += rect(e)
        e.extend(src)          # extend with an ensemble argument
    bad += rect(e)
    try:
        for c in e:
            c.coords, c.atomic_charges
    except BaseException as ex:
        bad.append(f"conformer view of an appended conformer raised {type(ex).__name__}")
    # a geometry with another number of atoms is refused, and the refused call leaves the ensemble as it was
    shapes0 = (e.coords.shape, e.atomic_charges.shape, e.weights.shape)
    c0 = e.coords.copy()
    other = ml.Molecule(n_atoms=e.n_atoms + 1)
    for how in ("append", "extend"):
        try:
            (e.append(other) if how == "append" else e.extend([other, other]))
            bad.append(f"{how} accepted a geometry with {other.n_atoms} atoms into an ensemble of {e.n_atoms}-atom conformers")
        except BaseException:
            pass
        if (e.coords.shape, e.atomic_charges.shape, e.weights.shape) != shapes0 or not np.array_equal(e.coords, c0):
            bad.append(f"a refused {how} (wrong atom count) left the ensemble with coords {e.coords.shape}, charges {e.atomic_charges.shape}, weights {e.weights.shape} (before: {shapes0})")
            break
elif op == "transform":
    # collective transformations with well-formed and ill-formed arguments: whatever the call does, the ensemble stays rectangular
    for nc in (1, 2, 3):
        e = ml.ConformerEnsemble(src[0], n_conformers=nc)
        e.coords = src.coords[:nc]
        want = (e.coords.shape, e.atomic_charges.shape, e.weights.shape)
        th = 0.3
        Rz = np.array([[np.cos(th), -np.sin(th), 0], [np.sin(th), np.cos(th), 0], [0, 0, 1.0]])
        calls = [("rotate(3x3)", lambda: e.rotate(Rz)), ("rotate(stack of 2)", lambda: e.rotate(np.stack([Rz, Rz]))),
                 ("rotate(stack of 3)", lambda: e.rotate(np.stack([Rz, Rz, Rz]))), ("rotate(3x4)", lambda: e.rotate(np.ones((3, 4)))),
                 ("translate(3,)", lambda: e.translate(np.array([1.0, 2.0, 3.0]))), ("translate(4,)", lambda: e.translate(np.ones(4))),
                 ("translate(nc+1,3)", lambda: e.translate(np.ones((nc + 1, 3)))), ("scale(2)", lambda: e.scale(2.0)), ("invert", lambda: e.invert())]
        for nm, f in calls:
            try:
                f()
            except BaseException:
                pass
            got = (e.coords.shape, e.atomic_charges.shape, e.weights.shape)
            if got != want:
                bad.append(f"after {nm} on a {nc}-conformer ensemble: coords {got[0]}, charges {got[1]}, weights {got[2]} (before: {want})")
                break
elif op == "nested-iteration":
    pairs = [(a._conf_id, b._conf_id) for a in src for b in src]
    n = src.n_conformers
    if pairs != [(i, j) for i in range(n) for j in range(n)]:
        bad.append(f"nested iteration over {n} conformers visited {len(pairs)} pairs instead of {n * n}")
    kept = list(src)
    if [c._conf_id for c in kept] != list(range(n)) or any(not np.array_equal(c.coords, src.coords[i]) for i, c in enumerate(kept)):
        bad.append(f"list(ensemble) does not hold the {n} conformers in order: ids {[c._conf_id for c in kept]}")
    a0 = next(iter(src))
    rest = [c._conf_id for c in src]
    if a0._conf_id != 0:
        bad.append("a conformer obtained from one iterator changed when another iteration ran")
    i1, i2 = iter(src), iter(src)
    got = [next(i1)._conf_id, next(i2)._conf_id, next(i1)._conf_id, next(i2)._conf_id]
    if got != [0, 0, 1, 1]:
        bad.append(f"two interleaved iterators yielded {got}")
elif op == "slice":
    n = src.n_conformers
    for sl in (slice(None), slice(0, 1), slice(1, None), slice(-1, None), slice(0, 5)):
        got = [c._conf_id for c in src[sl]]
        if got != list(range(n))[sl]:
            bad.append(f"ens[{sl}] on {n} conformers x {src.n_atoms} atoms gave conformers {got}")
elif op == "view-after-growth":
    for how in ("append", "extend"):
        e = ml.ConformerEnsemble(src[0], n_conformers=2)
        e.coords = src.coords[:2]
        c = e[1]
        (e.append(src[2]) if how == "append" else e.extend([src[2], src[3]]))
        if not np.array_equal(c.coords, e.coords[1]) or not np.array_equal(c.atomic_charges, e.atomic_charges[1]):
            bad.append(f"a conformer handle taken before {how} no longer shows the ensemble's row")
        c.coords[0, 2] = 123.5
        c.atomic_charges[1] = -0.75
        if e.coords[1, 0, 2] != 123.5 or e.atomic_charges[1, 1] != -0.75:
            bad.append(f"writes through a conformer handle taken before {how} do not reach the ensemble")
        c.coords = np.full((e.n_atoms, 3), 7.0)
        if not np.all(e.coords[1] == 7.0):
            bad.append(f"assignment through a conformer handle taken before {how} does not reach the ensemble")
elif op == "init":
    for e in (ml.ConformerEnsemble(list(src)[:2]), ml.ConformerEnsemble(src), ml.ConformerEnsemble(src[0]), ml.ConformerEnsemble(src[0], n_conformers=3)):
        bad += rect(e)
else:
    print("unknown op")
    sys.exit(1)
if bad:
    print("REPRODUCED:", "; ".join(bad[:4]))
    sys.exit(0)
print("not reproduced")
sys.exit(1)
