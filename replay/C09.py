"""Replay of a C09 counterexample on the real code (run by /venv/bin/python, molli imported from /repo).

Exit 0 + 'REPRODUCED' when the entry point disagrees with the class-level codec for the witness cell.
"""
import sys, json, io, os, tempfile, traceback
import molli as ml

doc = json.load(open(sys.argv[1]))
w = doc["witness"]
XYZ2 = "2\nfirst\nH 0.0 0.0 0.0\nH 0.0 0.0 0.74\n2\nsecond\nH 0.0 0.0 0.0\nF 0.0 0.0 0.92\n"


def mol2_text():
    m = ml.Molecule.loads_xyz(XYZ2.split("2\nsecond")[0], name="first")
    m2 = ml.Molecule.loads_xyz("2\nsecond" + XYZ2.split("2\nsecond")[1], name="second")
    return m.dumps_mol2() + m2.dumps_mol2()


def outcome(f):
    try:
        return ("ok", f())
    except BaseException as e:
        return ("exc", type(e).__name__, str(e)[:200])


def summarize(x):
    if isinstance(x, list):
        return ["list"] + [summarize(y) for y in x]
    if isinstance(x, ml.ConformerEnsemble):
        return ("ens", type(x).__name__, x.name, x.n_conformers, x.n_atoms)
    if isinstance(x, ml.Promolecule):
        return ("mol", type(x).__name__, x.name, x.n_atoms)
    return repr(x)


def norm(o):
    return (o[0], summarize(o[1])) if o[0] == "ok" else o[:2]


fn = w["fn"]
fmt = w.get("fmt")
res = None
if fn in ("load", "loads", "load_all", "loads_all"):
    otype = w["otype"]
    T = {"molecule": ml.Molecule, "ensemble": ml.ConformerEnsemble}.get(otype)
    if T is None:
        T = getattr(ml, otype.split(":")[1])
    oarg = otype if otype in ("molecule", "ensemble") else T
    name = w.get("name")
    sfx = w.get("path_suffix") or ""
    efmt = fmt if fmt is not None else sfx[1:]
    text = XYZ2 if efmt == "xyz" else mol2_text() if efmt == "mol2" else "garbage"
    kw = {"otype": oarg, "name": name}
    if efmt == "cdxml" and fn in ("load", "load_all"):
        import warnings
        warnings.simplefilter("ignore")
        if w.get("key") not in (None, "None"):
            kw["key"] = "benzene"
        got = outcome(lambda: getattr(ml, fn)(ml.files.parser_demo_cdxml, **({"fmt": fmt} if fmt is not None else {}), **kw))
        print("got     :", norm(got))
        objs = got[1] if isinstance(got[1], list) else [got[1]]
        bad = got[0] != "ok" or (name is not None and any(getattr(o, "name", None) != name for o in objs))
        if not bad and fn == "load":
            # without a key: the first drawn fragment of the file, for every bundled drawing
            import glob
            for f_ in sorted(glob.glob(os.path.join(os.path.dirname(ml.__file__), "files", "*.cdxml"))):
                c_ = ml.CDXMLFile(f_)
                if not c_.xfrags:
                    continue
                try:
                    want_ = ml.Molecule(c_._parse_fragment(c_.xfrags[0], name="zz"))
                    got_ = ml.load(f_, fmt="cdxml", otype="molecule", name="zz")
                    if got_.formula != want_.formula or got_.n_bonds != want_.n_bonds or got_.name != "zz":
                        print(f"REPRODUCED: ml.load({os.path.basename(f_)!r}) without a key gives {got_.formula}, the first drawn fragment is {want_.formula}")
                        sys.exit(0)
                except BaseException as ex_:
                    print(f"REPRODUCED: ml.load({os.path.basename(f_)!r}) without a key raised {type(ex_).__name__}")
                    sys.exit(0)
        if not bad and fn == "load":
            # the same path is loaded again after the file has been rewritten: the answer must come from the new contents
            import shutil
            d = tempfile.mkdtemp()
            p = os.path.join(d, "drawing.cdxml")
            shutil.copy(ml.files.parser_demo_cdxml, p)
            first = ml.load(p, fmt="cdxml", key="benzene", otype="molecule")
            shutil.copy(ml.files.parser_demo2_cdxml if hasattr(ml.files, "parser_demo2_cdxml") else ml.files.charges_mult_cdxml, p)
            old_keys = set(ml.CDXMLFile(ml.files.parser_demo_cdxml).keys())
            new_keys = list(ml.CDXMLFile(p).keys())
            k2 = [k for k in new_keys if k not in old_keys][0]
            try:
                second = ml.load(p, fmt="cdxml", key=k2, otype="molecule")
                want = ml.Molecule(ml.CDXMLFile(p)[k2])
                if second.formula != want.formula:
                    bad = True
                    print("REPRODUCED: a second load of a rewritten cdxml file still answers from the old contents")
                    sys.exit(0)
            except KeyError:
                print("REPRODUCED: a second load of a rewritten cdxml file raises KeyError for a label of the new file (stale parse kept)")
                sys.exit(0)
        print("REPRODUCED: cdxml result does not honour the name override / raised" if bad else "not reproduced")
        sys.exit(0 if bad else 1)
    if fn in ("load", "load_all"):
        d = tempfile.mkdtemp()
        p = os.path.join(d, "w" + (sfx if fmt is None else "." + (fmt or "dat")))
        open(p, "w").write(text)
        if fmt is not None:
            kw["fmt"] = fmt
        got = outcome(lambda: getattr(ml, fn)(p, **kw))
        meth = getattr(T, f"{fn}_{efmt}", None)
        exp = outcome(lambda: meth(open(p), name=name)) if meth else ("exc", "ValueError")
    else:
        got = outcome(lambda: getattr(ml, fn)(text, fmt, **kw))
        meth = getattr(T, f"{fn}_{efmt}", None)
        exp = outcome(lambda: meth(text, name=name)) if meth else ("exc", "ValueError")
    print("got     :", norm(got))
    print("expected:", norm(exp))
    res = norm(got) != norm(exp)
elif fn == "dump":
    cls = getattr(ml, w["objclass"].split(":")[1])
    src = ml.Molecule.loads_xyz(XYZ2.split("2\nsecond")[0], name="first")
    obj = cls(src) if cls is not ml.ConformerEnsemble else ml.ConformerEnsemble(src)
    sfx = w.get("path_suffix") or ""
    kw = {}
    if fmt is not None:
        kw["fmt"] = fmt
    if w.get("mode") not in (None, "default"):
        kw["mode"] = w["mode"]
    if w["target"] in ("stream", "writer"):
        s = io.StringIO()
        if w["target"] == "writer" or True:
            # also a writable object that is not an io.TextIOBase
            class W:
                def __init__(self):
                    self.buf = []

                def write(self, t):
                    self.buf.append(t)
                    return len(t)
            w2 = W()
            g2 = outcome(lambda: ml.dump(obj, w2, **kw))
            e2 = outcome(getattr(obj, f"dumps_{fmt}")) if fmt in ("xyz", "mol2") else ("exc", "ValueError")
            if e2[0] == "ok" and not (g2[0] == "ok" and "".join(w2.buf) == e2[1]):
                print("got     :", g2[:2])
                print("REPRODUCED: dump() into a writable object that is not an io.TextIOBase:", g2[:2])
                sys.exit(0)
        got = outcome(lambda: ml.dump(obj, s, **kw))
        gtxt = s.getvalue() if not s.closed else "<closed>"
        efmt = fmt
    else:
        d = tempfile.mkdtemp()
        p = os.path.join(d, "w" + sfx)
        tgt = p if w["target"] == "str" else __import__("pathlib").Path(p)
        got = outcome(lambda: ml.dump(obj, tgt, **kw))
        gtxt = open(p).read() if os.path.exists(p) else None
        efmt = fmt or sfx[1:]
    meth = getattr(obj, f"dumps_{efmt}", None) if efmt in ("xyz", "mol2") else None
    exp = outcome(meth) if meth else ("exc", "ValueError")
    print("got     :", got[:2], repr(gtxt)[:80])
    print("expected:", exp[:2] if exp[0] == "exc" else ("ok", None), repr(exp[1])[:80] if exp[0] == "ok" else "")
    if exp[0] == "ok":
        res = not (got[0] == "ok" and gtxt == exp[1])
    else:
        res = not (got[0] == "exc" and got[1] == exp[1])
elif fn == "dumps":
    cls = getattr(ml, w["objclass"].split(":")[1])
    src = ml.Molecule.loads_xyz(XYZ2.split("2\nsecond")[0], name="first")
    obj = cls(src) if cls is not ml.ConformerEnsemble else ml.ConformerEnsemble(src)
    got = outcome(lambda: ml.dumps(obj, fmt))
    meth = getattr(obj, f"dumps_{fmt}", None) if fmt in ("xyz", "mol2") else None
    exp = outcome(meth) if meth else ("exc", "ValueError")
    print("got     :", got[:2])
    print("expected:", exp[:2])
    res = (got[:2] != exp[:2]) if exp[0] == "ok" else not (got[0] == "exc" and got[1] == "ValueError")
    # a writer option given to the entry point reaches the class writer (xyz: write_header)
    if not res and fmt in ("xyz", None) or w.get("option"):
        try:
            g_opt = outcome(lambda: ml.dumps(obj, "xyz", write_header=False))
            e_opt = outcome(lambda: obj.dumps_xyz(write_header=False))
            s_opt = io.StringIO()
            d_opt = outcome(lambda: ml.dump(obj, s_opt, fmt="xyz", write_header=False))
            if e_opt[0] == "ok" and (g_opt[:2] != e_opt[:2] or d_opt[0] != "ok" or s_opt.getvalue() != e_opt[1]):
                print("REPRODUCED: ml.dumps/ml.dump(obj, 'xyz', write_header=False) does not return what obj.dumps_xyz(write_header=False) returns")
                sys.exit(0)
        except SystemExit:
            raise
        except BaseException:
            pass

if res:
    print("REPRODUCED: entry point disagrees with the class-level codec")
    sys.exit(0)
print("not reproduced")
sys.exit(1)
