"""Replay / bounded stand-in for C13 on the real CDXML reader (run by /venv/bin/python).
  replay:   C13.py <witness.json>   -> REPRODUCED + exit 0 when the real reader breaks the named clause on a generated drawing
  bounded:  C13.py --bounded <seed> -> every labelled fragment of every bundled drawing: constitution against an independent
                                       ElementTree walk, determinism, wedge<->hash mirroring (constitution kept, handedness of every
                                       non-planar centre inverted).  Bounded: never counted as proved."""
import sys, json, glob, os, re, tempfile, warnings, itertools
import numpy as np
import xml.etree.ElementTree as ET
import molli as ml

warnings.simplefilter("ignore")
MIRROR = {"WedgeBegin": "WedgedHashBegin", "WedgedHashBegin": "WedgeBegin", "WedgeEnd": "WedgedHashEnd", "WedgedHashEnd": "WedgeEnd",
          "Bold": "Hash", "Hash": "Bold"}
RAD = {None: 0, "None": 0, "Doublet": 1, "Singlet": 2, "Triplet": 2}
ORD = {None: 1, "1": 1, "2": 2, "3": 3, "4": 4, "1.5": 20}


def tmpfile(text):
    fd, p = tempfile.mkstemp(suffix=".cdxml", dir=os.environ.get("TMPDIR") or "/dev/shm")
    os.write(fd, text.encode())
    os.close(fd)
    return p


def gen_doc(nodes, bonds, label="k1"):
    """a minimal one-fragment drawing: nodes = list of attribute dicts, bonds = list of attribute dicts"""
    def attrs(d):
        return " ".join(f'{k}="{v}"' for k, v in d.items() if v is not None)
    ns = "\n".join(f"<n {attrs(n)}/>" for n in nodes)
    bs = "\n".join(f"<b {attrs(b)}/>" for b in bonds)
    return (f'<?xml version="1.0"?><CDXML BondLength="14.4"><page id="1">'
            f'<fragment id="5" BoundingBox="0 0 40 40">{ns}{bs}</fragment>'
            f'<t id="90" p="20 80" BoundingBox="10 70 30 90"><s face="1">{label}</s></t></page></CDXML>')


# ------------------------------------------------------------------------------------------------ constitution oracle
def oracle(frag):
    """independent walk: (number of atoms, multiset of bonds as (order code), total charge, total radical electrons, has_hapto)"""
    nodes = [n for n in frag.findall("./n") if n.get("NodeType") != "MultiAttachment"]
    multi = {n.get("id") for n in frag.findall("./n") if n.get("NodeType") == "MultiAttachment"}
    bonds = frag.findall("./b")
    hapto = bool(multi)
    n_atoms = len(nodes)
    n_bonds = sum(1 for b in bonds if b.get("B") not in multi and b.get("E") not in multi)
    charge = sum(int(n.get("Charge", 0)) for n in nodes)
    rad = sum(RAD.get(n.get("Radical"), 0) for n in nodes)
    orders = sorted((98 if b.get("Display") == "Dash" else ORD.get(b.get("Order"), -1)) for b in bonds if b.get("B") not in multi and b.get("E") not in multi)
    iso = sorted(int(n.get("Isotope")) for n in nodes if n.get("Isotope"))
    for n in nodes:
        sub = n.find("./fragment")
        if sub is not None:
            a, b, c, r, o, i2, h = oracle(sub)
            # join removes the two attachment points and adds one bond in place of the two it removes
            n_atoms += a - 2
            n_bonds += b - 1
            charge += c
            rad += r
            orders = None            # bond orders across a join are not tracked by this oracle
            iso += i2
            hapto = hapto or h
    return n_atoms, n_bonds, charge, rad, orders, sorted(iso), hapto


def constitution(m):
    return (m.n_atoms, m.n_bonds, tuple(int(a.element) for a in m.atoms), tuple(sorted((min(m.get_atom_index(b.a1), m.get_atom_index(b.a2)),
            max(m.get_atom_index(b.a1), m.get_atom_index(b.a2)), int(b.btype)) for b in m.bonds)), m.charge, m.mult)


def handedness(m, tol=0.05):
    """sign of the signed volume at every atom with >= 3 neighbours (0 = planar within tol)"""
    out = {}
    for i, a in enumerate(m.atoms):
        nb = sorted(m.get_atom_index(x) for x in m.connected_atoms(a))
        if len(nb) < 3:
            continue
        v = [m.coords[j] - m.coords[i] for j in nb[:3]]
        v = [x / (np.linalg.norm(x) or 1) for x in v]
        vol = float(np.dot(v[0], np.cross(v[1], v[2])))
        if len(nb) >= 4:
            w = [m.coords[j] - m.coords[i] for j in nb[1:4]]
            w = [x / (np.linalg.norm(x) or 1) for x in w]
            vol2 = float(np.dot(w[0], np.cross(w[1], w[2])))
        else:
            vol2 = 0.0
        out[i] = (0 if abs(vol) < tol else int(np.sign(vol)), 0 if abs(vol2) < tol else int(np.sign(vol2)))
    return out


def mirror_text(text):
    return re.sub(r'Display="(\w+)"', lambda mm: f'Display="{MIRROR.get(mm.group(1), mm.group(1))}"', text)


def bounded(seed):
    vio, n_frag, n_centres, n_skipped_hapto = [], 0, 0, 0
    files = sorted(glob.glob(os.path.join(os.path.dirname(ml.__file__), "files", "*.cdxml")))
    for f in files:
        base = os.path.basename(f)
        text = open(f, encoding="utf8", errors="replace").read()
        c1, c2 = ml.CDXMLFile(f), ml.CDXMLFile(f)
        pm = tmpfile(mirror_text(text))
        cm = ml.CDXMLFile(pm)
        try:
            for key in c1.keys():
                n_frag += 1
                try:
                    m1, m2, mm = c1[key], c2[key], cm[key]
                except Exception as e:
                    vio.append({"signature": f"parse:{base}:{key}", "what": f"{base}[{key!r}] raised {type(e).__name__}"})
                    continue
                frag = c1.xfrag_cache[key]
                a, b, q, r, orders, iso, hapto = oracle(frag)
                if hapto:
                    n_skipped_hapto += 1
                    continue
                if m1.n_atoms != a or m1.n_bonds != b:
                    vio.append({"signature": f"constitution:{base}:{key}", "what": f"{base}[{key!r}]: {m1.n_atoms} atoms / {m1.n_bonds} bonds, drawing has {a} / {b}"})
                if m1.charge != q or m1.mult != r + 1:
                    vio.append({"signature": f"charge-mult:{base}:{key}", "what": f"{base}[{key!r}]: charge {m1.charge} mult {m1.mult}, drawing has {q} / {r + 1}"})
                if orders is not None and sorted(int(x.btype) for x in m1.bonds) != orders:
                    vio.append({"signature": f"orders:{base}:{key}", "what": f"{base}[{key!r}]: bond orders differ from the drawing"})
                if sorted(int(x.isotope) for x in m1.atoms if x.isotope is not None) != iso:
                    vio.append({"signature": f"isotopes:{base}:{key}", "what": f"{base}[{key!r}]: isotopes differ from the drawing"})
                # determinism and stable label resolution
                if constitution(m1) != constitution(m2) or not np.allclose(m1.coords, m2.coords, atol=1e-9):
                    vio.append({"signature": f"determinism:{base}:{key}", "what": f"{base}[{key!r}]: two parses of the same file differ"})
                m1b = c1[key]
                if constitution(m1b) != constitution(m1) or not np.allclose(m1b.coords, m1.coords, atol=1e-9):
                    vio.append({"signature": f"determinism:{base}:{key}", "what": f"{base}[{key!r}]: the same label resolved differently the second time"})
                # mirroring
                if constitution(mm) != constitution(m1):
                    vio.append({"signature": f"mirror-constitution:{base}:{key}", "what": f"{base}[{key!r}]: mirroring the stereo marks changed the constitution"})
                    continue
                h1, h2 = handedness(m1), handedness(mm)
                for i in h1:
                    for s1, s2 in zip(h1[i], h2[i]):
                        if s1 != 0 or s2 != 0:
                            n_centres += 1
                            if s1 != -s2:
                                vio.append({"signature": f"handedness:{base}:{key}", "what": f"{base}[{key!r}]: centre {i} ({m1.atoms[i].element.symbol}) keeps handedness {s1}/{s2} under wedge<->hash"})
                                break
                    else:
                        continue
                    break
        finally:
            os.unlink(pm)
    seen, uniq = set(), []
    for v in vio:
        if v["signature"] not in seen:
            seen.add(v["signature"])
            uniq.append(v)
    return {"explored": {"files": len(files), "labelled fragments": n_frag, "hapto fragments excluded": n_skipped_hapto, "non-planar centre tests": n_centres}, "violations": uniq}


if __name__ == "__main__":
    if sys.argv[1] == "--bounded":
        print(json.dumps(bounded(int(sys.argv[2]) if len(sys.argv) > 2 else 0)))
        sys.exit(0)
    doc = json.load(open(sys.argv[1]))
    w = doc["witness"]
    bad = []
    op = w.get("op")
    if op == "atom":
        node = {"id": "1", "p": "10 10", "Element": w.get("Element"), "Isotope": w.get("Isotope"), "Charge": w.get("Charge"), "Radical": w.get("Radical"),
                "NumHydrogens": w.get("NumHydrogens"), "AtomNumber": w.get("AtomNumber"), "NodeType": w.get("NodeType")}
        p = tmpfile(gen_doc([node, {"id": "2", "p": "24 10"}], [{"id": "3", "B": "1", "E": "2"}]))
        try:
            m = ml.CDXMLFile(p)["k1"]
            a = m.atoms[0]
            if int(a.element) != int(w.get("Element") or 6):
                bad.append(f"element {a.element!r} for drawn Element={w.get('Element')}")
            if (a.isotope or None) != (int(w["Isotope"]) if w.get("Isotope") else None):
                bad.append(f"isotope {a.isotope} for drawn {w.get('Isotope')}")
            if a.formal_charge != int(w.get("Charge") or 0):
                bad.append(f"formal charge {a.formal_charge} for drawn {w.get('Charge')}")
            if a.formal_spin != RAD[w.get("Radical")]:
                bad.append(f"Radical={w.get('Radical')!r} read as {a.formal_spin} radical electrons (drawn: {RAD[w.get('Radical')]}); multiplicity {m.mult}")
            if m.mult != RAD[w.get("Radical")] + 1 or m.charge != int(w.get("Charge") or 0):
                bad.append(f"molecule charge/mult {m.charge}/{m.mult}")
        finally:
            os.unlink(p)
    elif op == "bond":
        p = tmpfile(gen_doc([{"id": "1", "p": "10 10"}, {"id": "2", "p": "24 10"}, {"id": "3", "p": "31 22"}],
                            [{"id": "4", "B": "1", "E": "2", "Order": w.get("Order"), "Display": w.get("Display")}, {"id": "5", "B": "3", "E": "2"}]))
        try:
            m = ml.CDXMLFile(p)["k1"]
            exp = 98 if w.get("Display") == "Dash" else ORD[w.get("Order")]
            b = m.bonds[0]
            if int(b.btype) != exp or {m.get_atom_index(b.a1), m.get_atom_index(b.a2)} != {0, 1} or m.n_bonds != 2 or m.n_atoms != 3:
                bad.append(f"bond Order={w.get('Order')} Display={w.get('Display')} read as {b.btype!r} between {m.get_atom_index(b.a1)},{m.get_atom_index(b.a2)}; {m.n_atoms} atoms {m.n_bonds} bonds")
        finally:
            os.unlink(p)
    elif op == "fragment":
        d1, d2 = w.get("d1"), w.get("d2")
        res = []
        for disp in ((d1, d2), (MIRROR.get(d1, d1), MIRROR.get(d2, d2))):
            p = tmpfile(gen_doc([{"id": "1", "p": "10 10", "Charge": "1"}, {"id": "2", "p": "24 10", "Radical": "Doublet"}, {"id": "3", "p": "31 22", "Charge": "-2"},
                                 {"id": "4", "p": "24 -4"}],
                                [{"id": "10", "B": "1", "E": "2", "Display": disp[0]}, {"id": "11", "B": "3", "E": "2", "Display": disp[1]}, {"id": "12", "B": "4", "E": "2"}]))
            try:
                res.append(ml.CDXMLFile(p)["k1"])
            finally:
                os.unlink(p)
        m, mm = res
        if m.n_atoms != 4 or m.n_bonds != 3:
            bad.append(f"{m.n_atoms} atoms / {m.n_bonds} bonds for a drawing with 4 nodes / 3 bonds")
        if m.charge != -1 or m.mult != 2:
            bad.append(f"charge/mult {m.charge}/{m.mult}, drawn -1/2")
        if m.name != "k1":
            bad.append(f"name {m.name!r}")
        if constitution(m) != constitution(mm):
            bad.append("mirroring changed the constitution")
        h1, h2 = handedness(m), handedness(mm)
        for i in h1:
            if any(s1 != -s2 for s1, s2 in zip(h1[i], h2[i])):
                bad.append(f"centre {i} handedness {h1[i]} vs mirrored {h2[i]}")
    elif op == "getitem":
        text = ('<?xml version="1.0"?><CDXML BondLength="14.4"><page id="1">'
                '<fragment id="5" BoundingBox="0 0 40 40"><n id="1" p="10 10"/><n id="2" p="24 10"/><b id="3" B="1" E="2"/></fragment>'
                '<fragment id="6" BoundingBox="100 0 140 40"><n id="7" p="110 10" Element="8"/><n id="8" p="124 10"/><b id="9" B="7" E="8"/></fragment>'
                '<t id="90" p="20 80" BoundingBox="10 70 30 90"><s face="1">k1</s></t>'
                '<t id="91" p="120 80" BoundingBox="110 70 130 90"><s face="1">k2</s></t>'
                '<t id="92" p="120 95" BoundingBox="110 90 130 100"><s face="1">k1</s></t></page></CDXML>')      # the text "k1" a second time
        p = tmpfile(text)
        try:
            c = ml.CDXMLFile(p)
            a, b, a2, k0 = c["k1"], c["k2"], c["k1"], c[0]
            if constitution(a) != constitution(a2) or constitution(k0) != constitution(a) or a.name != "k1":
                bad.append("the same label resolved to different fragments")
            if [int(x.element) for x in a.atoms] != [6, 6] or [int(x.element) for x in b.atoms] != [8, 6]:
                bad.append(f"labels resolved to the wrong fragments: k1->{a.formula} k2->{b.formula}")
        finally:
            os.unlink(p)
    if bad:
        print("REPRODUCED:", bad[0])
        sys.exit(0)
    print("not reproduced")
    sys.exit(1)
