"""Replay / bounded stand-in for C19 on the real code (run by /venv/bin/python).
  replay:   C19.py <witness.json>        -> prints REPRODUCED, exit 0 when the real code breaks the named clause
  bounded:  C19.py --bounded <seed>      -> differential run of the compiled kernels and the grid descriptors against float64 numpy;
                                             prints a json summary line.  Bounded: never counted as proved."""
import sys, os, json, itertools
import numpy as np
import molli as ml
from molli.descriptor import gridbased as G

BAND = 2e-4      # float32 rounding band around sphere surfaces / cut-offs (excluded from comparisons, as the property states)


def mk_struct(rng, n, cls=ml.Molecule):
    m = cls(n_atoms=n)
    els = [1, 6, 7, 8, 9, 15, 16, 17, 11, 14, 19, 50]          # incl. atoms whose van der Waals radius exceeds 2 A
    for a in m.atoms:
        a.element = ml.Element.get(int(rng.choice(els)))
    m.coords = rng.uniform(-3, 3, size=(n, 3))
    return m


def mk_ens(rng, n, nc):
    e = ml.ConformerEnsemble(mk_struct(rng, n), n_conformers=nc)
    e._coords = rng.uniform(-3, 3, size=(nc, n, 3))
    e._atomic_charges = rng.uniform(-1, 1, size=(nc, n))
    e._weights = rng.uniform(0.1, 1, size=(nc,))
    return e


def ref_d2(a, b):
    a = np.asarray(a, dtype=np.float64)
    b = np.asarray(b, dtype=np.float64)
    return ((a[..., :, None, :] - b[None, :, :]) ** 2).sum(-1)


def nearest_violations(grid, coords, max_dist, got, what):
    """got[i] must be the closest atom within max_dist, else -1 (ties / band excluded)"""
    out = []
    d = np.sqrt(ref_d2(coords, grid)).T if len(coords) else np.zeros((len(grid), 0))       # (ng, na)
    for g in range(len(grid)):
        if d.shape[1] == 0:
            exp = -1
        else:
            order = np.argsort(d[g])
            dmin = d[g, order[0]]
            if abs(dmin - max_dist) < BAND or (len(order) > 1 and d[g, order[1]] - dmin < BAND):
                continue
            exp = int(order[0]) if dmin <= max_dist else -1
        if int(got[g]) != exp:
            out.append(f"{what}: grid point {g} nearest atom {exp} (d={d[g].min() if d.shape[1] else None}, cut-off {max_dist}) but got {int(got[g])}")
            break
    return out


def check_nearest(rng, kind, max_dist):
    grid = rng.uniform(-4, 4, size=(int(rng.integers(0, 12)), 3))
    if kind == "geometry":
        s = mk_struct(rng, int(rng.integers(1, 6)) if rng.random() < 0.5 else int(rng.integers(12, 40)))
        got = G.nearest_atom_index(grid, s, max_dist=max_dist)
        if got.shape != (len(grid),):
            return [f"nearest_atom_index(geometry) shape {got.shape}"]
        return nearest_violations(grid, s.coords, max_dist, got, f"nearest_atom_index(geometry, max_dist={max_dist})")
    e = mk_ens(rng, int(rng.integers(1, 6)) if rng.random() < 0.5 else int(rng.integers(12, 40)), int(rng.integers(1, 4)))
    got = G.nearest_atom_index(grid, e, max_dist=max_dist)
    if got.shape != (e.n_conformers, len(grid)):
        return [f"nearest_atom_index(ensemble) shape {got.shape}"]
    out = []
    for c in range(e.n_conformers):
        out += nearest_violations(grid, e._coords[c], max_dist, got[c], f"nearest_atom_index(ensemble conformer {c}, max_dist={max_dist})")
    return out


def check_prune(rng, kind, max_dist, eps):
    grid = rng.uniform(-5, 5, size=(int(rng.integers(0, 30)), 3))
    if kind == "geometry":
        s = mk_struct(rng, int(rng.integers(1, 6)))
        pts = s.coords
        kept = G.prune(grid, s, max_dist=max_dist, eps=eps)
    else:
        e = mk_ens(rng, int(rng.integers(1, 5)), int(rng.integers(1, 4)))
        pts = e._coords.reshape(-1, 3)
        kept = G.prune(grid, e, max_dist=max_dist, eps=eps)
    kept = set(int(i) for i in np.asarray(kept).ravel())
    d = np.sqrt(ref_d2(pts, grid)).min(axis=0) if len(grid) else np.zeros(0)
    for g in range(len(grid)):
        if g in kept and d[g] > max_dist + BAND:
            return [f"prune({kind}, max_dist={max_dist}, eps={eps}) kept grid point {g} at distance {d[g]:.4f} > cut-off"]
        if g not in kept and d[g] < max_dist / (1 + eps) - BAND:
            return [f"prune({kind}, max_dist={max_dist}, eps={eps}) dropped grid point {g} at distance {d[g]:.4f} < cut-off/(1+eps)"]
    return []


def check_kernels(rng):
    import molli_xt
    out = []
    n = downcast = 0
    for (na, nb) in itertools.product(range(0, 6), range(0, 6)):
        for dt, fns2, fns3 in ((np.float32, ("cdist22f_eu", "cdist22f_eu2"), ("cdist32f_eu", "cdist32f_eu2")),
                               (np.float64, ("cdist22_eu", "cdist22_eu2"), ("cdist32_eu", "cdist32_eu2"))):
            for layout in ("contiguous", "transposed", "strided"):
                a = rng.uniform(-5, 5, size=(na, 3))
                b = rng.uniform(-5, 5, size=(nb, 3))
                nc = int(rng.integers(1, 4))
                a3 = rng.uniform(-5, 5, size=(nc, na, 3))
                if layout == "transposed":
                    A = np.asfortranarray(a.astype(dt))
                    B = np.asfortranarray(b.astype(dt))
                    A3 = np.asfortranarray(a3.astype(dt))
                elif layout == "strided":
                    A = np.repeat(a.astype(dt), 2, axis=0)[::2]
                    B = np.repeat(b.astype(dt), 2, axis=0)[::2]
                    A3 = np.repeat(a3.astype(dt), 2, axis=1)[:, ::2]
                else:
                    A, B, A3 = a.astype(dt), b.astype(dt), a3.astype(dt)
                for fn, sq in zip(fns2, (False, True)):
                    f = getattr(molli_xt, fn, None)
                    if f is None:
                        continue
                    n += 1
                    got = f(A, B)
                    exp = ref_d2(A, B) if sq else np.sqrt(ref_d2(A, B))
                    tol = 1e-4 if got.dtype == np.float32 else 1e-10
                    downcast += int(got.dtype != A.dtype)
                    if got.shape != exp.shape or not np.allclose(got, exp, rtol=tol, atol=tol):
                        out.append({"signature": f"kernel:{fn}", "what": f"{fn} on shapes {A.shape}x{B.shape} ({layout}) differs from numpy (max {np.abs(got - exp).max() if got.shape == exp.shape and got.size else got.shape})"})
                for fn, sq in zip(fns3, (False, True)):
                    f = getattr(molli_xt, fn, None)
                    if f is None:
                        continue
                    n += 1
                    got = f(A3, B)
                    exp = ref_d2(A3, B) if sq else np.sqrt(ref_d2(A3, B))
                    tol = 1e-4 if got.dtype == np.float32 else 1e-10
                    downcast += int(got.dtype != A3.dtype)
                    if got.shape != exp.shape or not np.allclose(got, exp, rtol=tol, atol=tol):
                        out.append({"signature": f"kernel:{fn}", "what": f"{fn} on shapes {A3.shape}x{B.shape} ({layout}) differs from numpy"})
    return n, downcast, out


def ref_aso(e, grid, weighted):
    r = np.array([a.vdw_radius for a in e.atoms], dtype=np.float64)
    d2 = ref_d2(e._coords, grid)                       # (nc, na, ng)
    occ = (d2 <= (r ** 2)[None, :, None]).any(axis=1).astype(np.float64)
    near = np.abs(np.sqrt(d2) - r[None, :, None]).min(axis=(0, 1)) < BAND if d2.size else np.zeros(len(grid), dtype=bool)
    return np.average(occ, axis=0, weights=e._weights if weighted else None), near


def ref_aeif(e, grid, weighted):
    r = np.array([a.vdw_radius for a in e.atoms], dtype=np.float64)
    d = np.sqrt(ref_d2(e._coords, grid))               # (nc, na, ng)
    nc, na, ng = d.shape
    field = np.zeros((nc, ng))
    amb = np.zeros(ng, dtype=bool)
    for c in range(nc):
        for g in range(ng):
            order = np.argsort(d[c, :, g])
            j = order[0]
            inside = (d[c, :, g] <= r).any()
            if np.abs(d[c, :, g] - r).min() < BAND or abs(d[c, j, g] - r.max()) < BAND or (na > 1 and d[c, order[1], g] - d[c, j, g] < BAND):
                amb[g] = True
            # indicator: charge of the nearest atom (within the largest vdW radius) at points inside some vdW sphere
            if inside and d[c, j, g] <= r.max():
                field[c, g] = e._atomic_charges[c, j]
    return np.average(field, axis=0, weights=e._weights if weighted else None), amb


def check_fields(rng):
    out = []
    e = mk_ens(rng, int(rng.integers(1, 6)), int(rng.integers(1, 4)))
    grid = rng.uniform(-4, 4, size=(int(rng.integers(1, 40)), 3)).astype(np.float32)      # >= 1 point: numpy.average itself raises on zero-size unweighted input
    for weighted in (False, True):
        got = G.aso(e, grid, weighted=weighted)
        exp, near = ref_aso(e, grid, weighted)
        if got.shape != exp.shape or not np.allclose(got[~near], exp[~near], atol=1e-6):
            out.append({"signature": "aso", "what": f"aso(weighted={weighted}) differs from the conformer-averaged vdW occupancy"})
        got = G.aeif(e, grid, weighted=weighted)
        exp, amb = ref_aeif(e, grid, weighted)
        if got.shape != exp.shape or not np.allclose(got[~amb], exp[~amb], atol=1e-6):
            out.append({"signature": "aeif", "what": f"aeif(weighted={weighted}) differs from the conformer-averaged nearest-atom charge indicator"})
    return out


def check_grid(rng, given=None):
    out = []
    if given is not None:
        lo, hi, pad, sp = given
        lo, hi = np.array(lo, dtype=float), np.array(hi, dtype=float)
    else:
        lo = rng.uniform(-5, 0, size=3)
        hi = lo + rng.uniform(0, 6, size=3)
        pad, sp = float(rng.uniform(0, 2)), float(rng.uniform(0.3, 2.5))
    g = G.rectangular_grid(lo, hi, padding=pad, spacing=sp, dtype="float64")
    l, r = lo - pad, hi + pad
    ns = [int(np.floor((r[k] - l[k]) / sp)) + 1 for k in range(3)]
    if g.shape != (ns[0] * ns[1] * ns[2], 3):
        return [{"signature": "grid:count", "what": f"rectangular_grid gave {g.shape[0]} points, lattice has {ns}"}]
    if len(np.unique(np.round(g, 9), axis=0)) != len(g):
        out.append({"signature": "grid:full", "what": "rectangular_grid repeats lattice points"})
    for k in range(3):
        ax = np.unique(np.round(g[:, k], 9))
        if len(ax) != ns[k]:
            out.append({"signature": "grid:full", "what": f"axis {k} has {len(ax)} levels, expected {ns[k]}"})
            continue
        if len(ax) > 1 and not np.allclose(np.diff(ax), sp, atol=1e-7):
            out.append({"signature": "grid:spacing", "what": f"axis {k} spacing {np.diff(ax)[:3]} is not {sp}"})
        if ax[0] < l[k] - 1e-9 or ax[-1] > r[k] + 1e-9:
            out.append({"signature": "grid:contained", "what": f"axis {k} leaves the padded box"})
        if abs((ax[0] - l[k]) - (r[k] - ax[-1])) > 1e-7:
            out.append({"signature": "grid:centred", "what": f"axis {k} is not centred"})
    return out


if sys.argv[1] == "--bounded":
    seed = int(sys.argv[2]) if len(sys.argv) > 2 else 0
    rng = np.random.default_rng(seed)
    nk, ndown, vio = check_kernels(rng)
    nf = ng = nn = 0
    def guarded(sig, f, *a):
        # an exception escaping from the library on a valid input is itself a violation (the functions are total on these inputs)
        try:
            return list(f(*a))
        except BaseException as ex:
            import traceback
            where = traceback.extract_tb(ex.__traceback__)[-1]
            return [{"signature": f"{sig}/raised", "what": f"{sig} raised {type(ex).__name__}: {str(ex)[:80]} ({os.path.basename(where.filename)}:{where.lineno})"}]
    for _ in range(60):
        vio += guarded("aso/aeif", check_fields, rng)
        nf += 1
    for _ in range(60):
        vio += guarded("rectangular_grid", check_grid, rng)
        ng += 1
    for _ in range(60):
        for kind in ("geometry", "ensemble"):
            md = float(rng.uniform(0.5, 4))
            for msg in guarded(f"nearest_atom_index/{kind}", check_nearest, rng, kind, md):
                vio.append(msg if isinstance(msg, dict) else {"signature": f"nearest_atom_index/{kind}", "what": msg})
            for msg in guarded(f"prune/{kind}", check_prune, rng, kind, md, float(rng.uniform(0, 1))):
                vio.append(msg if isinstance(msg, dict) else {"signature": f"prune/{kind}", "what": msg})
            nn += 1
    seen, uniq = set(), []
    for v in vio:
        if v["signature"] not in seen:
            seen.add(v["signature"])
            uniq.append(v)
    print(json.dumps({"explored": {"kernel calls": nk, "kernel calls answered in float32 for float64 non-C-contiguous input (pybind11 overload order; compared at float32 tolerance)": ndown, "aso/aeif ensembles": nf, "grids": ng, "nearest/prune cases": nn}, "violations": uniq}))
    sys.exit(0)

doc = json.load(open(sys.argv[1]))
w = doc["witness"]
rng = np.random.default_rng(7)
bad = []
op, kind = w.get("op"), w.get("argument")
for md in (float(w.get("max_dist", 3.0)), 0.7, 1.3, 3.5):
    for _ in range(40):
        if op == "nearest_atom_index":
            bad += check_nearest(rng, kind, md)
        elif op == "prune":
            bad += check_prune(rng, kind, md, 0.25)
        if bad:
            break
    if bad:
        break
if op == "rectangular_grid":
    try:
        given = ([float(x) for x in w["lo"]], [float(x) for x in w["hi"]], float(w["padding"]), float(w["spacing"]))
        if given[3] > 0 and given[2] >= 0 and all(h >= l for l, h in zip(given[0], given[1])):
            bad += [v["what"] + f" (lo={given[0]}, hi={given[1]}, padding={given[2]}, spacing={given[3]})" for v in check_grid(rng, given)]
    except (KeyError, TypeError, ValueError):
        pass
    for _ in range(200 if not bad else 0):
        bad += [v["what"] for v in check_grid(rng)]
        if bad:
            break
if bad:
    print("REPRODUCED:", bad[0])
    sys.exit(0)
print("not reproduced")
sys.exit(1)
