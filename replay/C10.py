"""Replay for C10 on the real readers: apply the line-level damage of the witness (or, with --search, every member of the
damage family incl. truncation at every byte of the last record) to real mol2/xyz text and check the clauses.
Exit 0 + 'REPRODUCED' when a damaged input is accepted as a partial / wrong molecule."""
import sys, json, signal
import numpy as np
import molli as ml

search = sys.argv[1] == "--search"
BOUNDED = sys.argv[1] == "--bounded"
doc = {} if (search or BOUNDED) else json.load(open(sys.argv[1]))
w = doc.get("witness") or {}


def ens():
    e = ml.ConformerEnsemble.load_mol2(ml.files.pentane_confs_mol2)
    for b in e.bonds:
        b.btype = ml.BondType.Double          # not the type a lenient reader would fill in for a missing token
    return e


def summarize(ms):
    return [(m.n_atoms, getattr(m, "n_bonds", 0), [int(a.element) for a in m.atoms], np.round(m.coords, 5).tolist(),
             [(m.get_atom_index(b.a1), m.get_atom_index(b.a2), int(b.btype)) for b in getattr(m, "bonds", [])]) for m in ms]


def is_num(t):
    try:
        float(t)
        return True
    except ValueError:
        return False


def damaged(lines, kind, k):
    if isinstance(kind, tuple):          # ("token", token index, replacement)
        toks = lines[k].split()
        if kind[1] >= len(toks) or (is_num(kind[2]) and is_num(toks[kind[1]])) or toks[kind[1]] == kind[2]:
            return lines
        toks[kind[1]] = kind[2]
        return lines[:k] + [" ".join(toks) + "\n"] + lines[k + 1:]
    if kind == "truncate":
        return lines[:k]
    if isinstance(kind, str) and kind.startswith("cut"):       # the text ends inside line k after its first j tokens
        j = int(kind[3:])
        toks = lines[k].split()
        if j >= len(toks):
            return lines
        return lines[:k] + [" ".join(toks[:j])]
    if kind == "delete":
        return lines[:k] + lines[k + 1:]
    return lines[:k + 1] + [lines[k]] + lines[k + 1:]


def check(fmt, kind, k, e, text, ref):
    lines = text.splitlines(keepends=True)
    if k >= len(lines):
        return None
    t = "".join(damaged(lines, kind, k))
    # the parser level: every block handed out has the records its count line declares
    signal.alarm(20)
    try:
        from io import StringIO
        import molli.parsing as mp
        blocks = list(getattr(mp, f"read_{fmt}")(StringIO(t)))
        signal.alarm(0)
        for j, b in enumerate(blocks):
            hdr = b.header if fmt == "mol2" else b
            if len(b.atoms) != hdr.n_atoms or (fmt == "mol2" and len(b.bonds) != hdr.n_bonds):
                return f"{fmt}: after {kind} at line {k} read_{fmt} handed out block {j} with {len(b.atoms)} atom records, its count line declares {hdr.n_atoms}"
    except TimeoutError:
        return f"{fmt}: read_{fmt} did not terminate on {kind} of line {k}"
    except BaseException:
        signal.alarm(0)
    signal.alarm(20)
    try:
        got = summarize(getattr(ml.Molecule, f"loads_all_{fmt}")(t))
    except BaseException as ex:
        signal.alarm(0)
        if isinstance(ex, TimeoutError):
            return f"{fmt}: reader did not terminate on {kind} of line {k}"
        return None
    signal.alarm(0)
    for j, g in enumerate(got):
        if j < len(ref) and g != ref[j] and kind != "duplicate":
            return f"{fmt}: after {kind} at line {k} molecule {j} differs from the undamaged file (atoms {g[0]}/{ref[j][0]}, bonds {g[1]}/{ref[j][1]})"
        if g[0] != ref[0][0] or g[1] != ref[0][1]:
            return f"{fmt}: after {kind} at line {k} molecule {j} has {g[0]} atoms / {g[1]} bonds instead of the declared {ref[0][0]} / {ref[0][1]}"
    return None


def _to(*a):
    raise TimeoutError()


signal.signal(signal.SIGALRM, _to)
if BOUNDED:
    # bounded stand-in (real readers, CPython, wall-clock limit per call): line-level damage at EVERY line of a bundled 7-conformer file and
    # token corruption of its first records, including very long tokens (the readers terminate on every input)
    e = ens()
    vio, n = [], 0
    for fmt in ("mol2", "xyz"):
        text = getattr(e, f"dumps_{fmt}")()
        ref = summarize(getattr(ml.Molecule, f"loads_all_{fmt}")(text))
        nl = len(text.splitlines())
        per = nl // e.n_conformers
        fam = [(kd, k) for kd in ("truncate", "delete", "duplicate") for k in range(nl)]
        fam += [(f"cut{j}", k) for k in range(0, 2 * per) for j in range(1, 9)]
        long_tokens = ("9" * 40 + "x", "1" * 60, "-" + "0" * 50 + ".5e", "A" * 5000, "7" * 25 + " " * 3 + "z")
        fam += [(("token", j, new), k) for k in range(0, per + 3) for j in range(0, 9) for new in long_tokens + ("Xq", "-1.5e", "??")]
        for kd, k in fam:
            n += 1
            r = check(fmt, kd, k, e, text, ref)
            if r:
                sig = "termination" if "terminate" in r else ("parser-blocks" if "handed out block" in r else ("same-content" if "differs" in r else "declared-counts"))
                if f"{fmt}/{sig}" not in [v["signature"] for v in vio]:
                    vio.append({"signature": f"{fmt}/{sig}", "what": r})
    print(json.dumps({"explored": {"damaged texts parsed": n}, "violations": vio}))
    sys.exit(0)
if w.get("op") == "undecodable-byte":
    # one byte of a coordinate token destroyed (0xff is not valid UTF-8): the file must be rejected, not read with other numbers
    import tempfile, os
    e = ens()
    for fmt in ("xyz", "mol2"):
        raw = getattr(e, f"dumps_{fmt}")().encode()
        ref = summarize(getattr(ml.Molecule, f"loads_all_{fmt}")(raw.decode()))
        pos = [i for i, c in enumerate(raw) if c in b"-0123456789"]
        for at in pos[len(pos) // 3::max(1, len(pos) // 40)]:
            p_ = os.path.join(tempfile.mkdtemp(), "d." + fmt)
            open(p_, "wb").write(raw[:at] + b"\xff" + raw[at + 1:])
            for cls, entry in ((ml.Molecule, "load_all"), (ml.Molecule, "load"), (ml.ConformerEnsemble, "load")):
                try:
                    r = getattr(cls, f"{entry}_{fmt}")(p_)
                    r = list(r) if entry == "load_all" else [r]
                except BaseException:
                    continue
                # accepted: then what was read must be what the undamaged file holds (a reader that stops before the damaged
                # byte has not seen it)
                got = summarize(r if cls is ml.Molecule else [c_ for c_ in r[0]])
                if got != ref[:len(got)]:
                    print(f"REPRODUCED: {cls.__name__}.{entry}_{fmt} accepted a file with an undecodable byte at offset {at} and returned other content than the undamaged file holds")
                    sys.exit(0)
    print("not reproduced")
    sys.exit(1)
if w.get("op") == "bond-records":
    # an undamaged file: every BOND record is a bond of the molecule, whatever its type token
    for bt in ml.BondType:
        m = ml.Molecule.load_mol2(ml.files.benzene_mol2) if hasattr(ml.files, "benzene_mol2") else ens()[0]
        m = ml.Molecule(m)
        m.bonds[0].btype = bt
        try:
            txt = m.dumps_mol2()
            r = ml.Molecule.loads_all_mol2(txt)
        except BaseException:
            continue
        if any(x.n_bonds != m.n_bonds or x.n_atoms != m.n_atoms for x in r):
            print(f"REPRODUCED: a molecule with a {bt.name} bond is written with {m.n_bonds} bond records and read back with {[x.n_bonds for x in r]} bonds")
            sys.exit(0)
    print("not reproduced")
    sys.exit(1)
if w.get("op") == "attr-truncation":
    t = ("@<TRIPOS>MOLECULE\nattrmol\n2 1 0 0 0\nSMALL\nNO_CHARGES\n\n@<TRIPOS>ATOM\n1 C1 0.0 0.0 0.0 C.3 1 UNL 0.0\n2 O1 1.2 0.0 0.0 O.3 1 UNL 0.0\n"
         "@<TRIPOS>BOND\n1 1 2 1\n@<TRIPOS>UNITY_ATOM_ATTR\n1 1\ncharge 0\n2 2\ncharge -1\nnote x\n@<TRIPOS>UNITY_BOND_ATTR\n1 1\norder 1\n")
    ls = t.splitlines(keepends=True)
    for k in range(len(ls) + 1):
        signal.alarm(5)
        try:
            r = ml.Molecule.loads_all_mol2("".join(ls[:k]))
            signal.alarm(0)
            if any(m.n_atoms != 2 or m.n_bonds != 1 for m in r):
                print(f"REPRODUCED: text with attribute records cut after line {k} returned a partial molecule")
                sys.exit(0)
            if k > ls.index("@<TRIPOS>UNITY_ATOM_ATTR\n") and any("note" not in m.atoms[1].attrib for m in r):
                print(f"REPRODUCED: text with attribute records cut after line {k} returned a molecule without the attributes the text assigns")
                sys.exit(0)
        except TimeoutError:
            print(f"REPRODUCED: the mol2 reader does not terminate on a text with attribute records cut after line {k}")
            sys.exit(0)
        except SystemExit:
            raise
        except BaseException:
            signal.alarm(0)
    print("not reproduced")
    sys.exit(1)
e = ens()
bad = []
for fmt in ([w.get("format")] if w.get("format") else ["mol2", "xyz"]):
    text = getattr(e, f"dumps_{fmt}")()
    lines_of = text.splitlines()
    ref = summarize(getattr(ml.Molecule, f"loads_all_{fmt}")(text))
    n = len(text.splitlines())
    per = n // e.n_conformers
    if w.get("kind") == "token":
        fam = [(("token", j, new), k) for k in range(0, min(n, per)) for j in range(0, 10) for new in ("Xq", "7", "-1.5e", "??", "Q7", "a", "1x")]
        if fmt == "mol2":
            # atom ids (first token of the atom records) replaced by other ids
            fam += [(("token", 0, new), k) for k in range(0, min(n, per)) for new in ("1", "2", "0", "3") if lines_of[k].split()[:1] and lines_of[k].split()[0].isdigit() and len(lines_of[k].split()) >= 6]
    elif w.get("kind") == "cut":
        fam = [(f"cut{j}", k) for k in range(0, min(n, 3 * per)) for j in range(1, 10)]
    elif search or w.get("kind") is None:
        fam = [(kd, k) for kd in ("truncate", "delete", "duplicate") for k in range(0, min(n, 3 * per))]
    else:
        # map the witness line (in a 2-molecule file of nlines lines) to the same relative position in the real file
        nl = max(1, int(w.get("nlines", n)))
        rel = int(w.get("line", 0)) / nl
        fam = [(w["kind"], k) for k in range(max(0, int(rel * 2 * per) - per), min(n, int(rel * 2 * per) + per))]
    for kd, k in fam:
        r = check(fmt, kd, k, e, text, ref)
        if r:
            bad.append(r)
            break
if bad:
    if search:
        json.dump({"witness": {"op": "damage-search", "signature": "damage"}, "violated": bad}, open(sys.argv[3], "w"), indent=1)
    print("REPRODUCED:", "; ".join(bad[:2]))
    sys.exit(0)
print("not reproduced")
sys.exit(1)
