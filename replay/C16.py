"""Replay for C16 on the real add_implicit_hydrogens. Exit 0 + 'REPRODUCED' when a clause is violated."""
import sys, json, math
import numpy as np
import molli as ml

BOUNDED = sys.argv[1] == "--bounded"
doc = json.load(open(sys.argv[1])) if sys.argv[1] not in ("--search", "--bounded") else {"witness": {"op": "search"}}
w = doc.get("witness") or {}
bad = []
CENTRES = {13: "B", 14: "C", 15: "N", 16: "O"}


def build(centre, nb, along_z=False, btypes=None, fc=0, spin=0, ntypes=None, neighbour="C", first=None):
    m = ml.Molecule()
    c = ml.Atom(centre, formal_charge=fc, formal_spin=spin)
    m.add_atom(c, [0.1, -0.2, 0.3], 0.0)
    dirs = [[0, 0, 1.4], [1.3, 0.2, -0.4], [-0.7, 1.1, -0.3]] if along_z else [[1.1, 0.3, 0.8], [-1.2, 0.4, 0.1], [0.2, -1.3, 0.2]]
    if first is not None:
        dirs = [list(first)] + dirs[1:]
    for j in range(nb):
        a = ml.Atom(neighbour)
        if ntypes and j < len(ntypes) and isinstance(ntypes[j], int):
            try:
                a.atype = ml.AtomType(ntypes[j])
            except ValueError:
                pass
        m.add_atom(a, np.array([0.1, -0.2, 0.3]) + dirs[j], 0.0)
        b = m.connect(0, j + 1)
        if btypes and j < len(btypes) and isinstance(btypes[j], int):
            try:
                b.btype = ml.BondType(btypes[j])
            except ValueError:
                pass
    return m, c


def order(b):
    v = int(b.btype)
    return 1.5 if v == 20 else (0.0 if v in (10, 11, 98, 101) else (float(v) if 0 <= v <= 6 else 1.0))


def expected(m, c):
    if c.element.group not in (13, 14, 15, 16):
        return 0
    ve = {13: 3, 14: 4, 15: 5, 16: 6}[c.element.group]
    e = ve - c.formal_charge - abs(c.formal_spin)
    # the bonded valence of the statement: the orders of the centre's bonds, whatever is at their other end
    return max(0, 4 - abs(4 - e) - math.ceil(sum(order(b) for b in m.bonds if c in b)))


def check(m, c, label, default=False):
    n0, b0 = m.n_atoms, m.n_bonds
    coords0, want = m.coords.copy(), expected(m, c)
    if default:
        m.add_implicit_hydrogens()
        got = sum(1 for x in m.atoms[n0:] if x in m.connected_atoms(c))
        if got != want or m.n_atoms - n0 != want:
            bad.append(f"{label}: add_implicit_hydrogens() without arguments gave {got} hydrogens to the atom ({m.n_atoms - n0} added in all), expected {want}")
        return
    m.add_implicit_hydrogens(c)
    added = m.atoms[n0:]
    if len(added) != want:
        bad.append(f"{label}: {len(added)} hydrogens added, the formula gives {want}")
    if not np.isfinite(m.coords[n0:]).all():
        bad.append(f"{label}: new hydrogens have non-finite coordinates")
    else:
        want_len = c.element.cov_radius_1 + ml.Element.H.cov_radius_1
        for hcoord in m.coords[n0:]:
            if abs(np.linalg.norm(hcoord - m.get_atom_coord(c)) - want_len) > 1e-3:
                bad.append(f"{label}: new X-H distance {np.linalg.norm(hcoord - m.get_atom_coord(c)):.3f}, sum of covalent radii {want_len:.3f}")
                break
    nbrs = [x for x in m.connected_atoms(c) if x in m.atoms[:n0]]
    if nbrs and np.isfinite(m.coords[n0:]).all():
        cen = np.mean([m.get_atom_coord(x) for x in nbrs], axis=0) - m.get_atom_coord(c)
        if np.linalg.norm(cen) > 0.2:
            for hcoord in m.coords[n0:]:
                if np.dot(hcoord - m.get_atom_coord(c), cen) >= 0:
                    bad.append(f"{label}: a new hydrogen points towards the neighbours (of {len(added)} added)")
                    break
    if not np.allclose(m.coords[:n0], coords0, equal_nan=True):
        bad.append(f"{label}: existing coordinates changed")
    n1 = m.n_atoms
    m.add_implicit_hydrogens(c)
    if m.n_atoms != n1:
        bad.append(f"{label}: second call added {m.n_atoms - n1} more")


def sweep():
    for centre in ("C", "N", "O"):
        for nb in (0, 1, 2, 3):
            for z in (False, True):
                for flip in (1, -1):
                    m, c = build(centre, nb, along_z=z)
                    m.coords = m.coords * flip          # mirror: both orientations of a pyramidal centre
                    check(m, c, f"{centre}, {nb} neighbours{', first bond along z' if z else ''}{', mirrored' if flip < 0 else ''}")
        # the single neighbour exactly along an axis, both ways (the placement rotates a reference polyhedron onto the bond direction:
        # exactly parallel and exactly opposite directions are its degenerate cases)
        for ax in ([0, 0, 1.5], [0, 0, -1.5], [1.5, 0, 0], [-1.5, 0, 0], [0, 1.5, 0], [0, -1.5, 0], [0.9, 0.9, 0.9], [-0.9, -0.9, -0.9]):
            m, c = build(centre, 1, first=ax)
            m.coords = m.coords - m.coords[0]            # the centre at the origin
            check(m, c, f"{centre}, 1 neighbour exactly along {ax}")


if w.get("op") == "mean_plane":
    from molli.math import mean_plane
    rng = np.random.default_rng(3)
    for t in range(200):
        n = int(rng.integers(3, 7))
        # points near a plane of general orientation
        nrm = rng.normal(size=3)
        nrm /= np.linalg.norm(nrm)
        u = np.cross(nrm, rng.normal(size=3))
        u /= np.linalg.norm(u)
        v = np.cross(nrm, u)
        pts = rng.normal(size=3) * 3 + np.array([a * u + b * v for a, b in rng.uniform(-2, 2, size=(n, 2))]) + rng.normal(size=(n, 3)) * 1e-6
        keep = pts.copy()
        got = np.asarray(mean_plane(pts))
        if got.shape != (3,) or abs(np.linalg.norm(got) - 1) > 1e-6 or abs(abs(float(got @ nrm)) - 1) > 1e-4:
            bad.append(f"mean_plane of {n} points in the plane with normal {np.round(nrm, 3).tolist()} returned {np.round(got, 3).tolist()}")
            break
        if not np.array_equal(pts, keep):
            bad.append("mean_plane modified its argument")
            break
elif w.get("op") == "count":
    g = w.get("group") if w.get("group") in CENTRES else 14
    m, c = build(CENTRES[g], int(w.get("neighbours", 0)), btypes=w.get("btypes"), fc=int(w.get("fc") or 0), spin=int(w.get("spin") or 0), ntypes=w.get("neighbour_types"))
    check(m, c, f"{CENTRES[g]} with {w.get('neighbours')} neighbours (types {w.get('neighbour_types')})")
    for at in ml.AtomType:
        for bt in (ml.BondType.Single, ml.BondType.Double):
            m, c = build("C", 1, btypes=[int(bt)], ntypes=[int(at)], neighbour="Zr")
            check(m, c, f"C bonded ({bt.name}) to a {at.name} atom")
elif w.get("op") == "default-selection":
    # one representative element per group; the neighbour (if any) is a metal that takes no hydrogens itself
    by_group = {}
    for el in ml.Element:
        try:
            if el.group and el.z > 0:
                by_group.setdefault(int(el.group), el)
        except Exception:
            pass
    for g_, el in sorted(by_group.items()):
        for nb in (0, 1):
            for bt in ((ml.BondType.Single, ml.BondType.Ligand) if nb else (None,)):
                m, c = build(el.name, nb, btypes=[int(bt)] if bt is not None else None, neighbour="Fe")
                check(m, c, f"{el.name} (group {g_}) with {nb} neighbours", default=True)
else:
    sweep()
if w.get("op") == "count" and not bad:
    sweep()          # one call after another in the same process: nothing a call leaves behind may change the next one
if BOUNDED:
    seen, vio = set(), []
    for b_ in bad:
        kinds = (("distance", "bond-length"), ("points towards", "direction"), ("hydrogens added", "count"), ("non-finite", "finite-coordinates"),
                 ("existing coordinates", "frame"), ("second call", "idempotence"), ("without arguments", "default-selection"))
        sig = "hydrogens/" + next((k2 for k1, k2 in kinds if k1 in b_), "other")
        if sig not in seen:
            seen.add(sig)
            vio.append({"signature": sig, "what": b_})
    print(json.dumps({"explored": {"centres x neighbourhoods placed one after another in one process": 3 * (16 + 8)}, "violations": vio[:6]}))
    sys.exit(0)
if bad:
    if sys.argv[1] == "--search":
        json.dump({"witness": {"op": "search", "signature": "hydrogens"}, "violated": bad[:5]}, open(sys.argv[3], "w"), indent=1)
    print("REPRODUCED:", "; ".join(bad[:3]))
    sys.exit(0)
print("not reproduced")
sys.exit(1)
