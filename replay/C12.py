"""Replay of a C12 counterexample on the real Structure.join. Exit 0 + 'REPRODUCED' when a clause is violated."""
import sys, json
import numpy as np
import molli as ml

doc = json.load(open(sys.argv[1]))
w = doc["witness"]
bad = []


def frag(ap_last, charge, mult, shift):
    m = ml.Molecule(charge=charge, mult=mult)
    els = ["C", "N", "Cl"] if ap_last else ["Cl", "O", "C"]
    for i, e in enumerate(els):
        a = ml.Atom(e, label=f"{e}{i}")
        m.add_atom(a, np.array([i * 1.5, 0.3 * i * i, 0.0]) + shift, 0.0)
    m.connect(0, 1)
    m.connect(1, 2)
    (m.atoms[2] if ap_last else m.atoms[0]).atype = ml.AtomType.AttachmentPoint
    return m


def ival(x, d):
    return int(x) if isinstance(x, (int, float)) else d


if w.get("op") == "join":
    qA, qB = ival(w.get("qA"), 1), ival(w.get("qB"), 0)
    mA, mB = max(1, ival(w.get("mA"), 1)), max(1, ival(w.get("mB"), 1))
    A, B = frag(True, qA, mA, np.zeros(3)), frag(False, qB, mB, np.array([5.0, 1.0, -2.0]))
    kw = {}
    if w.get("charge_override") is not None:
        kw["charge"] = ival(w["charge_override"], 0)
    if w.get("mult_override") is not None:
        kw["mult"] = max(1, ival(w["mult_override"], 1))
    r = ml.Molecule.join(A, B, A.atoms[2], B.atoms[0], dist=1.4, **kw)
    want_q = kw.get("charge", qA + qB)
    want_m = kw.get("mult", mA + mB - 1)
    if r.charge != want_q:
        bad.append(f"join(qA={qA}, qB={qB}, charge={kw.get('charge')}) has charge {r.charge}, expected {want_q}")
    if r.mult != want_m:
        bad.append(f"join(mA={mA}, mB={mB}, mult={kw.get('mult')}) has multiplicity {r.mult}, expected {want_m}")
    if r.n_atoms != 4 or r.n_bonds != 3:
        bad.append(f"product has {r.n_atoms} atoms / {r.n_bonds} bonds")
elif w.get("op") == "purity":
    A, B = frag(True, 0, 1, np.zeros(3)), frag(False, 0, 1, np.zeros(3))
    # make B's attachment vector exactly parallel to A's: the rotation then takes the antiparallel branch
    A.coords = np.array([[0, 0, 0], [1.5, 0, 0], [3.0, 0, 0]], dtype=float)
    B.coords = np.array([[3.0, 0, 0], [1.5, 0, 0], [0.0, 1.0, 0.0]], dtype=float)
    outs = []
    for seed in (1, 2, 3):
        np.random.seed(seed)
        outs.append(ml.Molecule.join(A, B, A.atoms[2], B.atoms[0], dist=1.5).coords.copy())
    if not all(np.allclose(outs[0], o, atol=1e-9) for o in outs[1:]):
        bad.append(f"same inputs, different numpy RNG seeds: product coordinates differ by up to {max(np.abs(outs[0] - o).max() for o in outs[1:]):.3f}")
else:
    print("unknown op")
    sys.exit(1)
if bad:
    print("REPRODUCED:", "; ".join(bad))
    sys.exit(0)
print("not reproduced")
sys.exit(1)
