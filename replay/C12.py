"""Replay of a C12 counterexample on the real Structure.join. Exit 0 + 'REPRODUCED' when a clause is violated."""
import sys, json
import numpy as np
import molli as ml

doc = json.load(open(sys.argv[1]))
w = doc["witness"]
bad = []


def frag(ap_last, charge, mult, shift):
    m = ml.Molecule(charge=charge, mult=mult)
    els = ["C", "N", "Cl"] if ap_last else ["Cl", "O", "C"]
    for i, e in enumerate(els):
        a = ml.Atom(e, label=f"{e}{i}")
        m.add_atom(a, np.array([i * 1.5, 0.3 * i * i, 0.0]) + shift, 0.0)
    m.connect(0, 1)
    m.connect(1, 2)
    (m.atoms[2] if ap_last else m.atoms[0]).atype = ml.AtomType.AttachmentPoint
    return m


def ival(x, d):
    return int(x) if isinstance(x, (int, float)) else d


if w.get("op") == "join":
    qA, qB = ival(w.get("qA"), 1), ival(w.get("qB"), 0)
    mA, mB = max(1, ival(w.get("mA"), 1)), max(1, ival(w.get("mB"), 1))
    A, B = frag(True, qA, mA, np.zeros(3)), frag(False, qB, mB, np.array([5.0, 1.0, -2.0]))
    kw = {}
    if w.get("charge_override") is not None:
        kw["charge"] = ival(w["charge_override"], 0)
    if w.get("mult_override") is not None:
        kw["mult"] = max(1, ival(w["mult_override"], 1))
    r = ml.Molecule.join(A, B, A.atoms[2], B.atoms[0], dist=1.4, **kw)
    want_q = kw.get("charge", qA + qB)
    want_m = kw.get("mult", mA + mB - 1)
    if r.charge != want_q:
        bad.append(f"join(qA={qA}, qB={qB}, charge={kw.get('charge')}) has charge {r.charge}, expected {want_q}")
    if r.mult != want_m:
        bad.append(f"join(mA={mA}, mB={mB}, mult={kw.get('mult')}) has multiplicity {r.mult}, expected {want_m}")
    if r.n_atoms != 4 or r.n_bonds != 3:
        bad.append(f"product has {r.n_atoms} atoms / {r.n_bonds} bonds")
    # full contract on randomly built fragments: attachment point at any position of either fragment
    rng = np.random.default_rng(5)
    for trial in range(60):
        if bad:
            break
        frs = []
        for tag in "AB":
            n = int(rng.integers(3, 6))
            m = ml.Molecule(charge=int(rng.integers(-1, 2)), mult=1)
            for i in range(n):
                m.add_atom(ml.Atom(str(rng.choice(["C", "N", "O", "F", "S"])), label=f"{tag}{i}"), rng.uniform(-3, 3, size=3), float(rng.uniform(-1, 1)))
            for i in range(1, n):
                j = int(rng.integers(0, i))
                # bonds are stored in either orientation
                (m.connect(i, j) if rng.random() < 0.5 else m.connect(j, i))
            # a leaf becomes the attachment point
            deg = [m.n_bonds_with_atom(a) for a in m.atoms]
            leaves = [i for i, d in enumerate(deg) if d == 1]
            ap = m.atoms[int(rng.choice(leaves))]
            ap.atype = ml.AtomType.AttachmentPoint
            ap.element = ml.Element.Unknown
            frs.append((m, ap))
        (A, apA), (B, apB) = frs
        nbA, nbB = next(A.connected_atoms(apA)), next(B.connected_atoms(apB))
        lblA, lblB = nbA.label, nbB.label
        A0, B0 = A.coords.copy(), B.coords.copy()
        vA = A.get_atom_coord(apA) - A.get_atom_coord(nbA)
        dist = float(rng.uniform(1.0, 2.0))
        try:
            r = ml.Molecule.join(A, B, apA, apB, dist=dist, optimize_rotation=(trial % 2 == 1))
        except BaseException as ex:
            bad.append(f"join raised {type(ex).__name__}: {ex}")
            break
        if r.n_atoms != A.n_atoms + B.n_atoms - 2 or r.n_bonds != A.n_bonds + B.n_bonds - 1:
            bad.append(f"product has {r.n_atoms} atoms / {r.n_bonds} bonds from {A.n_atoms}+{B.n_atoms} atoms")
            break
        if not (np.array_equal(A.coords, A0) and np.array_equal(B.coords, B0) and A.n_bonds == A.n_atoms - 1 and B.n_bonds == B.n_atoms - 1):
            bad.append("join modified a source fragment")
            break
        la = {a.label: a for a in r.atoms}
        if len(la) != r.n_atoms or apA.label in la or apB.label in la:
            bad.append("product atoms are not exactly the non-attachment atoms of the fragments")
            break
        want = set()
        for src in (A, B):
            for b in src.bonds:
                if b.a1.atype != ml.AtomType.AttachmentPoint and b.a2.atype != ml.AtomType.AttachmentPoint:
                    want.add(frozenset((b.a1.label, b.a2.label)))
        want.add(frozenset((lblA, lblB)))
        got = {frozenset((b.a1.label, b.a2.label)) for b in r.bonds}
        if got != want:
            bad.append(f"bonds of the product differ from internal bonds + one new bond {lblA}-{lblB}: extra {sorted(map(sorted, got - want))} missing {sorted(map(sorted, want - got))}")
            break
        pa, pb = r.get_atom_coord(la[lblA]), r.get_atom_coord(la[lblB])
        if abs(np.linalg.norm(pb - pa) - dist) > 1e-6:
            bad.append(f"new bond length {np.linalg.norm(pb - pa):.4f}, requested {dist:.4f}")
            break
        if np.linalg.norm(np.cross(pb - pa, vA)) > 1e-6 * np.linalg.norm(vA) or np.dot(pb - pa, vA) <= 0:
            bad.append("new bond does not point along A's attachment direction")
            break
        if trial % 2 == 0 and B.n_atoms > 2:
            # B the right way round: every other atom of B lies where the rigid motion (nbB -> pb, apB direction -> -vA) puts it
            vB = B.get_atom_coord(apB) - B.get_atom_coord(nbB)
            others = [a for a in B.atoms if a is not apB and a is not nbB]
            for a in others:
                w0 = B.get_atom_coord(a) - B.get_atom_coord(nbB)
                w1 = r.get_atom_coord(la[a.label]) - pb
                # the component along the attachment direction is preserved up to the reversal: w0.vB/|vB| = -w1.vA/|vA| ... (apB direction -> -vA)
                if abs(np.dot(w0, vB) / np.linalg.norm(vB) - np.dot(w1, -vA) / np.linalg.norm(vA)) > 1e-6:
                    bad.append("fragment B is attached the wrong way round (its attachment direction does not oppose A's)")
                    break
            if bad:
                break
        for src in (A, B):
            idx = [la[a.label] for a in src.atoms if a.atype != ml.AtomType.AttachmentPoint]
            s0 = np.array([src.get_atom_coord(a) for a in src.atoms if a.atype != ml.AtomType.AttachmentPoint])
            s1 = np.array([r.get_atom_coord(a) for a in idx])
            d0 = np.linalg.norm(s0[:, None] - s0[None], axis=-1)
            d1 = np.linalg.norm(s1[:, None] - s1[None], axis=-1)
            if not np.allclose(d0, d1, atol=1e-6):
                bad.append("a fragment was deformed by join")
                break
elif w.get("op") == "assemble":
    import types
    try:
        import molli.external.openbabel  # noqa
    except BaseException:
        sys.modules["molli.external.openbabel"] = types.ModuleType("molli.external.openbabel")
    from molli.scripts import combine as CB
    fn = CB._ml_assemble
    fn = getattr(fn, "__wrapped__", None) or fn("x")[0] if not hasattr(fn, "__wrapped__") else fn.__wrapped__

    def mk(name, els, bonds, aps):
        m = ml.Molecule(name=name)
        for j, e in enumerate(els):
            a = ml.Atom(e if e != "X" else ml.Element.Unknown, label=f"{name}{j}")
            if j in aps:
                a.atype = ml.AtomType.AttachmentPoint
            m.add_atom(a, [1.37 * j + 0.1 * len(els), 0.53 * j * j, 0.29 * j], 0.0)
        for i, j in bonds:
            m.connect(i, j)
        return m
    core = mk("core", ("X", "C", "Si", "X", "X", "P"), ((0, 1), (1, 2), (2, 3), (2, 5), (5, 4)), (0, 3, 4))
    subs = tuple(mk(f"s{k}", ("X", el), ((0, 1),), (0,)) for k, el in enumerate(("N", "O", "F")))
    aps = tuple(core.get_atom_index(a) for a in core.attachment_points)
    try:
        res = fn(core, aps, [subs], hadd=False)
        prod = list(res.values())[0]
        got = sorted(tuple(sorted((b.a1.element.symbol, b.a2.element.symbol))) for b in prod.bonds)
        want = sorted(tuple(sorted(p_)) for p_ in (("C", "Si"), ("Si", "P"), ("C", "N"), ("Si", "O"), ("P", "F")))
        if got != want:
            bad.append(f"molli combine put the substituents on the wrong attachment points: bonds {got}, expected {want}")
        # only the attachment points the user selected (-a): the second and third; the first one stays free
        res = fn(core, aps[1:], [subs[:2]], hadd=False)
        prod = list(res.values())[0]
        sym = lambda a: a.element.symbol if a.element != ml.Element.Unknown else "X"
        got = sorted(tuple(sorted((sym(b.a1), sym(b.a2)))) for b in prod.bonds)
        want = sorted(tuple(sorted(p_)) for p_ in (("C", "Si"), ("Si", "P"), ("C", "X"), ("Si", "N"), ("P", "O")))
        if got != want:
            bad.append(f"molli combine with a subset of the attachment points: bonds {got}, expected {want}")
    except BaseException as ex:
        bad.append(f"_ml_assemble raised {type(ex).__name__}: {ex}")
elif w.get("op") == "purity":
    A, B = frag(True, 0, 1, np.zeros(3)), frag(False, 0, 1, np.zeros(3))
    # make B's attachment vector exactly parallel to A's: the rotation then takes the antiparallel branch
    A.coords = np.array([[0, 0, 0], [1.5, 0, 0], [3.0, 0, 0]], dtype=float)
    B.coords = np.array([[3.0, 0, 0], [1.5, 0, 0], [0.0, 1.0, 0.0]], dtype=float)
    outs = []
    for seed in (1, 2, 3):
        np.random.seed(seed)
        outs.append(ml.Molecule.join(A, B, A.atoms[2], B.atoms[0], dist=1.5).coords.copy())
    if not all(np.allclose(outs[0], o, atol=1e-9) for o in outs[1:]):
        bad.append(f"same inputs, different numpy RNG seeds: product coordinates differ by up to {max(np.abs(outs[0] - o).max() for o in outs[1:]):.3f}")
else:
    print("unknown op")
    sys.exit(1)
if bad:
    print("REPRODUCED:", "; ".join(bad))
    sys.exit(0)
print("not reproduced")
sys.exit(1)
