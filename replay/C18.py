"""Replay of a C18 counterexample with real libraries and real (scripted) jobs. Exit 0 + 'REPRODUCED' on a violation."""
import sys, json, os, tempfile, logging
os.environ.setdefault("MOLLI_HOME", tempfile.mkdtemp())
import molli as ml
from molli.pipeline.job import Job, JobInput, JobOutput, jobmap

doc = json.load(open(sys.argv[1]))
w = doc["witness"]
d = tempfile.mkdtemp()
os.chdir(d)
logging.disable(logging.CRITICAL)
bad = []
COUNT = os.path.join(d, "count")
os.mkdir(COUNT)


class Drv:
    executable = "sh"
    nprocs = 1

    @Job(return_files=("res.txt",)).prep
    def task(self, m, fail=False):
        cmd = f"sh -c 'echo run >> {COUNT}/{m.name}; echo {m.name} > res.txt; exit {1 if fail else 0}'"
        return JobInput(m.name, commands=[(cmd, "c")], return_files=self.return_files)

    @task.post
    def task(self, out, m, **kw):
        return ml.Molecule(m, name=m.name)


def lib(path, names):
    L = ml.MoleculeLibrary(path, readonly=False, overwrite=True)
    with L.writing():
        for n in names:
            L[n] = ml.Molecule(ml.Molecule.load_mol2(ml.files.benzene_mol2), name=n)
    return L


def runs(n):
    p = os.path.join(COUNT, n)
    return len(open(p).read().split()) if os.path.exists(p) else 0


drv = Drv()
src = lib(os.path.join(d, "src.mlib"), ["a", "b"])
dst = lib(os.path.join(d, "dst.mlib"), ["only_in_dst"])
try:
    jobmap(drv.task, src, dst, cache_dir=os.path.join(d, "cache"), scratch_dir=os.path.join(d, "scr"), kwargs={"fail": False})
except BaseException as e:
    bad.append(f"jobmap with a destination-only key raised {type(e).__name__}: {e}")
with dst.reading():
    ks = sorted(dst.keys())
if not bad and ks != ["a", "b", "only_in_dst"]:
    bad.append(f"destination keys after the run: {ks}")
# a failing job must not produce a destination entry
src2 = lib(os.path.join(d, "src2.mlib"), ["x"])
dst2 = lib(os.path.join(d, "dst2.mlib"), [])
try:
    jobmap(drv.task, src2, dst2, cache_dir=os.path.join(d, "cache2"), scratch_dir=os.path.join(d, "scr"), kwargs={"fail": True})
    with dst2.reading():
        if "x" in dst2.keys():
            bad.append("the result of a failed run (exit code 1) was stored in the destination")
    # rerun after the failure with a succeeding job: executes exactly once more, then is reused
    jobmap(drv.task, src2, dst2, cache_dir=os.path.join(d, "cache2"), scratch_dir=os.path.join(d, "scr"), kwargs={"fail": False})
    n1 = runs("x")
    with dst2.reading():
        if "x" not in dst2.keys():
            bad.append("rerun after the failure did not store the result")
    jobmap(drv.task, src2, dst2, cache_dir=os.path.join(d, "cache2"), scratch_dir=os.path.join(d, "scr"), kwargs={"fail": False})
    if runs("x") != n1:
        bad.append("an item already in the destination was executed again")
except BaseException as e:
    bad.append(f"jobmap raised {type(e).__name__}: {e}")
if bad:
    print("REPRODUCED:", "; ".join(bad[:3]))
    sys.exit(0)
print("not reproduced")
sys.exit(1)
